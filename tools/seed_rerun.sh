#!/bin/sh
# usage: seed_rerun.sh Cxx [Cyy …] — re-evaluate every recorded seeded change of the properties against the current checks
for p in "$@"; do
  for d in /verif/seeded/$p-*; do
    n=$(basename $d)
    rm -rf /tmp/seed_src && mkdir -p /tmp/seed_src && cp $d/patch.diff $d/demo.py $d/meta.json /tmp/seed_src/
    chk=$(python3 -c "import json;print(json.load(open('$d/meta.json')).get('caught_by_check','$p'))")
    /verif/tools/seed_record.sh /tmp/seed_src $n $chk 2>&1 | tail -1
  done
done
rm -rf /tmp/seed_src
