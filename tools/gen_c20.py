"""
gen_c20.py — translator part for C20: sqlframe/__init__.py (activate / deactivate / activate_context) and
every sqlframe/<engine>/__init__.py  ->  Gen/Activate.lean  (namespace Sqlframe.Gen.Act).

Extracted (Python `ast`, never importing sqlframe):
  * ENGINE_TO_PREFIX, NAME_TO_FILE_OVERRIDE (dict literals),
  * activate(): the statement sequence is matched against the shape the model interprets; what may vary
    is extracted: whether sys.modules["pyspark"] / ["pyspark.testing"] / ["pyspark.sql"] are assigned, the
    config key used for `conn`, an optional pre-import of the engine's `functions` submodule, the
    special-name list of the loop, the `Session -> SparkSession` rename, whether a module key is guarded by
    `resolved_files`,
  * deactivate(): a step list  collect(key test) / delete / reimport(caught exception classes) / clearConfig,
  * activate_context(): pre / post / finally call lists around the single `yield` (+ whether `activate`
    sits inside the `try`),
  * per engine package: the names bound by `from sqlframe.<engine>.<file> import A, B` in __init__.py (in
    order), whether `<file>.py` defines `class A` itself (engine-specific object) or re-exports a shared
    one, and the module files present in the package directory.
Anything outside this sub-language raises Untranslatable.
"""
from __future__ import annotations

import ast
import os
import typing as t

from translate import HEADER, Untranslatable, find_func, lean_str, parse

OB = "Gen.Activate"


def _u(node: ast.AST) -> str:
    return ast.unparse(node)


def _dict_literal(mod: ast.Module, name: str) -> t.List[t.Tuple[str, str]]:
    for n in mod.body:
        if isinstance(n, ast.Assign) and len(n.targets) == 1 and isinstance(n.targets[0], ast.Name) and n.targets[0].id == name:
            if not isinstance(n.value, ast.Dict):
                raise Untranslatable(OB, f"{name} is not a dict literal")
            out = []
            for k, v in zip(n.value.keys, n.value.values):
                if not (isinstance(k, ast.Constant) and isinstance(k.value, str) and isinstance(v, ast.Constant) and isinstance(v.value, str)):
                    raise Untranslatable(OB, f"{name}: non-literal entry {_u(k) if k else '**'}: {_u(v)}")
                out.append((k.value, v.value))
            if len({k for k, _ in out}) != len(out):
                raise Untranslatable(OB, f"{name}: duplicate keys")
            return out
    raise Untranslatable(OB, f"{name} not found")


def _lstr_list(xs: t.Iterable[str]) -> str:
    return "[" + ", ".join(lean_str(x) for x in xs) + "]"


def _lpairs(xs: t.Iterable[t.Tuple[str, str]]) -> str:
    return "[" + ", ".join(f"({lean_str(a)}, {lean_str(b)})" for a, b in xs) + "]"


# ------------------------------------------------------------------------------------------------
# activate
# ------------------------------------------------------------------------------------------------


def _translate_activate(fn: ast.FunctionDef) -> t.Dict[str, t.Any]:
    ob = OB + ".activate"
    out: t.Dict[str, t.Any] = {
        "setsTop": False,
        "setsTesting": False,
        "setsSql": False,
        "mockSql": False,
        "mockTesting": False,
        "connKey": None,
        "storesConfig": False,
        "preimportFunctions": False,
        "special": None,
        "rename": None,
        "guardResolved": False,
    }
    body = [s for s in fn.body if not isinstance(s, (ast.Import, ast.ImportFrom))]
    if body and isinstance(body[0], ast.Expr) and isinstance(body[0].value, ast.Constant) and isinstance(body[0].value.value, str):
        body = body[1:]
    i = 0

    def cur() -> t.Optional[ast.stmt]:
        return body[i] if i < len(body) else None

    def take(expected: str, required: bool = True) -> bool:
        nonlocal i
        s = cur()
        if s is not None and _u(s) == expected:
            i += 1
            return True
        if required:
            raise Untranslatable(ob, f"expected `{expected}`, found `{_u(s) if s is not None else '<end>'}`")
        return False

    take("pyspark_mock = MagicMock()")
    take("pyspark_mock.__file__ = 'pyspark'")
    # the four bindings of the mock package (each optional; order free)
    progressed = True
    while progressed:
        progressed = False
        for text, key in (
            ("sys.modules['pyspark'] = pyspark_mock", "setsTop"),
            ("pyspark_mock.testing = testing", "mockTesting"),
            ("sys.modules['pyspark.testing'] = testing", "setsTesting"),
        ):
            if not out[key] and take(text, required=False):
                out[key] = True
                progressed = True
    # if conn: ACTIVATE_CONFIG[<key>] = conn
    s = cur()
    if isinstance(s, ast.If) and _u(s.test) == "conn" and not s.orelse and len(s.body) == 1:
        a = s.body[0]
        if (
            isinstance(a, ast.Assign)
            and isinstance(a.targets[0], ast.Subscript)
            and _u(a.targets[0].value) == "ACTIVATE_CONFIG"
            and isinstance(a.targets[0].slice, ast.Constant)
            and _u(a.value) == "conn"
        ):
            out["connKey"] = a.targets[0].slice.value
            i += 1
        else:
            raise Untranslatable(ob, f"unsupported `if conn` body {_u(a)!r}")
    if take("for key, value in (config or {}).items():\n    ACTIVATE_CONFIG[key] = value", required=False):
        out["storesConfig"] = True
    take("if not engine:\n    return")
    take("engine = engine.lower()")
    s = cur()
    if not (isinstance(s, ast.If) and _u(s.test) == "engine not in ENGINE_TO_PREFIX" and len(s.body) == 1 and isinstance(s.body[0], ast.Raise) and not s.orelse):
        raise Untranslatable(ob, "expected the `engine not in ENGINE_TO_PREFIX: raise` guard")
    exc = s.body[0].exc
    if not (isinstance(exc, ast.Call) and _u(exc.func) == "ValueError"):
        raise Untranslatable(ob, "the unknown-engine guard no longer raises ValueError")
    i += 1
    take("prefix = ENGINE_TO_PREFIX[engine]")
    take("engine_module = importlib.import_module(f'sqlframe.{engine}')")
    if take("importlib.import_module(f'sqlframe.{engine}.functions')", required=False):
        out["preimportFunctions"] = True
    progressed = True
    while progressed:
        progressed = False
        for text, key in (("sys.modules['pyspark.sql'] = engine_module", "setsSql"), ("pyspark_mock.sql = engine_module", "mockSql")):
            if not out[key] and take(text, required=False):
                out[key] = True
                progressed = True
    if take("importlib.import_module(f'sqlframe.{engine}.functions')", required=False):
        out["preimportFunctions"] = True
    take("types = engine_module.__dict__.copy()")
    take("resolved_files = set()")
    loop = cur()
    if not (isinstance(loop, ast.For) and _u(loop.target) == "(name, obj)" and _u(loop.iter) == "types.items()" and not loop.orelse and len(loop.body) == 1):
        raise Untranslatable(ob, "expected `for name, obj in types.items():` with a single `if`")
    i += 1
    if cur() is not None:
        raise Untranslatable(ob, f"statements after the loop: {_u(cur())!r}")
    iff = loop.body[0]
    if not (isinstance(iff, ast.If) and not iff.orelse):
        raise Untranslatable(ob, "loop body is not a single `if` without else")
    test = iff.test
    if not (isinstance(test, ast.BoolOp) and isinstance(test.op, ast.Or) and len(test.values) == 2 and _u(test.values[0]) == "name.startswith(prefix)"):
        raise Untranslatable(ob, f"unsupported selection test {_u(test)!r}")
    cmpn = test.values[1]
    if not (
        isinstance(cmpn, ast.Compare)
        and _u(cmpn.left) == "name"
        and len(cmpn.ops) == 1
        and isinstance(cmpn.ops[0], ast.In)
        and isinstance(cmpn.comparators[0], (ast.List, ast.Tuple, ast.Set))
        and all(isinstance(e, ast.Constant) and isinstance(e.value, str) for e in cmpn.comparators[0].elts)
    ):
        raise Untranslatable(ob, f"unsupported special-name test {_u(cmpn)!r}")
    out["special"] = [e.value for e in cmpn.comparators[0].elts]
    b = list(iff.body)
    j = 0

    def btake(expected: str, required: bool = True) -> bool:
        nonlocal j
        s2 = b[j] if j < len(b) else None
        if s2 is not None and _u(s2) == expected:
            j += 1
            return True
        if required:
            raise Untranslatable(ob, f"loop: expected `{expected}`, found `{_u(s2) if s2 is not None else '<end>'}`")
        return False

    btake("name_without_prefix = name.replace(prefix, '')")
    s2 = b[j] if j < len(b) else None
    if isinstance(s2, ast.If) and not s2.orelse and len(s2.body) == 1:
        t0, a0 = s2.test, s2.body[0]
        if (
            isinstance(t0, ast.Compare)
            and _u(t0.left) == "name_without_prefix"
            and len(t0.ops) == 1
            and isinstance(t0.ops[0], ast.Eq)
            and isinstance(t0.comparators[0], ast.Constant)
            and isinstance(a0, ast.Assign)
            and _u(a0.targets[0]) == "name_without_prefix"
            and isinstance(a0.value, ast.Constant)
        ):
            out["rename"] = (t0.comparators[0].value, a0.value.value)
            j += 1
    btake("setattr(engine_module, name_without_prefix, obj)")
    btake("file = NAME_TO_FILE_OVERRIDE.get(name_without_prefix, name_without_prefix).lower()")
    btake("engine_file = importlib.import_module(f'sqlframe.{engine}.{file}')")
    if btake("if engine_file not in resolved_files:\n    sys.modules[f'pyspark.sql.{file}'] = engine_file\n    resolved_files.add(engine_file)", required=False):
        out["guardResolved"] = True
    else:
        btake("sys.modules[f'pyspark.sql.{file}'] = engine_file")
    btake("setattr(engine_file, name_without_prefix, obj)")
    if j != len(b):
        raise Untranslatable(ob, f"loop: unexpected statement {_u(b[j])!r}")
    return out


# ------------------------------------------------------------------------------------------------
# deactivate
# ------------------------------------------------------------------------------------------------

EXC = {"ImportError": "importError", "ModuleNotFoundError": "moduleNotFound", "AttributeError": "attributeError", "Exception": "exception", "BaseException": "baseException"}


def _key_test(node: ast.expr, ob: str) -> str:
    """`k.startswith("pyspark")` / `k == "pyspark"` / `k.startswith("pyspark.")` / or-combinations"""
    if isinstance(node, ast.BoolOp) and isinstance(node.op, ast.Or):
        return "(.either " + " ".join(_key_test(v, ob) for v in node.values) + ")" if len(node.values) == 2 else _raise(ob, "or with more than two operands")
    if isinstance(node, ast.Call) and _u(node.func) == "k.startswith" and len(node.args) == 1 and isinstance(node.args[0], ast.Constant) and isinstance(node.args[0].value, str):
        lit = node.args[0].value
        if lit.endswith("."):
            return f"(.under {lean_str(lit[:-1])})"
        if "." in lit:
            raise Untranslatable(ob, f"prefix test on a dotted literal {lit!r}")
        return f"(.top {lean_str(lit)})"
    if isinstance(node, ast.Compare) and _u(node.left) == "k" and len(node.ops) == 1 and isinstance(node.ops[0], ast.Eq) and isinstance(node.comparators[0], ast.Constant):
        return f"(.exact {lean_str(node.comparators[0].value)})"
    raise Untranslatable(ob, f"unsupported key test {_u(node)!r}")


def _raise(ob: str, why: str) -> str:
    raise Untranslatable(ob, why)


def _translate_deactivate(fn: ast.FunctionDef) -> t.List[str]:
    ob = OB + ".deactivate"
    steps: t.List[str] = []
    for s in fn.body:
        if isinstance(s, ast.Expr) and isinstance(s.value, ast.Constant) and isinstance(s.value.value, str):
            continue
        if isinstance(s, (ast.Import, ast.ImportFrom)):
            continue
        if _u(s) == "ACTIVATE_CONFIG.clear()":
            steps.append(".clearConfig")
            continue
        if isinstance(s, ast.Assign) and _u(s.targets[0]) == "pyspark_imports" and isinstance(s.value, ast.ListComp):
            lc = s.value
            g = lc.generators[0]
            if not (len(lc.generators) == 1 and _u(lc.elt) == "k" and _u(g.target) == "k" and _u(g.iter) == "sys.modules" and len(g.ifs) == 1):
                raise Untranslatable(ob, f"unsupported collection {_u(s)!r}")
            steps.append(f".collect {_key_test(g.ifs[0], ob)}")
            continue
        if isinstance(s, ast.For) and _u(s.iter) == "sys.modules.copy().items()":
            if _u(s) != "for k, v in sys.modules.copy().items():\n    if k in pyspark_imports:\n        del sys.modules[k]":
                raise Untranslatable(ob, f"unsupported delete loop {_u(s)!r}")
            steps.append(".deleteCollected")
            continue
        if isinstance(s, ast.For) and _u(s.iter) == "pyspark_imports":
            if not (_u(s.target) == "k" and len(s.body) == 1 and not s.orelse):
                raise Untranslatable(ob, "unsupported re-import loop")
            tr = s.body[0]
            if isinstance(tr, ast.Try):
                if not (len(tr.body) == 1 and _u(tr.body[0]) == "sys.modules[k] = importlib.import_module(k)" and not tr.orelse and not tr.finalbody):
                    raise Untranslatable(ob, f"unsupported re-import body {_u(tr)!r}")
                caught: t.List[str] = []
                for h in tr.handlers:
                    if not (len(h.body) == 1 and isinstance(h.body[0], (ast.Pass, ast.Continue))):
                        raise Untranslatable(ob, "re-import handler does more than `pass`")
                    if h.type is None:
                        caught.append("baseException")
                        continue
                    names = h.type.elts if isinstance(h.type, ast.Tuple) else [h.type]
                    for nm in names:
                        if _u(nm) not in EXC:
                            raise Untranslatable(ob, f"unknown exception class {_u(nm)!r}")
                        caught.append(EXC[_u(nm)])
                steps.append(".reimportCollected [" + ", ".join("." + c for c in caught) + "]")
            elif _u(tr) == "sys.modules[k] = importlib.import_module(k)":
                steps.append(".reimportCollected []")
            else:
                raise Untranslatable(ob, f"unsupported re-import body {_u(tr)!r}")
            continue
        raise Untranslatable(ob, f"unsupported statement {_u(s)!r}")
    return steps


# ------------------------------------------------------------------------------------------------
# activate_context
# ------------------------------------------------------------------------------------------------


def _ctx_call(s: ast.stmt, ob: str) -> str:
    if _u(s) == "activate(engine, conn, config)":
        return ".activate"
    if _u(s) == "deactivate()":
        return ".deactivate"
    raise Untranslatable(ob, f"unsupported statement {_u(s)!r}")


def _translate_ctx(fn: ast.FunctionDef) -> t.Dict[str, t.Any]:
    """sub-language: calls to activate(engine, conn, config) / deactivate() around one `yield`, optionally inside one
    `try` with `except Exception:` / `except BaseException:` / bare `except:` handlers that end in a bare `raise`,
    an `else:` block and a `finally:` block"""
    ob = OB + ".activate_context"
    if not any(_u(d) == "contextmanager" for d in fn.decorator_list):
        raise Untranslatable(ob, "not decorated with @contextmanager")
    pre: t.List[str] = []
    post: t.List[str] = []
    els: t.List[str] = []
    on_exc: t.List[str] = []
    on_base: t.List[str] = []
    fin: t.List[str] = []
    has_exc = False
    has_base = False
    pre_in_try = False
    seen_yield = False
    seen_try = False

    def is_yield(s: ast.stmt) -> bool:
        return isinstance(s, ast.Expr) and isinstance(s.value, ast.Yield) and s.value.value is None

    for s in fn.body:
        if isinstance(s, ast.Expr) and isinstance(s.value, ast.Constant) and isinstance(s.value.value, str):
            continue
        if is_yield(s):
            if seen_yield:
                raise Untranslatable(ob, "two yields")
            seen_yield = True
        elif isinstance(s, ast.Try):
            if seen_yield or seen_try:
                raise Untranslatable(ob, "unsupported try statement (only one try around the yield)")
            if not (s.finalbody or s.handlers):
                raise Untranslatable(ob, "try without handlers or finally")
            seen_try = True
            inner_seen = False
            for x in s.body:
                if is_yield(x):
                    if inner_seen:
                        raise Untranslatable(ob, "two yields")
                    inner_seen = True
                elif not inner_seen:
                    pre.append(_ctx_call(x, ob))
                    pre_in_try = True
                else:
                    post.append(_ctx_call(x, ob))
            if not inner_seen:
                raise Untranslatable(ob, "try without the yield")
            seen_yield = True
            for h in s.handlers:
                if h.name is not None:
                    raise Untranslatable(ob, "handler binds the exception")
                if not (h.body and isinstance(h.body[-1], ast.Raise) and h.body[-1].exc is None):
                    raise Untranslatable(ob, "handler does not end in a bare `raise` (it would swallow the exception)")
                calls = [_ctx_call(x, ob) for x in h.body[:-1]]
                kind = "BaseException" if h.type is None else _u(h.type)
                if kind == "Exception" and not has_exc and not has_base:
                    on_exc, has_exc = calls, True
                elif kind == "BaseException" and not has_base:
                    on_base, has_base = calls, True
                else:
                    raise Untranslatable(ob, f"unsupported handler `except {kind}`")
            els = [_ctx_call(x, ob) for x in s.orelse]
            fin = [_ctx_call(x, ob) for x in s.finalbody]
        elif not seen_yield:
            if pre_in_try:
                raise Untranslatable(ob, "statement order")
            pre.append(_ctx_call(s, ob))
        else:
            if seen_try:
                raise Untranslatable(ob, "statements after the try statement")
            post.append(_ctx_call(s, ob))
    if not seen_yield:
        raise Untranslatable(ob, "no yield")
    return {"pre": pre, "post": post, "els": els, "onExc": on_exc, "hasExc": has_exc, "onBase": on_base, "fin": fin, "preInTry": pre_in_try}


# ------------------------------------------------------------------------------------------------
# engine packages
# ------------------------------------------------------------------------------------------------


def _engine_exports(repo: str, engine: str) -> t.Tuple[t.List[t.Tuple[str, str, bool]], t.List[str]]:
    ob = f"{OB}.exports[{engine}]"
    rel = f"sqlframe/{engine}/__init__.py"
    try:
        mod = parse(repo, rel)
    except FileNotFoundError:
        raise Untranslatable(ob, f"{rel} missing")
    names: t.List[t.Tuple[str, str, bool]] = []
    class_cache: t.Dict[str, t.Set[str]] = {}
    pkg_dir = os.path.join(repo, "sqlframe", engine)
    files = sorted(f[:-3] for f in os.listdir(pkg_dir) if f.endswith(".py") and f != "__init__.py")
    for n in mod.body:
        if isinstance(n, ast.ImportFrom):
            pfx = f"sqlframe.{engine}."
            if n.level != 0 or not (n.module or "").startswith(pfx) or "." in (n.module or "")[len(pfx):]:
                raise Untranslatable(ob, f"unsupported import {_u(n)!r}")
            f = n.module[len(pfx):]
            if f not in files:
                raise Untranslatable(ob, f"{n.module} has no source file")
            if f not in class_cache:
                class_cache[f] = {c.name for c in parse(repo, f"sqlframe/{engine}/{f}.py").body if isinstance(c, ast.ClassDef)}
            for a in n.names:
                if a.name == "*":
                    raise Untranslatable(ob, "star import in the engine package")
                names.append((a.asname or a.name, f, (a.name in class_cache[f])))
        elif isinstance(n, ast.Assign) and _u(n.targets[0]) == "__all__":
            continue
        elif isinstance(n, ast.Expr) and isinstance(n.value, ast.Constant):
            continue
        elif isinstance(n, ast.Import) and all(a.name in ("typing",) for a in n.names):
            continue
        else:
            raise Untranslatable(ob, f"unsupported statement {_u(n)[:60]!r}")
    if len({a for a, _, _ in names}) != len(names):
        raise Untranslatable(ob, "a name is bound twice")
    return names, files


def extract(repo: str) -> t.Dict[str, t.Any]:
    """everything the generator reads, as Python data (also used by the check to exercise the tables)"""
    mod = parse(repo, "sqlframe/__init__.py")
    prefixes = _dict_literal(mod, "ENGINE_TO_PREFIX")
    overrides = _dict_literal(mod, "NAME_TO_FILE_OVERRIDE")
    act = _translate_activate(find_func(mod.body, "activate"))
    deact = _translate_deactivate(find_func(mod.body, "deactivate"))
    ctx = _translate_ctx(find_func(mod.body, "activate_context"))
    cfg_init = None
    for n in mod.body:
        if isinstance(n, ast.Assign) and _u(n.targets[0]) == "ACTIVATE_CONFIG":
            cfg_init = _u(n.value)
    if cfg_init != "{}":
        raise Untranslatable(OB, f"ACTIVATE_CONFIG is initialised to {cfg_init!r}")
    engines = {}
    for e, _ in prefixes:
        names, files = _engine_exports(repo, e)
        engines[e] = {"exports": names, "files": files}
    return {"prefixes": prefixes, "overrides": overrides, "activate": act, "deactivate": deact, "ctx": ctx, "engines": engines}


def _b(x: bool) -> str:
    return "true" if x else "false"


def gen_activate(repo: str) -> str:
    d = extract(repo)
    a = d["activate"]
    L: t.List[str] = [HEADER, "", "namespace Sqlframe.Gen.Act", ""]
    L += [
        "/-- exception classes named by `except` clauses / raised by imports -/",
        "inductive Exc | importError | moduleNotFound | attributeError | valueError | exception | baseException | runtimeError",
        "  deriving DecidableEq, Repr, Inhabited",
        "",
        "/-- the test selecting the sys.modules keys `deactivate` collects -/",
        "inductive KeyTest",
        "  | top (s : String)     -- k.startswith(s), s without a dot: the first dotted component starts with s",
        "  | exact (s : String)   -- k == s",
        "  | under (s : String)   -- k.startswith(s + \".\")",
        "  | either (a b : KeyTest)",
        "  deriving DecidableEq, Repr, Inhabited",
        "",
        "inductive DeactStep",
        "  | collect (t : KeyTest)",
        "  | deleteCollected",
        "  | reimportCollected (catches : List Exc)",
        "  | clearConfig",
        "  deriving DecidableEq, Repr, Inhabited",
        "",
        "inductive CtxCall | activate | deactivate",
        "  deriving DecidableEq, Repr, Inhabited",
        "",
        "/-- `activate_context`: calls before the `yield`; after it inside the try / after the statement (normal path);",
        "    in the `else:` block; in the `except Exception:` handler (`hasExc`) and the `except BaseException:` / bare handler",
        "    (each ends in `raise`); in the `finally` block -/",
        "structure CtxIR where",
        "  pre : List CtxCall",
        "  post : List CtxCall",
        "  els : List CtxCall",
        "  onExc : List CtxCall",
        "  hasExc : Bool",
        "  onBase : List CtxCall",
        "  fin : List CtxCall",
        "  preInTry : Bool",
        "  deriving DecidableEq, Repr, Inhabited",
        "",
        "/-- a name bound in `sqlframe/<engine>/__init__.py`: (attribute, source file, defined in that file as a class) -/",
        "structure Export where",
        "  name : String",
        "  file : String",
        "  own : Bool",
        "  deriving DecidableEq, Repr, Inhabited",
        "",
        f"def engineToPrefix : List (String × String) := {_lpairs(d['prefixes'])}",
        f"def nameToFile : List (String × String) := {_lpairs(d['overrides'])}",
        f"def specialNames : List String := {_lstr_list(a['special'])}",
        "def sessionRename : Option (String × String) := " + (f"some ({lean_str(a['rename'][0])}, {lean_str(a['rename'][1])})" if a["rename"] else "none"),
        f"def setsTop : Bool := {_b(a['setsTop'])}",
        f"def setsTesting : Bool := {_b(a['setsTesting'])}",
        f"def mockTesting : Bool := {_b(a['mockTesting'])}",
        f"def setsSql : Bool := {_b(a['setsSql'])}",
        f"def mockSql : Bool := {_b(a['mockSql'])}",
        "def connKey : Option String := " + (f"some {lean_str(a['connKey'])}" if a["connKey"] else "none"),
        f"def storesConfig : Bool := {_b(a['storesConfig'])}",
        f"def preimportFunctions : Bool := {_b(a['preimportFunctions'])}",
        f"def guardResolved : Bool := {_b(a['guardResolved'])}",
        "",
        "def deactSteps : List DeactStep := [" + ", ".join(d["deactivate"]) + "]",
        "",
        "def ctxIR : CtxIR := { pre := [" + ", ".join(d["ctx"]["pre"]) + "], post := [" + ", ".join(d["ctx"]["post"])
        + "], els := [" + ", ".join(d["ctx"]["els"]) + "], onExc := [" + ", ".join(d["ctx"]["onExc"])
        + f"], hasExc := {_b(d['ctx']['hasExc'])}, onBase := [" + ", ".join(d["ctx"]["onBase"])
        + "], fin := [" + ", ".join(d["ctx"]["fin"]) + f"], preInTry := {_b(d['ctx']['preInTry'])} }}",
        "",
        "/-- per engine: names bound by the package's __init__ (in order) -/",
        "def engineExports : List (String × List Export) := [",
    ]
    rows = []
    for e, info in d["engines"].items():
        ex = ", ".join(f"⟨{lean_str(n)}, {lean_str(f)}, {_b(own)}⟩" for n, f, own in info["exports"])
        rows.append(f"  ({lean_str(e)}, [{ex}])")
    L.append(",\n".join(rows))
    L.append("]")
    L.append("")
    L.append("/-- per engine: module files of the package directory -/")
    L.append("def engineFiles : List (String × List String) := [")
    L.append(",\n".join(f"  ({lean_str(e)}, {_lstr_list(info['files'])})" for e, info in d["engines"].items()))
    L.append("]")
    L.append("")
    L.append("end Sqlframe.Gen.Act")
    return "\n".join(L) + "\n"


GENERATORS = {"Activate": gen_activate}
