"""
gen_c20.py — translator part for C20: sqlframe/__init__.py (activate / deactivate / activate_context) and
every sqlframe/<engine>/__init__.py  ->  Gen/Activate.lean  (namespace Sqlframe.Gen.Act).

Extracted (Python `ast`, never importing sqlframe):
  * ENGINE_TO_PREFIX, NAME_TO_FILE_OVERRIDE (dict literals),
  * activate(): the statement sequence is matched against the shape the model interprets; what may vary
    is extracted: whether sys.modules["pyspark"] / ["pyspark.testing"] / ["pyspark.sql"] are assigned, the
    statements that store `conn` / `config` as a small IR (`CfgStmt`: the local `config` is rebound to the
    caller's dict or to a copy, the connection goes into ACTIVATE_CONFIG or into the local dict, the items are
    copied into ACTIVATE_CONFIG), an optional pre-import of the engine's `functions` submodule, the
    special-name list of the loop, the `Session -> SparkSession` rename, whether a module key is guarded by
    `resolved_files`,
  * deactivate(): a step list  collect(key test) / delete / reimport(caught exception classes) / clearConfig,
  * activate_context(): pre / post / finally call lists around the single `yield` (+ whether `activate`
    sits inside the `try`),
  * per engine package: the names bound by `from sqlframe.<engine>.<file> import A, B` in __init__.py (in
    order), whether `<file>.py` defines `class A` itself (engine-specific object) or re-exports a shared
    one, and the module files present in the package directory.
  * (module Gen/ActSession.lean) sqlframe/base/session.py: `_BaseSession.__new__` (the singleton is stored before
    `__init__` runs), the `conn` branch of `_BaseSession.__init__`, `Builder.getOrCreate` / `_set_session_properties`
    (statement order: config first, dialects validated before the session is touched); sqlframe/duckdb/session.py:
    the guard of `DuckDBSession.__init__` and its body as an IR of init steps (default connection, a use of the
    connection that may raise, the base initialiser that makes the instance look initialised, plain attribute
    stores), whether its Builder caches the session; sqlframe/standalone/session.py: no own `__init__`, the
    Builder's `session` ignores the stored keyword arguments.
Anything outside this sub-language raises Untranslatable.
"""
from __future__ import annotations

import ast
import os
import typing as t

from translate import HEADER, Untranslatable, find_func, lean_str, parse

OB = "Gen.Activate"


def _u(node: ast.AST) -> str:
    return ast.unparse(node)


def _dict_literal(mod: ast.Module, name: str) -> t.List[t.Tuple[str, str]]:
    for n in mod.body:
        if isinstance(n, ast.Assign) and len(n.targets) == 1 and isinstance(n.targets[0], ast.Name) and n.targets[0].id == name:
            if not isinstance(n.value, ast.Dict):
                raise Untranslatable(OB, f"{name} is not a dict literal")
            out = []
            for k, v in zip(n.value.keys, n.value.values):
                if not (isinstance(k, ast.Constant) and isinstance(k.value, str) and isinstance(v, ast.Constant) and isinstance(v.value, str)):
                    raise Untranslatable(OB, f"{name}: non-literal entry {_u(k) if k else '**'}: {_u(v)}")
                out.append((k.value, v.value))
            if len({k for k, _ in out}) != len(out):
                raise Untranslatable(OB, f"{name}: duplicate keys")
            return out
    raise Untranslatable(OB, f"{name} not found")


def _lstr_list(xs: t.Iterable[str]) -> str:
    return "[" + ", ".join(lean_str(x) for x in xs) + "]"


def _lpairs(xs: t.Iterable[t.Tuple[str, str]]) -> str:
    return "[" + ", ".join(f"({lean_str(a)}, {lean_str(b)})" for a, b in xs) + "]"


# ------------------------------------------------------------------------------------------------
# activate
# ------------------------------------------------------------------------------------------------


def _check_signature(fn: ast.FunctionDef, ob: str) -> None:
    """(engine=None, conn=None, config=None): a mutable default would be shared between calls"""
    a = fn.args
    names = [x.arg for x in a.args]
    if names != ["engine", "conn", "config"] or a.vararg or a.kwarg or a.kwonlyargs or a.posonlyargs:
        raise Untranslatable(ob, f"unexpected parameters {names}")
    if len(a.defaults) != 3 or not all(isinstance(d, ast.Constant) and d.value is None for d in a.defaults):
        raise Untranslatable(ob, "a parameter default is not None: " + ", ".join(_u(d) for d in a.defaults))


_COPIES = ("dict(config or {})", "{**(config or {})}", "(config or {}).copy()", "dict(config) if config else {}", "config.copy() if config else {}")


def _cfg_stmt(s: ast.stmt, rebound: bool, ob: str) -> t.Tuple[str, t.Any]:
    """one statement of activate()'s conn/config part -> ("rebind", copy?) | ("connToGlobal", key) | ("connToLocal", key) |
    ("itemsToGlobal", None).  `rebound`: an earlier statement has made the local `config` a dict (it may be None before)"""
    text = _u(s)
    if isinstance(s, ast.Assign) and len(s.targets) == 1 and _u(s.targets[0]) == "config":
        v = _u(s.value)
        if v == "config or {}":
            return ("rebind", False)
        if v in _COPIES:
            return ("rebind", True)
        raise Untranslatable(ob, f"unsupported rebinding of the local config: {text!r}")
    if isinstance(s, ast.If) and not s.orelse and len(s.body) == 1 and _u(s.test) in ("conn", "conn is not None"):
        a = s.body[0]
        if isinstance(a, ast.Assign) and len(a.targets) == 1 and isinstance(a.targets[0], ast.Subscript) and _u(a.value) == "conn":
            tgt = a.targets[0]
            if isinstance(tgt.slice, ast.Constant) and isinstance(tgt.slice.value, str):
                if _u(tgt.value) == "ACTIVATE_CONFIG":
                    return ("connToGlobal", tgt.slice.value)
                if _u(tgt.value) == "config":
                    if not rebound:
                        raise Untranslatable(ob, f"`{_u(a)}` while config may still be None")
                    return ("connToLocal", tgt.slice.value)
        raise Untranslatable(ob, f"unsupported `if conn` body {_u(a)!r}")
    if text in ("for key, value in (config or {}).items():\n    ACTIVATE_CONFIG[key] = value", "ACTIVATE_CONFIG.update(config or {})"):
        return ("itemsToGlobal", None)
    if text in ("for key, value in config.items():\n    ACTIVATE_CONFIG[key] = value", "ACTIVATE_CONFIG.update(config)"):
        if not rebound:
            raise Untranslatable(ob, f"`{text}` while config may still be None")
        return ("itemsToGlobal", None)
    raise Untranslatable(ob, f"unsupported statement in the conn/config part: {text!r}")


def _translate_activate(fn: ast.FunctionDef) -> t.Dict[str, t.Any]:
    ob = OB + ".activate"
    out: t.Dict[str, t.Any] = {
        "setsTop": False,
        "setsTesting": False,
        "setsSql": False,
        "mockSql": False,
        "mockTesting": False,
        "connKey": None,
        "storesConfig": False,
        "preimportFunctions": False,
        "special": None,
        "rename": None,
        "guardResolved": False,
    }
    _check_signature(fn, ob)
    body = [s for s in fn.body if not isinstance(s, (ast.Import, ast.ImportFrom))]
    if body and isinstance(body[0], ast.Expr) and isinstance(body[0].value, ast.Constant) and isinstance(body[0].value.value, str):
        body = body[1:]
    i = 0

    def cur() -> t.Optional[ast.stmt]:
        return body[i] if i < len(body) else None

    def take(expected: str, required: bool = True) -> bool:
        nonlocal i
        s = cur()
        if s is not None and _u(s) == expected:
            i += 1
            return True
        if required:
            raise Untranslatable(ob, f"expected `{expected}`, found `{_u(s) if s is not None else '<end>'}`")
        return False

    take("pyspark_mock = MagicMock()")
    take("pyspark_mock.__file__ = 'pyspark'")
    # the four bindings of the mock package (each optional; order free)
    progressed = True
    while progressed:
        progressed = False
        for text, key in (
            ("sys.modules['pyspark'] = pyspark_mock", "setsTop"),
            ("pyspark_mock.testing = testing", "mockTesting"),
            ("sys.modules['pyspark.testing'] = testing", "setsTesting"),
        ):
            if not out[key] and take(text, required=False):
                out[key] = True
                progressed = True
    # the statements that store conn / config (everything up to `if not engine: return`)
    out["cfgStmts"] = []
    rebound = False
    while True:
        s = cur()
        if s is None or _u(s) == "if not engine:\n    return":
            break
        st = _cfg_stmt(s, rebound, ob)
        if st[0] == "rebind":
            rebound = True
        out["cfgStmts"].append(st)
        i += 1
    keys = [st[1] for st in out["cfgStmts"] if st[0] in ("connToGlobal", "connToLocal")]
    if len(set(keys)) > 1:
        raise Untranslatable(ob, f"the connection is stored under several keys {keys}")
    out["connKey"] = keys[0] if keys else None
    out["storesConfig"] = any(st[0] == "itemsToGlobal" for st in out["cfgStmts"])
    take("if not engine:\n    return")
    take("engine = engine.lower()")
    s = cur()
    if not (isinstance(s, ast.If) and _u(s.test) == "engine not in ENGINE_TO_PREFIX" and len(s.body) == 1 and isinstance(s.body[0], ast.Raise) and not s.orelse):
        raise Untranslatable(ob, "expected the `engine not in ENGINE_TO_PREFIX: raise` guard")
    exc = s.body[0].exc
    if not (isinstance(exc, ast.Call) and _u(exc.func) == "ValueError"):
        raise Untranslatable(ob, "the unknown-engine guard no longer raises ValueError")
    i += 1
    take("prefix = ENGINE_TO_PREFIX[engine]")
    take("engine_module = importlib.import_module(f'sqlframe.{engine}')")
    if take("importlib.import_module(f'sqlframe.{engine}.functions')", required=False):
        out["preimportFunctions"] = True
    progressed = True
    while progressed:
        progressed = False
        for text, key in (("sys.modules['pyspark.sql'] = engine_module", "setsSql"), ("pyspark_mock.sql = engine_module", "mockSql")):
            if not out[key] and take(text, required=False):
                out[key] = True
                progressed = True
    if take("importlib.import_module(f'sqlframe.{engine}.functions')", required=False):
        out["preimportFunctions"] = True
    take("types = engine_module.__dict__.copy()")
    take("resolved_files = set()")
    loop = cur()
    if not (isinstance(loop, ast.For) and _u(loop.target) == "(name, obj)" and _u(loop.iter) == "types.items()" and not loop.orelse and len(loop.body) == 1):
        raise Untranslatable(ob, "expected `for name, obj in types.items():` with a single `if`")
    i += 1
    if cur() is not None:
        raise Untranslatable(ob, f"statements after the loop: {_u(cur())!r}")
    iff = loop.body[0]
    if not (isinstance(iff, ast.If) and not iff.orelse):
        raise Untranslatable(ob, "loop body is not a single `if` without else")
    test = iff.test
    if not (isinstance(test, ast.BoolOp) and isinstance(test.op, ast.Or) and len(test.values) == 2 and _u(test.values[0]) == "name.startswith(prefix)"):
        raise Untranslatable(ob, f"unsupported selection test {_u(test)!r}")
    cmpn = test.values[1]
    if not (
        isinstance(cmpn, ast.Compare)
        and _u(cmpn.left) == "name"
        and len(cmpn.ops) == 1
        and isinstance(cmpn.ops[0], ast.In)
        and isinstance(cmpn.comparators[0], (ast.List, ast.Tuple, ast.Set))
        and all(isinstance(e, ast.Constant) and isinstance(e.value, str) for e in cmpn.comparators[0].elts)
    ):
        raise Untranslatable(ob, f"unsupported special-name test {_u(cmpn)!r}")
    out["special"] = [e.value for e in cmpn.comparators[0].elts]
    b = list(iff.body)
    j = 0

    def btake(expected: str, required: bool = True) -> bool:
        nonlocal j
        s2 = b[j] if j < len(b) else None
        if s2 is not None and _u(s2) == expected:
            j += 1
            return True
        if required:
            raise Untranslatable(ob, f"loop: expected `{expected}`, found `{_u(s2) if s2 is not None else '<end>'}`")
        return False

    btake("name_without_prefix = name.replace(prefix, '')")
    s2 = b[j] if j < len(b) else None
    if isinstance(s2, ast.If) and not s2.orelse and len(s2.body) == 1:
        t0, a0 = s2.test, s2.body[0]
        if (
            isinstance(t0, ast.Compare)
            and _u(t0.left) == "name_without_prefix"
            and len(t0.ops) == 1
            and isinstance(t0.ops[0], ast.Eq)
            and isinstance(t0.comparators[0], ast.Constant)
            and isinstance(a0, ast.Assign)
            and _u(a0.targets[0]) == "name_without_prefix"
            and isinstance(a0.value, ast.Constant)
        ):
            out["rename"] = (t0.comparators[0].value, a0.value.value)
            j += 1
    btake("setattr(engine_module, name_without_prefix, obj)")
    btake("file = NAME_TO_FILE_OVERRIDE.get(name_without_prefix, name_without_prefix).lower()")
    btake("engine_file = importlib.import_module(f'sqlframe.{engine}.{file}')")
    if btake("if engine_file not in resolved_files:\n    sys.modules[f'pyspark.sql.{file}'] = engine_file\n    resolved_files.add(engine_file)", required=False):
        out["guardResolved"] = True
    else:
        btake("sys.modules[f'pyspark.sql.{file}'] = engine_file")
    btake("setattr(engine_file, name_without_prefix, obj)")
    if j != len(b):
        raise Untranslatable(ob, f"loop: unexpected statement {_u(b[j])!r}")
    return out


# ------------------------------------------------------------------------------------------------
# deactivate
# ------------------------------------------------------------------------------------------------

EXC = {"ImportError": "importError", "ModuleNotFoundError": "moduleNotFound", "AttributeError": "attributeError", "Exception": "exception", "BaseException": "baseException"}


def _key_test(node: ast.expr, ob: str) -> str:
    """`k.startswith("pyspark")` / `k == "pyspark"` / `k.startswith("pyspark.")` / or-combinations"""
    if isinstance(node, ast.BoolOp) and isinstance(node.op, ast.Or):
        return "(.either " + " ".join(_key_test(v, ob) for v in node.values) + ")" if len(node.values) == 2 else _raise(ob, "or with more than two operands")
    if isinstance(node, ast.Call) and _u(node.func) == "k.startswith" and len(node.args) == 1 and isinstance(node.args[0], ast.Constant) and isinstance(node.args[0].value, str):
        lit = node.args[0].value
        if lit.endswith("."):
            return f"(.under {lean_str(lit[:-1])})"
        if "." in lit:
            raise Untranslatable(ob, f"prefix test on a dotted literal {lit!r}")
        return f"(.top {lean_str(lit)})"
    if isinstance(node, ast.Compare) and _u(node.left) == "k" and len(node.ops) == 1 and isinstance(node.ops[0], ast.Eq) and isinstance(node.comparators[0], ast.Constant):
        return f"(.exact {lean_str(node.comparators[0].value)})"
    raise Untranslatable(ob, f"unsupported key test {_u(node)!r}")


def _raise(ob: str, why: str) -> str:
    raise Untranslatable(ob, why)


def _translate_deactivate(fn: ast.FunctionDef) -> t.List[str]:
    ob = OB + ".deactivate"
    steps: t.List[str] = []
    for s in fn.body:
        if isinstance(s, ast.Expr) and isinstance(s.value, ast.Constant) and isinstance(s.value.value, str):
            continue
        if isinstance(s, (ast.Import, ast.ImportFrom)):
            continue
        if _u(s) == "ACTIVATE_CONFIG.clear()":
            steps.append(".clearConfig")
            continue
        if isinstance(s, ast.Assign) and _u(s.targets[0]) == "pyspark_imports" and isinstance(s.value, ast.ListComp):
            lc = s.value
            g = lc.generators[0]
            if not (len(lc.generators) == 1 and _u(lc.elt) == "k" and _u(g.target) == "k" and _u(g.iter) == "sys.modules" and len(g.ifs) == 1):
                raise Untranslatable(ob, f"unsupported collection {_u(s)!r}")
            steps.append(f".collect {_key_test(g.ifs[0], ob)}")
            continue
        if isinstance(s, ast.For) and _u(s.iter) == "sys.modules.copy().items()":
            if _u(s) != "for k, v in sys.modules.copy().items():\n    if k in pyspark_imports:\n        del sys.modules[k]":
                raise Untranslatable(ob, f"unsupported delete loop {_u(s)!r}")
            steps.append(".deleteCollected")
            continue
        if isinstance(s, ast.For) and _u(s.iter) == "pyspark_imports":
            if not (_u(s.target) == "k" and len(s.body) == 1 and not s.orelse):
                raise Untranslatable(ob, "unsupported re-import loop")
            tr = s.body[0]
            if isinstance(tr, ast.Try):
                if not (len(tr.body) == 1 and _u(tr.body[0]) == "sys.modules[k] = importlib.import_module(k)" and not tr.orelse and not tr.finalbody):
                    raise Untranslatable(ob, f"unsupported re-import body {_u(tr)!r}")
                caught: t.List[str] = []
                for h in tr.handlers:
                    if not (len(h.body) == 1 and isinstance(h.body[0], (ast.Pass, ast.Continue))):
                        raise Untranslatable(ob, "re-import handler does more than `pass`")
                    if h.type is None:
                        caught.append("baseException")
                        continue
                    names = h.type.elts if isinstance(h.type, ast.Tuple) else [h.type]
                    for nm in names:
                        if _u(nm) not in EXC:
                            raise Untranslatable(ob, f"unknown exception class {_u(nm)!r}")
                        caught.append(EXC[_u(nm)])
                steps.append(".reimportCollected [" + ", ".join("." + c for c in caught) + "]")
            elif _u(tr) == "sys.modules[k] = importlib.import_module(k)":
                steps.append(".reimportCollected []")
            else:
                raise Untranslatable(ob, f"unsupported re-import body {_u(tr)!r}")
            continue
        raise Untranslatable(ob, f"unsupported statement {_u(s)!r}")
    return steps


# ------------------------------------------------------------------------------------------------
# activate_context
# ------------------------------------------------------------------------------------------------


def _ctx_call(s: ast.stmt, ob: str) -> str:
    if _u(s) == "activate(engine, conn, config)":
        return ".activate"
    if _u(s) == "deactivate()":
        return ".deactivate"
    raise Untranslatable(ob, f"unsupported statement {_u(s)!r}")


def _translate_ctx(fn: ast.FunctionDef) -> t.Dict[str, t.Any]:
    """sub-language: calls to activate(engine, conn, config) / deactivate() around one `yield`, optionally inside one
    `try` with `except Exception:` / `except BaseException:` / bare `except:` handlers that end in a bare `raise`,
    an `else:` block and a `finally:` block"""
    ob = OB + ".activate_context"
    if not any(_u(d) == "contextmanager" for d in fn.decorator_list):
        raise Untranslatable(ob, "not decorated with @contextmanager")
    _check_signature(fn, ob)
    pre: t.List[str] = []
    post: t.List[str] = []
    els: t.List[str] = []
    on_exc: t.List[str] = []
    on_base: t.List[str] = []
    fin: t.List[str] = []
    has_exc = False
    has_base = False
    pre_in_try = False
    seen_yield = False
    seen_try = False

    def is_yield(s: ast.stmt) -> bool:
        return isinstance(s, ast.Expr) and isinstance(s.value, ast.Yield) and s.value.value is None

    for s in fn.body:
        if isinstance(s, ast.Expr) and isinstance(s.value, ast.Constant) and isinstance(s.value.value, str):
            continue
        if is_yield(s):
            if seen_yield:
                raise Untranslatable(ob, "two yields")
            seen_yield = True
        elif isinstance(s, ast.Try):
            if seen_yield or seen_try:
                raise Untranslatable(ob, "unsupported try statement (only one try around the yield)")
            if not (s.finalbody or s.handlers):
                raise Untranslatable(ob, "try without handlers or finally")
            seen_try = True
            inner_seen = False
            for x in s.body:
                if is_yield(x):
                    if inner_seen:
                        raise Untranslatable(ob, "two yields")
                    inner_seen = True
                elif not inner_seen:
                    pre.append(_ctx_call(x, ob))
                    pre_in_try = True
                else:
                    post.append(_ctx_call(x, ob))
            if not inner_seen:
                raise Untranslatable(ob, "try without the yield")
            seen_yield = True
            for h in s.handlers:
                if h.name is not None:
                    raise Untranslatable(ob, "handler binds the exception")
                if not (h.body and isinstance(h.body[-1], ast.Raise) and h.body[-1].exc is None):
                    raise Untranslatable(ob, "handler does not end in a bare `raise` (it would swallow the exception)")
                calls = [_ctx_call(x, ob) for x in h.body[:-1]]
                kind = "BaseException" if h.type is None else _u(h.type)
                if kind == "Exception" and not has_exc and not has_base:
                    on_exc, has_exc = calls, True
                elif kind == "BaseException" and not has_base:
                    on_base, has_base = calls, True
                else:
                    raise Untranslatable(ob, f"unsupported handler `except {kind}`")
            els = [_ctx_call(x, ob) for x in s.orelse]
            fin = [_ctx_call(x, ob) for x in s.finalbody]
        elif not seen_yield:
            if pre_in_try:
                raise Untranslatable(ob, "statement order")
            pre.append(_ctx_call(s, ob))
        else:
            if seen_try:
                raise Untranslatable(ob, "statements after the try statement")
            post.append(_ctx_call(s, ob))
    if not seen_yield:
        raise Untranslatable(ob, "no yield")
    return {"pre": pre, "post": post, "els": els, "onExc": on_exc, "hasExc": has_exc, "onBase": on_base, "fin": fin, "preInTry": pre_in_try}


# ------------------------------------------------------------------------------------------------
# engine packages
# ------------------------------------------------------------------------------------------------


def _engine_exports(repo: str, engine: str) -> t.Tuple[t.List[t.Tuple[str, str, bool]], t.List[str]]:
    ob = f"{OB}.exports[{engine}]"
    rel = f"sqlframe/{engine}/__init__.py"
    try:
        mod = parse(repo, rel)
    except FileNotFoundError:
        raise Untranslatable(ob, f"{rel} missing")
    names: t.List[t.Tuple[str, str, bool]] = []
    class_cache: t.Dict[str, t.Set[str]] = {}
    pkg_dir = os.path.join(repo, "sqlframe", engine)
    files = sorted(f[:-3] for f in os.listdir(pkg_dir) if f.endswith(".py") and f != "__init__.py")
    for n in mod.body:
        if isinstance(n, ast.ImportFrom):
            pfx = f"sqlframe.{engine}."
            if n.level != 0 or not (n.module or "").startswith(pfx) or "." in (n.module or "")[len(pfx):]:
                raise Untranslatable(ob, f"unsupported import {_u(n)!r}")
            f = n.module[len(pfx):]
            if f not in files:
                raise Untranslatable(ob, f"{n.module} has no source file")
            if f not in class_cache:
                class_cache[f] = {c.name for c in parse(repo, f"sqlframe/{engine}/{f}.py").body if isinstance(c, ast.ClassDef)}
            for a in n.names:
                if a.name == "*":
                    raise Untranslatable(ob, "star import in the engine package")
                names.append((a.asname or a.name, f, (a.name in class_cache[f])))
        elif isinstance(n, ast.Assign) and _u(n.targets[0]) == "__all__":
            continue
        elif isinstance(n, ast.Expr) and isinstance(n.value, ast.Constant):
            continue
        elif isinstance(n, ast.Import) and all(a.name in ("typing",) for a in n.names):
            continue
        else:
            raise Untranslatable(ob, f"unsupported statement {_u(n)[:60]!r}")
    if len({a for a, _, _ in names}) != len(names):
        raise Untranslatable(ob, "a name is bound twice")
    return names, files


def extract(repo: str) -> t.Dict[str, t.Any]:
    """everything the generator reads, as Python data (also used by the check to exercise the tables)"""
    mod = parse(repo, "sqlframe/__init__.py")
    prefixes = _dict_literal(mod, "ENGINE_TO_PREFIX")
    overrides = _dict_literal(mod, "NAME_TO_FILE_OVERRIDE")
    act = _translate_activate(find_func(mod.body, "activate"))
    deact = _translate_deactivate(find_func(mod.body, "deactivate"))
    ctx = _translate_ctx(find_func(mod.body, "activate_context"))
    cfg_init = None
    for n in mod.body:
        if isinstance(n, ast.Assign) and _u(n.targets[0]) == "ACTIVATE_CONFIG":
            cfg_init = _u(n.value)
    if cfg_init != "{}":
        raise Untranslatable(OB, f"ACTIVATE_CONFIG is initialised to {cfg_init!r}")
    engines = {}
    for e, _ in prefixes:
        names, files = _engine_exports(repo, e)
        engines[e] = {"exports": names, "files": files}
    return {"prefixes": prefixes, "overrides": overrides, "activate": act, "deactivate": deact, "ctx": ctx, "engines": engines}


def _b(x: bool) -> str:
    return "true" if x else "false"


def _cfg_lean(st: t.Tuple[str, t.Any]) -> str:
    if st[0] == "rebind":
        return f".rebind {_b(st[1])}"
    if st[0] == "itemsToGlobal":
        return ".itemsToGlobal"
    return f".{st[0]} {lean_str(st[1])}"


def gen_activate(repo: str) -> str:
    d = extract(repo)
    a = d["activate"]
    L: t.List[str] = [HEADER, "", "namespace Sqlframe.Gen.Act", ""]
    L += [
        "/-- exception classes named by `except` clauses / raised by imports -/",
        "inductive Exc | importError | moduleNotFound | attributeError | valueError | exception | baseException | runtimeError",
        "  deriving DecidableEq, Repr, Inhabited",
        "",
        "/-- the test selecting the sys.modules keys `deactivate` collects -/",
        "inductive KeyTest",
        "  | top (s : String)     -- k.startswith(s), s without a dot: the first dotted component starts with s",
        "  | exact (s : String)   -- k == s",
        "  | under (s : String)   -- k.startswith(s + \".\")",
        "  | either (a b : KeyTest)",
        "  deriving DecidableEq, Repr, Inhabited",
        "",
        "inductive DeactStep",
        "  | collect (t : KeyTest)",
        "  | deleteCollected",
        "  | reimportCollected (catches : List Exc)",
        "  | clearConfig",
        "  deriving DecidableEq, Repr, Inhabited",
        "",
        "/-- activate()'s statements that store `conn` / `config`: `config = config or {}` (copy = false: the local is the",
        "    caller's dict whenever that is non-empty) or a copying form; `if conn: ACTIVATE_CONFIG[k] = conn`;",
        "    `if conn: config[k] = conn`; the items of the local dict copied into ACTIVATE_CONFIG -/",
        "inductive CfgStmt",
        "  | rebind (copy : Bool)",
        "  | connToGlobal (k : String)",
        "  | connToLocal (k : String)",
        "  | itemsToGlobal",
        "  deriving DecidableEq, Repr, Inhabited",
        "",
        "inductive CtxCall | activate | deactivate",
        "  deriving DecidableEq, Repr, Inhabited",
        "",
        "/-- `activate_context`: calls before the `yield`; after it inside the try / after the statement (normal path);",
        "    in the `else:` block; in the `except Exception:` handler (`hasExc`) and the `except BaseException:` / bare handler",
        "    (each ends in `raise`); in the `finally` block -/",
        "structure CtxIR where",
        "  pre : List CtxCall",
        "  post : List CtxCall",
        "  els : List CtxCall",
        "  onExc : List CtxCall",
        "  hasExc : Bool",
        "  onBase : List CtxCall",
        "  fin : List CtxCall",
        "  preInTry : Bool",
        "  deriving DecidableEq, Repr, Inhabited",
        "",
        "/-- a name bound in `sqlframe/<engine>/__init__.py`: (attribute, source file, defined in that file as a class) -/",
        "structure Export where",
        "  name : String",
        "  file : String",
        "  own : Bool",
        "  deriving DecidableEq, Repr, Inhabited",
        "",
        f"def engineToPrefix : List (String × String) := {_lpairs(d['prefixes'])}",
        f"def nameToFile : List (String × String) := {_lpairs(d['overrides'])}",
        f"def specialNames : List String := {_lstr_list(a['special'])}",
        "def sessionRename : Option (String × String) := " + (f"some ({lean_str(a['rename'][0])}, {lean_str(a['rename'][1])})" if a["rename"] else "none"),
        f"def setsTop : Bool := {_b(a['setsTop'])}",
        f"def setsTesting : Bool := {_b(a['setsTesting'])}",
        f"def mockTesting : Bool := {_b(a['mockTesting'])}",
        f"def setsSql : Bool := {_b(a['setsSql'])}",
        f"def mockSql : Bool := {_b(a['mockSql'])}",
        "def connKey : Option String := " + (f"some {lean_str(a['connKey'])}" if a["connKey"] else "none"),
        "def cfgStmts : List CfgStmt := [" + ", ".join(_cfg_lean(st) for st in a["cfgStmts"]) + "]",
        f"def storesConfig : Bool := {_b(a['storesConfig'])}",
        f"def preimportFunctions : Bool := {_b(a['preimportFunctions'])}",
        f"def guardResolved : Bool := {_b(a['guardResolved'])}",
        "",
        "def deactSteps : List DeactStep := [" + ", ".join(d["deactivate"]) + "]",
        "",
        "def ctxIR : CtxIR := { pre := [" + ", ".join(d["ctx"]["pre"]) + "], post := [" + ", ".join(d["ctx"]["post"])
        + "], els := [" + ", ".join(d["ctx"]["els"]) + "], onExc := [" + ", ".join(d["ctx"]["onExc"])
        + f"], hasExc := {_b(d['ctx']['hasExc'])}, onBase := [" + ", ".join(d["ctx"]["onBase"])
        + "], fin := [" + ", ".join(d["ctx"]["fin"]) + f"], preInTry := {_b(d['ctx']['preInTry'])} }}",
        "",
        "/-- per engine: names bound by the package's __init__ (in order) -/",
        "def engineExports : List (String × List Export) := [",
    ]
    rows = []
    for e, info in d["engines"].items():
        ex = ", ".join(f"⟨{lean_str(n)}, {lean_str(f)}, {_b(own)}⟩" for n, f, own in info["exports"])
        rows.append(f"  ({lean_str(e)}, [{ex}])")
    L.append(",\n".join(rows))
    L.append("]")
    L.append("")
    L.append("/-- per engine: module files of the package directory -/")
    L.append("def engineFiles : List (String × List String) := [")
    L.append(",\n".join(f"  ({lean_str(e)}, {_lstr_list(info['files'])})" for e, info in d["engines"].items()))
    L.append("]")
    L.append("")
    L.append("end Sqlframe.Gen.Act")
    return "\n".join(L) + "\n"


# ------------------------------------------------------------------------------------------------
# sessions: _BaseSession / Builder / DuckDBSession / StandaloneSession  ->  Gen/ActSession.lean
# ------------------------------------------------------------------------------------------------

OBS = "Gen.ActSession"


def _class(mod: ast.Module, name: str, ob: str) -> ast.ClassDef:
    for n in mod.body:
        if isinstance(n, ast.ClassDef) and n.name == name:
            return n
    raise Untranslatable(ob, f"class {name} not found")


def _method(cls: ast.ClassDef, name: str, ob: str, required: bool = True) -> t.Optional[ast.FunctionDef]:
    found = [n for n in cls.body if isinstance(n, ast.FunctionDef) and n.name == name]
    if len(found) == 1:
        return found[0]
    if found:
        raise Untranslatable(ob, f"{cls.name}.{name} defined {len(found)} times")
    if required:
        raise Untranslatable(ob, f"{cls.name}.{name} not found")
    return None


def _body(fn: ast.FunctionDef) -> t.List[ast.stmt]:
    """statements without the docstring and without imports"""
    b = [x for x in fn.body if not isinstance(x, (ast.Import, ast.ImportFrom))]
    if b and isinstance(b[0], ast.Expr) and isinstance(b[0].value, ast.Constant) and isinstance(b[0].value.value, str):
        b = b[1:]
    return b


def _str_const(cls: ast.ClassDef, name: str, ob: str) -> str:
    for n in cls.body:
        if isinstance(n, ast.Assign) and len(n.targets) == 1 and _u(n.targets[0]) == name:
            if isinstance(n.value, ast.Constant) and isinstance(n.value.value, str):
                return n.value.value
            raise Untranslatable(ob, f"{cls.name}.{name} is not a string literal")
    raise Untranslatable(ob, f"{cls.name}.{name} not found")


def _has_builder_attr(cls: ast.ClassDef) -> bool:
    return any(isinstance(n, ast.Assign) and _u(n) == "builder = Builder()" for n in cls.body)


def _decorators(fn: ast.FunctionDef) -> t.List[str]:
    return [_u(d) for d in fn.decorator_list]


def _init_steps(body: t.List[ast.stmt], ob: str) -> t.List[str]:
    """the guarded body of DuckDBSession.__init__ as InitStep constructors"""
    steps: t.List[str] = []
    for s in body:
        text = _u(s)
        if text == "conn = conn or duckdb.connect()":
            steps.append(".defaultConn")
        elif text == "super().__init__(conn, *args, **kwargs)":
            steps.append(".superInit false")
        elif text == "super().__init__(conn or duckdb.connect(), *args, **kwargs)":
            steps.append(".superInit true")
        elif isinstance(s, ast.Assign) and len(s.targets) == 1 and isinstance(s.targets[0], ast.Attribute) and _u(s.targets[0].value) == "self" and isinstance(s.value, ast.Constant):
            if s.targets[0].attr in ("_connection", "_conn"):
                raise Untranslatable(ob, f"direct store to the connection attribute: {text!r}")
            steps.append(f".setAttr {lean_str(s.targets[0].attr)}")
        elif isinstance(s, (ast.Try, ast.Expr)):
            # a use of the connection: <conn | self._conn>.<method>(...), optionally inside try/except-pass
            caught: t.List[str] = []
            call = s
            if isinstance(s, ast.Try):
                if s.orelse or s.finalbody or len(s.body) != 1:
                    raise Untranslatable(ob, f"unsupported try statement {text[:60]!r}")
                for h in s.handlers:
                    if not (len(h.body) == 1 and isinstance(h.body[0], ast.Pass)):
                        raise Untranslatable(ob, "an except clause of __init__ does more than `pass`")
                    if h.type is None:
                        caught.append("baseException")
                        continue
                    for nm in h.type.elts if isinstance(h.type, ast.Tuple) else [h.type]:
                        if _u(nm) not in EXC:
                            raise Untranslatable(ob, f"unknown exception class {_u(nm)!r}")
                        caught.append(EXC[_u(nm)])
                call = s.body[0]
            if not (isinstance(call, ast.Expr) and isinstance(call.value, ast.Call) and isinstance(call.value.func, ast.Attribute)):
                raise Untranslatable(ob, f"unsupported statement {text[:60]!r}")
            recv = _u(call.value.func.value)
            if recv not in ("conn", "self._conn"):
                raise Untranslatable(ob, f"unsupported receiver {recv!r} in {text[:60]!r}")
            steps.append(f".useConn {_b(recv == 'self._conn')} [" + ", ".join("." + c for c in caught) + "]")
        else:
            raise Untranslatable(ob, f"unsupported statement {text[:80]!r}")
    return steps


def extract_session(repo: str) -> t.Dict[str, t.Any]:
    out: t.Dict[str, t.Any] = {}
    # ---- base
    ob = OBS + ".base"
    base = _class(parse(repo, "sqlframe/base/session.py"), "_BaseSession", ob)
    if not any(isinstance(n, ast.Assign) and _u(n) == "_instance = None" for n in base.body):
        raise Untranslatable(ob, "`_instance = None` not found")
    new = _method(base, "__new__", ob)
    if [_u(x) for x in _body(new)] != ["if _BaseSession._instance is None:\n    _BaseSession._instance = super().__new__(cls)", "return _BaseSession._instance"]:
        raise Untranslatable(ob, "__new__ no longer has the shape `if _instance is None: _instance = super().__new__(cls); return _instance`")
    init = _method(base, "__init__", ob)
    if [a.arg for a in init.args.args][:2] != ["self", "conn"]:
        raise Untranslatable(ob, "__init__'s first parameter is not conn")
    conn_stmts = [x for x in _body(init) if "_connection" in _u(x)]
    if [_u(x) for x in conn_stmts] != ["if not self._has_connection or conn:\n    self._connection = conn"]:
        raise Untranslatable(ob, "__init__ stores the connection in an unsupported way: " + "; ".join(_u(x)[:60] for x in conn_stmts))
    hc = _method(base, "_has_connection", ob)
    if [_u(x) for x in _body(hc)] != ["return hasattr(self, '_connection') and bool(self._connection)"] or "property" not in _decorators(hc):
        raise Untranslatable(ob, "_has_connection changed")
    cp = _method(base, "_conn", ob)
    if [_u(x) for x in _body(cp)] != ["if self._connection is None:\n    raise ValueError('Connection not set')", "return self._connection"] or "property" not in _decorators(cp):
        raise Untranslatable(ob, "the _conn property changed")
    # ---- builder
    ob = OBS + ".Builder"
    bld = _class(ast.Module(body=base.body, type_ignores=[]), "Builder", ob)
    out["connKey"] = _str_const(bld, "SQLFRAME_CONN_KEY", ob)
    out["dialectKey"] = _str_const(bld, "SQLFRAME_INPUT_DIALECT_KEY", ob)
    out["defaultDialect"] = _str_const(bld, "DEFAULT_INPUT_DIALECT", ob)
    if not _has_builder_attr(base):
        raise Untranslatable(ob, "`builder = Builder()` is no longer a class attribute of _BaseSession")
    goc = _method(bld, "getOrCreate", ob)
    if [_u(x) for x in _body(goc)] != ["for k, v in ACTIVATE_CONFIG.items():\n    self._set_config(k, v)", "self._set_session_properties()", "return self.session"]:
        raise Untranslatable(ob, "getOrCreate changed: " + " | ".join(_u(x)[:50] for x in _body(goc)))
    ssp = [_u(x) for x in _body(_method(bld, "_set_session_properties", ob))]
    want_first = "self.session.input_dialect = Dialect.get_or_raise(self.input_dialect)"
    if not ssp or ssp[0] != want_first:
        raise Untranslatable(ob, "_set_session_properties no longer starts with the input-dialect assignment (dialect validated before the session is created)")
    if ssp[-1] != "if hasattr(self.session, '_connection') and (not self.session._connection):\n    self.session._connection = self._conn":
        raise Untranslatable(ob, "_set_session_properties: the connection fallback changed")
    binit = [_u(x) for x in _body(_method(bld, "__init__", ob))]
    if "self._conn = None" not in binit or "self._session_kwargs = {}" not in binit or "self.input_dialect = self.DEFAULT_INPUT_DIALECT" not in binit:
        raise Untranslatable(ob, "Builder.__init__ changed")
    sc = _method(bld, "_set_config", ob)
    sc_if = [x for x in _body(sc) if isinstance(x, ast.If) and _u(x.test) == "value is not None"]
    if len(sc_if) != 1:
        raise Untranslatable(ob, "_set_config: `if value is not None` not found")
    chain = sc_if[0].body
    pairs = []
    node: t.Any = chain[0] if len(chain) == 1 else None
    while isinstance(node, ast.If):
        pairs.append((_u(node.test), [_u(x) for x in node.body]))
        node = node.orelse[0] if len(node.orelse) == 1 and isinstance(node.orelse[0], ast.If) else None
    d = dict((k, v) for k, v in pairs)
    if d.get("key == self.SQLFRAME_INPUT_DIALECT_KEY") != ["self.input_dialect = value"] or d.get("key == self.SQLFRAME_CONN_KEY") != ["self._session_kwargs['conn'] = value"]:
        raise Untranslatable(ob, "_set_config no longer maps the dialect key to input_dialect and the conn key to _session_kwargs['conn']")
    # ---- duckdb
    ob = OBS + ".duckdb"
    dmod = parse(repo, "sqlframe/duckdb/session.py")
    duck = _class(dmod, "DuckDBSession", ob)
    if _method(duck, "__new__", ob, required=False) is not None:
        raise Untranslatable(ob, "DuckDBSession defines __new__")
    dinit = _method(duck, "__init__", ob)
    a = dinit.args
    if [x.arg for x in a.args] != ["self", "conn"] or not (len(a.defaults) == 1 and isinstance(a.defaults[0], ast.Constant) and a.defaults[0].value is None):
        raise Untranslatable(ob, "__init__ parameters changed")
    db = _body(dinit)
    if not (len(db) == 1 and isinstance(db[0], ast.If) and not db[0].orelse):
        raise Untranslatable(ob, "__init__ is not a single guarded block")
    g = db[0].test
    if not (isinstance(g, ast.UnaryOp) and isinstance(g.op, ast.Not) and isinstance(g.operand, ast.Call) and _u(g.operand.func) == "hasattr" and len(g.operand.args) == 2 and _u(g.operand.args[0]) == "self" and isinstance(g.operand.args[1], ast.Constant)):
        raise Untranslatable(ob, f"unsupported guard {_u(g)!r}")
    out["duckGuard"] = g.operand.args[1].value
    if out["duckGuard"] not in ("_conn", "_connection"):
        raise Untranslatable(ob, f"the guard tests the attribute {out['duckGuard']!r}")
    out["duckInit"] = _init_steps(db[0].body, ob)
    if sum(1 for x in out["duckInit"] if x.startswith(".superInit")) != 1:
        raise Untranslatable(ob, "the base initialiser is not called exactly once")
    dbl = _class(ast.Module(body=duck.body, type_ignores=[]), "Builder", ob)
    sess = _method(dbl, "session", ob)
    if [_u(x) for x in _body(sess)] != ["return DuckDBSession(**self._session_kwargs)"]:
        raise Untranslatable(ob, "Builder.session changed")
    decs = _decorators(sess)
    if decs not in (["cached_property"], ["property"]):
        raise Untranslatable(ob, f"Builder.session decorators {decs}")
    out["duckCaches"] = decs == ["cached_property"]
    if _method(dbl, "_set_session_properties", ob, required=False) is not None or _method(dbl, "_set_config", ob, required=False) is not None:
        raise Untranslatable(ob, "DuckDBSession.Builder overrides _set_config / _set_session_properties")
    dgoc = _method(dbl, "getOrCreate", ob, required=False)
    if dgoc is not None and [_u(x) for x in _body(dgoc)] != ["return super().getOrCreate()"]:
        raise Untranslatable(ob, "DuckDBSession.Builder.getOrCreate changed")
    if not _has_builder_attr(duck):
        raise Untranslatable(ob, "`builder = Builder()` is no longer a class attribute")
    # ---- standalone
    ob = OBS + ".standalone"
    sa = _class(parse(repo, "sqlframe/standalone/session.py"), "StandaloneSession", ob)
    if _method(sa, "__init__", ob, required=False) is not None or _method(sa, "__new__", ob, required=False) is not None:
        raise Untranslatable(ob, "StandaloneSession defines __init__ / __new__")
    sbl = _class(ast.Module(body=sa.body, type_ignores=[]), "Builder", ob)
    ss = _method(sbl, "session", ob)
    if [_u(x) for x in _body(ss)] != ["return StandaloneSession()"] or _decorators(ss) != ["property"]:
        raise Untranslatable(ob, "Builder.session changed")
    sgoc = _method(sbl, "getOrCreate", ob, required=False)
    if sgoc is not None and [_u(x) for x in _body(sgoc)] != ["return super().getOrCreate()"]:
        raise Untranslatable(ob, "StandaloneSession.Builder.getOrCreate changed")
    if _method(sbl, "_set_session_properties", ob, required=False) is not None or _method(sbl, "_set_config", ob, required=False) is not None:
        raise Untranslatable(ob, "StandaloneSession.Builder overrides _set_config / _set_session_properties")
    if not _has_builder_attr(sa):
        raise Untranslatable(ob, "`builder = Builder()` is no longer a class attribute")
    return out


def gen_act_session(repo: str) -> str:
    d = extract_session(repo)
    L = [
        HEADER,
        "import SqlframeModel.Gen.Activate",
        "",
        "namespace Sqlframe.Gen.ActS",
        "open Sqlframe.Gen.Act",
        "",
        "/-- one statement of the guarded body of `DuckDBSession.__init__`: `conn = conn or duckdb.connect()`; a call on the",
        "    connection (`conn.f(…)` or, viaSelf, `self._conn.f(…)`) inside `try … except <caught>: pass`; the base",
        "    initialiser `super().__init__(conn [or duckdb.connect()], …)` — it sets `_connection`, the attribute the",
        "    guard looks at —; a plain `self.<n> = <constant>` -/",
        "inductive InitStep",
        "  | defaultConn",
        "  | useConn (viaSelf : Bool) (caught : List Exc)",
        "  | superInit (defaulted : Bool)",
        "  | setAttr (n : String)",
        "  deriving DecidableEq, Repr, Inhabited",
        "",
        "/-- `_BaseSession.__new__` stores the new object in `_BaseSession._instance` before `__init__` runs (shape checked) -/",
        "def singletonInNew : Bool := true",
        "/-- `_BaseSession.__init__`: `if not self._has_connection or conn: self._connection = conn` (shape checked) -/",
        "def baseInitKeepsConn : Bool := true",
        "/-- `Builder.getOrCreate`: every ACTIVATE_CONFIG item goes through `_set_config` first, then",
        "    `_set_session_properties` validates the dialect before it touches `self.session` (shape checked) -/",
        "def configBeforeSession : Bool := true",
        f"def builderConnKey : String := {lean_str(d['connKey'])}",
        f"def builderDialectKey : String := {lean_str(d['dialectKey'])}",
        f"def defaultInputDialect : String := {lean_str(d['defaultDialect'])}",
        f"def duckInitGuard : String := {lean_str(d['duckGuard'])}",
        "def duckInit : List InitStep := [" + ", ".join(d["duckInit"]) + "]",
        f"def duckBuilderCaches : Bool := {_b(d['duckCaches'])}",
        "",
        "end Sqlframe.Gen.ActS",
    ]
    return "\n".join(L) + "\n"


GENERATORS = {"Activate": gen_activate, "ActSession": gen_act_session}
