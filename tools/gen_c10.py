"""
gen_c10.py — translator part for C10 (column names): -> Gen/Names.lean

Extracted decisions (Python `ast` only)
  functions.col                  does `col('X')` remember the user's spelling (`display_name` meta)?      -> colSetsDisplay
  Column.alias                   does `.alias('X')` remember it?                                          -> aliasSetsDisplay
  DataFrame.*                    which naming sites write the display-name map, and on which frame:
      createDataFrame / select / withColumns / withColumnRenamed / agg                                    -> *RecordsDisplay
      toDF (raw `exp.alias_`, no map entry)                                                               -> toDFRecordsDisplay
      GroupedData.agg (result frame is a plain copy)                                                      -> groupAggRecordsDisplay
      join (`self.copy(...)` + select with skip flag: the right frame's map is dropped)                   -> joinKeepsRightDisplay
      join key lookup by quote-preserving text                                                            -> joinKeyLookupQuotePreserving
  drop / fillna / replace / dropna / dropDuplicates
                                 do they push the outer columns (made by `col(<normalised name>)`) through
                                 the PUBLIC select, which records the normalised name as display name?    -> reselectMethods
  DataFrame.schema               looks the typed column's own (engine-quoted) name up in the map          -> schemaUsesTypedName
  DataFrame.orderBy              renders a column to text and re-parses it `into=exp.Ordered`             -> orderByReparsesText
  _BaseSession._collect          renormalisation of result column names: dialect pair + case_sensitive    -> collectFrom/To/CaseSensitive
  SANITIZE_COLUMN_NAMES per engine, `_sanitize_column_name` replacements                                  -> sanitizeEngines, sanitizeReplacements
"""
from __future__ import annotations

import ast
import os
import re
import typing as t

from translate import HEADER, Untranslatable, find_class, find_func, lean_str, parse

OB = "Gen.Names"


def _src(fn: ast.AST) -> str:
    return ast.unparse(fn)


def _strip_doc(fn: ast.FunctionDef) -> ast.FunctionDef:
    body = list(fn.body)
    if body and isinstance(body[0], ast.Expr) and isinstance(body[0].value, ast.Constant) and isinstance(body[0].value.value, str):
        body = body[1:]
    new = ast.FunctionDef(name=fn.name, args=fn.args, body=body or [ast.Pass()], decorator_list=[], returns=None, type_comment=None)
    return ast.fix_missing_locations(new)


def _col_sets_display(repo: str) -> bool:
    ob = OB + ".colSetsDisplay"
    fn = find_func(parse(repo, "sqlframe/base/functions.py").body, "col")
    src = _src(_strip_doc(fn))
    if "expression.to_column(column_name, dialect=dialect).transform(dialect.normalize_identifier)" not in src:
        raise Untranslatable(ob, "col() no longer normalises `to_column(column_name)`")
    if "'display_name': case_sensitive_expression.this.this" in src and "col_expression._meta = {" in src:
        return True
    if "display_name" not in src:
        return False
    raise Untranslatable(ob, "unrecognised use of display_name in col()")


def _alias_sets_display(repo: str) -> bool:
    ob = OB + ".aliasSetsDisplay"
    fn = find_func(find_class(parse(repo, "sqlframe/base/column.py"), "Column").body, "alias")
    src = _src(_strip_doc(fn))
    if "normalize_identifiers(exp.parse_identifier(name, dialect=dialect), dialect=dialect)" not in src:
        raise Untranslatable(ob, "alias() no longer normalises `parse_identifier(name)`")
    if "new_expression._meta = {'display_name': name, **(new_expression._meta or {})}" in src:
        return True
    if "display_name" not in src:
        return False
    raise Untranslatable(ob, "unrecognised use of display_name in alias()")


def _method(cls: ast.ClassDef, name: str) -> ast.FunctionDef:
    return _strip_doc(find_func(cls.body, name))


def _records(src: str, patterns: t.Sequence[str], ob: str) -> bool:
    """True iff one of the recording patterns occurs; False iff `_update_display_name_mapping` is absent; else unknown"""
    if any(p in src for p in patterns):
        return True
    if "_update_display_name_mapping" not in src and "display_name_mapping" not in src:
        return False
    raise Untranslatable(ob, "unrecognised display-name bookkeeping")


def _reselects(fn: ast.FunctionDef, ob: str) -> bool:
    """does the method hand `_get_outer_select_columns(...)` columns to the public `select` (which records display names)?"""
    src = _src(fn)
    if "_get_outer_select_columns(" not in src:
        raise Untranslatable(ob, "no longer built on _get_outer_select_columns")
    public = False
    wrapped = False
    for n in ast.walk(fn):
        if isinstance(n, ast.Call) and isinstance(n.func, ast.Attribute):
            if n.func.attr == "select" and not (isinstance(n.func.value, ast.Attribute) and n.func.value.attr == "expression") and not (isinstance(n.func.value, ast.Name) and n.func.value.id in ("exp", "expression")):
                if any(k.arg == "skip_update_display_name_mapping" for k in n.keywords):
                    wrapped = True
                else:
                    public = True
            if n.func.attr == "__wrapped__" and isinstance(n.func.value, ast.Attribute) and n.func.value.attr == "select":
                if any(k.arg == "skip_update_display_name_mapping" for k in n.keywords):
                    wrapped = True
                else:
                    raise Untranslatable(ob, "select.__wrapped__ without the skip flag")
    if public:
        return True
    if wrapped:
        return False
    raise Untranslatable(ob, "no select call found")


def _collect_pair(repo: str) -> t.Tuple[str, str, bool, bool]:
    ob = OB + ".collect"
    sess = find_class(parse(repo, "sqlframe/base/session.py"), "_BaseSession")
    src = _src(find_func(sess.body, "_collect"))
    m = re.search(r"normalize_string\(x, from_dialect='(\w+)', to_dialect='(\w+)', to_string_literal=True\)", src)
    if not m:
        raise Untranslatable(ob, "result-column renormalisation not found")
    if "col_id = exp.parse_identifier(col[0], dialect=self.execution_dialect)" in src:
        parses = True  # the engine's result name is read as SQL text
    elif "col_id = exp.to_identifier(col[0], quoted=True)" in src:
        parses = False
    else:
        raise Untranslatable(ob, "unrecognised construction of the result column identifier")
    cs = "col_id._meta = {'case_sensitive': True, **(col_id._meta or {})}" in src
    if not cs and "'case_sensitive'" in src:
        raise Untranslatable(ob, "unrecognised case_sensitive handling")
    return m.group(1), m.group(2), cs, parses


def _sanitize(repo: str) -> t.Tuple[t.List[t.Tuple[str, bool]], t.List[t.Tuple[str, str]]]:
    ob = OB + ".sanitize"
    sess = find_class(parse(repo, "sqlframe/base/session.py"), "_BaseSession")
    base = None
    for n in sess.body:
        if isinstance(n, ast.Assign) and ast.unparse(n.targets[0]) == "SANITIZE_COLUMN_NAMES" and isinstance(n.value, ast.Constant):
            base = bool(n.value.value)
    if base is None:
        raise Untranslatable(ob, "SANITIZE_COLUMN_NAMES default not found")
    fn = find_func(sess.body, "_sanitize_column_name")
    src = _src(fn)
    reps = re.findall(r"\.replace\('(.)', '(.)'\)", src)
    if not reps or "if self.SANITIZE_COLUMN_NAMES:" not in src:
        raise Untranslatable(ob, "unrecognised _sanitize_column_name")
    engines = [("base", base)]
    root = os.path.join(repo, "sqlframe")
    for eng in sorted(os.listdir(root)):
        p = os.path.join(root, eng, "session.py")
        if eng == "base" or not os.path.exists(p):
            continue
        val = base
        mod = parse(repo, f"sqlframe/{eng}/session.py")
        for cls in [n for n in mod.body if isinstance(n, ast.ClassDef)]:
            for n in cls.body:
                if isinstance(n, ast.Assign) and ast.unparse(n.targets[0]) == "SANITIZE_COLUMN_NAMES":
                    if not isinstance(n.value, ast.Constant):
                        raise Untranslatable(ob, f"{eng}: non-literal SANITIZE_COLUMN_NAMES")
                    val = bool(n.value.value)
        engines.append((eng, val))
    return engines, reps


def gen_names(repo: str) -> str:
    col_disp = _col_sets_display(repo)
    alias_disp = _alias_sets_display(repo)
    dmod = parse(repo, "sqlframe/base/dataframe.py")
    df = find_class(dmod, "BaseDataFrame")
    sess = find_class(parse(repo, "sqlframe/base/session.py"), "_BaseSession")

    cdf = _src(_strip_doc(find_func(sess.body, "createDataFrame")))
    create_rec = _records(cdf, ["df._update_display_name_mapping(df._ensure_and_normalize_cols(list(column_mapping.keys())), list(column_mapping.keys()))"], OB + ".createRecordsDisplay")

    sel = _src(_method(df, "select"))
    if "_update_display_name_mapping(unexpanded_columns, user_cols)" in sel and "if 'skip_update_display_name_mapping' not in kwargs:" in sel:
        # on which frame?  (recording on the receiver is C04's business; both spell the result the same way)
        select_rec = True
    elif "_update_display_name_mapping" not in sel:
        select_rec = False
    else:
        raise Untranslatable(OB + ".selectRecordsDisplay", "unrecognised display-name bookkeeping in select")

    wcs = _src(_method(df, "withColumns"))
    with_rec = _records(wcs, ["._update_display_name_mapping([col for col in col_map], [name for _, name in col_map.values()])"], OB + ".withColumnsRecordsDisplay")
    if "col_value.alias(display_name)" not in wcs:
        raise Untranslatable(OB + ".withColumnsRecordsDisplay", "new columns are no longer aliased with the user's spelling")
    if _src(_method(df, "withColumn")).count("self.withColumns.__wrapped__(self, {colName: col})") != 1:
        raise Untranslatable(OB + ".withColumnsRecordsDisplay", "withColumn is no longer withColumns of one entry")

    wcr = _src(_method(df, "withColumnRenamed"))
    rename_rec = _records(wcr, ["._update_display_name_mapping([column], [new])"], OB + ".renameRecordsDisplay")
    if "existing = self.session._normalize_string(existing)" not in wcr or "column = column.alias(new)" not in wcr:
        raise Untranslatable(OB + ".renameRecordsDisplay", "withColumnRenamed left the modelled shape")

    agg = _src(_method(df, "agg"))
    agg_rec = _records(agg, ["._update_display_name_mapping(cols, exprs)"], OB + ".aggRecordsDisplay")

    todf = _src(_method(df, "toDF"))
    if "exp.alias_(col, new_col) for col, new_col in zip(expression.expressions, cols)" in todf and "display_name" not in todf:
        todf_rec = False
    elif "_update_display_name_mapping" in todf or "self.select(" in todf or ".alias(new_col)" in todf:
        if not ("_update_display_name_mapping(" in todf or re.search(r"self\.select\(\*\[.*\.alias\(new_col\)", todf)):
            raise Untranslatable(OB + ".toDFRecordsDisplay", "unrecognised toDF")
        todf_rec = True
    else:
        raise Untranslatable(OB + ".toDFRecordsDisplay", "unrecognised toDF")

    gmod = parse(repo, "sqlframe/base/group.py")
    gagg = _src(_strip_doc(find_func(find_class(gmod, "_BaseGroupedData").body, "agg")))
    if "return self._df.copy(expression=expression)" in gagg and "display_name" not in gagg:
        group_rec = False
    elif "_update_display_name_mapping(" in gagg:
        group_rec = True
    else:
        raise Untranslatable(OB + ".groupAggRecordsDisplay", "unrecognised GroupedData.agg tail")

    join = _src(_method(df, "join"))
    if "new_df = self.copy(expression=join_expression)" not in join or "skip_update_display_name_mapping=True" not in join:
        raise Untranslatable(OB + ".joinKeepsRightDisplay", "join left the modelled shape")
    join_wo_flag = join.replace("skip_update_display_name_mapping", "")
    if "display_name_mapping" not in join_wo_flag:
        join_right = False
    elif "other_df.display_name_mapping" in join or "other.display_name_mapping" in join:
        join_right = True
    else:
        raise Untranslatable(OB + ".joinKeepsRightDisplay", "unrecognised display-name bookkeeping in join")

    ubn = _src(_method(df, "unionByName"))
    if "l_columns = self._columns" not in ubn or "r_columns = other._columns" not in ubn:
        raise Untranslatable(OB + ".unionByName", "unionByName no longer matches the two sides by their normalised names (`_columns`)")
    if "if l_column in r_columns:" not in ubn or "r_columns_unused.remove(l_column)" not in ubn:
        raise Untranslatable(OB + ".unionByName", "unionByName(allowMissingColumns=True) left the modelled shape")
    if "l_df = l_df._convert_leaf_to_cte().select(*self._ensure_list_of_columns(l_expressions))" in ubn and "other.copy()._convert_leaf_to_cte().select(*self._ensure_list_of_columns(r_expressions))" in ubn:
        union_resel = True  # both sides re-selected by normalised names through the public select
    else:
        raise Untranslatable(OB + ".unionByNameReselects", "unrecognised re-selection in unionByName")

    jk = _src(_method(df, "_handle_join_column_names_only"))
    if "if join_column.alias_or_name in cte.this.named_selects:" in jk:
        join_key_qp = True  # the quote-preserving text ("`a b`") is looked up among unquoted names
    elif "if join_column.expression.alias_or_name in cte.this.named_selects:" in jk or "if join_column.column_expression.alias_or_name in cte.this.named_selects:" in jk:
        join_key_qp = False
    else:
        raise Untranslatable(OB + ".joinKeyLookupQuotePreserving", "unrecognised join-key lookup")

    resel = []
    outer = _src(_method(df, "_get_outer_select_columns"))
    if "[col(quote_preserving_alias_or_name(x)) for x in outer_select.expressions]" not in outer:
        raise Untranslatable(OB + ".reselectMethods", "_get_outer_select_columns left the modelled shape")
    if "display_name" not in outer:
        outer_carry = True  # col(<normalised name>) sets display_name := the normalised name
    elif ".meta.pop('display_name', None)" in outer:
        outer_carry = False
    else:
        raise Untranslatable(OB + ".reselectMethods", "unrecognised display_name handling in _get_outer_select_columns")
    for m in ["drop", "fillna", "replace", "dropna"]:
        if _reselects(_method(df, m), OB + ".reselectMethods." + m) and outer_carry and col_disp:
            resel.append(m)
    dd = _src(_method(df, "dropDuplicates"))
    if ".drop('row_num')" not in dd:
        raise Untranslatable(OB + ".reselectMethods.dropDuplicates", "dropDuplicates(subset) no longer ends in drop('row_num')")
    if "drop" in resel:
        resel.append("dropDuplicates")

    schema = _src(_method(df, "schema"))
    if "self.display_name_mapping.get(c.name, c.name)" in schema and "for c in self._typed_columns" in schema:
        schema_typed = True
    elif "display_name_mapping" in schema:
        raise Untranslatable(OB + ".schemaUsesTypedName", "unrecognised name lookup in schema")
    else:
        schema_typed = False

    sdn = _src(_method(df, "_set_display_names"))
    if "order" not in sdn:
        order_respell = "none"
    elif "key = ordered.this if isinstance(ordered, exp.Ordered) else ordered" in sdn and "if isinstance(key, exp.Column) and (not key.table) and (key.name in renamed):" in sdn and "key.set('this', renamed[key.name].copy())" in sdn:
        order_respell = "bare"  # only an ORDER BY key that IS a column is spelled like the display alias
    elif re.search(r"for key in \w+\.find_all\(exp\.Column\):", sdn) and "key.set('this', renamed[key.name].copy())" in sdn:
        order_respell = "all"  # every column inside an ORDER BY key
    else:
        raise Untranslatable(OB + ".orderByRespell", "unrecognised ORDER BY handling in _set_display_names")

    ob = _src(_method(df, "orderBy"))
    # the key text is rendered from the column (with or without its automatic alias) and re-parsed
    if re.search(r"sqlglot\.parse_one\(f'\{col\.(column_)?expression\.sql\(dialect=self\.session\.input_dialect\)\} ", ob) and "into=exp.Ordered)" in ob:
        order_reparse = True
    elif "parse_one" not in ob:
        order_reparse = False
    else:
        raise Untranslatable(OB + ".orderByReparsesText", "unrecognised orderBy")

    cfrom, cto, ccs, cparses = _collect_pair(repo)
    engines, reps = _sanitize(repo)

    def b(x: bool) -> str:
        return "true" if x else "false"

    L = [HEADER, "", "namespace Sqlframe.Gen", ""]
    L.append("/-- `col('X')` keeps the user's spelling as `display_name` meta -/")
    L.append(f"def colSetsDisplay : Bool := {b(col_disp)}")
    L.append("/-- `.alias('X')` keeps the user's spelling as `display_name` meta -/")
    L.append(f"def aliasSetsDisplay : Bool := {b(alias_disp)}")
    L.append("/-- naming sites that write the display-name map of the frame they return -/")
    L.append(f"def createRecordsDisplay : Bool := {b(create_rec)}")
    L.append(f"def selectRecordsDisplay : Bool := {b(select_rec)}")
    L.append(f"def withColumnsRecordsDisplay : Bool := {b(with_rec)}")
    L.append(f"def renameRecordsDisplay : Bool := {b(rename_rec)}")
    L.append(f"def aggRecordsDisplay : Bool := {b(agg_rec)}")
    L.append(f"def toDFRecordsDisplay : Bool := {b(todf_rec)}")
    L.append(f"def groupAggRecordsDisplay : Bool := {b(group_rec)}")
    L.append(f"def joinKeepsRightDisplay : Bool := {b(join_right)}")
    L.append("/-- a using-join looks its key up among the left frame's names by the key's quote-preserving text -/")
    L.append(f"def joinKeyLookupQuotePreserving : Bool := {b(join_key_qp)}")
    L.append("/-- methods that push `col(<normalised name>)` columns through the public `select` -/")
    L.append("def reselectMethods : List String := [" + ", ".join(lean_str(m) for m in resel) + "]")
    L.append("/-- unionByName(allowMissingColumns=True) re-selects both sides by normalised names (display names lost) -/")
    L.append(f"def unionByNameReselects : Bool := {b(union_resel)}")
    L.append(f"def schemaUsesTypedName : Bool := {b(schema_typed)}")
    L.append(f"def orderByReparsesText : Bool := {b(order_reparse)}")
    L.append("/-- which columns of an ORDER BY key `_set_display_names` spells like the display alias of the same block -/")
    L.append("inductive OrderRespell | none | bare | all deriving DecidableEq, Repr")
    L.append(f"def orderByRespell : OrderRespell := .{order_respell}")
    L.append(f"def collectFrom : String := {lean_str(cfrom)}")
    L.append(f"def collectTo : String := {lean_str(cto)}")
    L.append(f"def collectCaseSensitive : Bool := {b(ccs)}")
    L.append("/-- `_collect` reads each engine result-column name as SQL text (`parse_identifier`) -/")
    L.append(f"def collectParsesNames : Bool := {b(cparses)}")
    L.append("def sanitizeEngines : List (String × Bool) := [" + ", ".join(f"({lean_str(e)}, {b(v)})" for e, v in engines) + "]")
    L.append("def sanitizeReplacements : List (String × String) := [" + ", ".join(f"({lean_str(a)}, {lean_str(c)})" for a, c in reps) + "]")
    L.append("")
    L.append("end Sqlframe.Gen")
    return "\n".join(L) + "\n"


GENERATORS = {"Names": gen_names}
