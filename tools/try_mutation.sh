#!/bin/sh
# usage: try_mutation.sh <worktree> <patch-file|-> <Cxx> [Cyy...]   (patch read from file; applies, runs, reverts)
WT=$1; PATCH=$2; shift 2
git -C "$WT" checkout -q -- . && git -C "$WT" apply "$PATCH" || { echo "patch failed"; exit 3; }
for P in "$@"; do
  VERIF_REPO=$WT /verif/check "$P" 2>/dev/null | tail -4
done
git -C "$WT" checkout -q -- .
# restore Gen for the real repo
cd /verif/lean && /venv/bin/python ../tools/translate.py >/dev/null 2>&1
