"""
gen_c17.py — translator part of C17 (functions compute Spark's values): the decisions inside sqlframe's OWN
emulations, read with Python `ast` from sqlframe/base/function_alternatives.py, base/functions.py and
base/column.py (never imports sqlframe) -> Gen/Emulations.lean (namespace Sqlframe.Gen.Emul).

What is extracted: the factorial CASE table, the index shifts (getItem +1, element_at / try_element_at -1),
the LIST_SLICE end expression as a linear form, GENERATE_SERIES' default step, the constants of
log1p/expm1/rint, array_position's COALESCE default and argument order, array_min/array_max indices, the
sign flip of date_add/date_sub, the three pieces of overlay_from_substr, the keyword->argument maps of
locate/instr/lpad/rpad/substring, and the dispatch table function x engine -> alternative / inline / unsupported.
Anything outside the recognised shapes raises Untranslatable (the module is removed, theorems stop building).
"""
from __future__ import annotations

import ast
import re
import typing as t

from translate import HEADER, Untranslatable, find_class, find_func, lean_str, parse

FA = "sqlframe/base/function_alternatives.py"
FN = "sqlframe/base/functions.py"
CO = "sqlframe/base/column.py"
ENGINES = ["standalone", "spark", "databricks", "duckdb", "postgres", "bigquery", "snowflake", "redshift"]


def _strip_doc(fn: ast.FunctionDef) -> t.List[ast.stmt]:
    body = list(fn.body)
    if body and isinstance(body[0], ast.Expr) and isinstance(body[0].value, ast.Constant) and isinstance(body[0].value.value, str):
        body = body[1:]
    return body


def _lit_arg(node: ast.expr, ob: str) -> t.Any:
    """lit(K) / lit_func(K) -> K (int or None)"""
    if isinstance(node, ast.Call) and isinstance(node.func, ast.Name) and node.func.id in ("lit", "lit_func") and len(node.args) == 1:
        a = node.args[0]
        if isinstance(a, ast.Constant):
            return a.value
        if isinstance(a, ast.UnaryOp) and isinstance(a.op, ast.USub) and isinstance(a.operand, ast.Constant):
            return -a.operand.value
    raise Untranslatable(ob, f"expected lit(<constant>), found {ast.unparse(node)!r}")


def _int_const(node: ast.expr, ob: str) -> int:
    if isinstance(node, ast.Constant) and isinstance(node.value, int) and not isinstance(node.value, bool):
        return node.value
    if isinstance(node, ast.UnaryOp) and isinstance(node.op, ast.USub) and isinstance(node.operand, ast.Constant) and isinstance(node.operand.value, int):
        return -node.operand.value
    raise Untranslatable(ob, f"expected an int constant, found {ast.unparse(node)!r}")


def linear(node: ast.expr, names: t.Dict[str, str], ob: str) -> t.Dict[str, int]:
    """a +/- expression over named atoms and lit(k)/int constants -> {atom: coeff, 'const': k}"""
    src = ast.unparse(node)
    if src in names:
        return {names[src]: 1}
    if isinstance(node, ast.BinOp) and isinstance(node.op, (ast.Add, ast.Sub)):
        a = linear(node.left, names, ob)
        b = linear(node.right, names, ob)
        sign = 1 if isinstance(node.op, ast.Add) else -1
        out = dict(a)
        for k, v in b.items():
            out[k] = out.get(k, 0) + sign * v
        return out
    if isinstance(node, ast.Call) and isinstance(node.func, ast.Name) and node.func.id in ("lit", "lit_func"):
        v = _lit_arg(node, ob)
        if isinstance(v, int):
            return {"const": v}
    if isinstance(node, ast.Constant) and isinstance(node.value, int):
        return {"const": node.value}
    raise Untranslatable(ob, f"not a linear expression over {sorted(names)}: {src!r}")


def _coeffs(lin: t.Dict[str, int], atoms: t.List[str], ob: str) -> t.List[int]:
    extra = set(lin) - set(atoms) - {"const"}
    if extra:
        raise Untranslatable(ob, f"unexpected atoms {sorted(extra)}")
    return [lin.get(a, 0) for a in atoms] + [lin.get("const", 0)]


def _return_call(fn: ast.FunctionDef, ob: str) -> ast.Call:
    rets = [s for s in _strip_doc(fn) if isinstance(s, ast.Return)]
    if len(rets) != 1 or not isinstance(rets[0].value, ast.Call):
        raise Untranslatable(ob, "expected a single `return <call>`")
    return rets[0].value


def _kwmap(call: ast.Call) -> t.Dict[str, str]:
    return {kw.arg: ast.unparse(kw.value) for kw in call.keywords if kw.arg}


def gen_emulations(repo: str) -> str:
    fa = parse(repo, FA)
    fn = parse(repo, FN)
    co = parse(repo, CO)
    out = [HEADER.rstrip("\n"), "namespace Sqlframe.Gen.Emul", ""]

    # ---- factorial_from_case_statement: when(col == lit(K), lit(V)).when(...)...otherwise(lit(None))
    f = find_func(fa.body, "factorial_from_case_statement")
    node: ast.expr = _return_call(f, "Gen.Emulations.factorial")
    rows: t.List[t.Tuple[int, int]] = []
    otherwise = "missing"
    ob = "Gen.Emulations.factorial"
    while isinstance(node, ast.Call):
        if isinstance(node.func, ast.Attribute) and node.func.attr == "otherwise":
            v = _lit_arg(node.args[0], ob)
            if v is not None:
                raise Untranslatable(ob, "otherwise(...) is not lit(None)")
            otherwise = "null"
            node = node.func.value
        elif (isinstance(node.func, ast.Attribute) and node.func.attr == "when") or (isinstance(node.func, ast.Name) and node.func.id == "when"):
            cond, val = node.args
            if not (isinstance(cond, ast.Compare) and len(cond.ops) == 1 and isinstance(cond.ops[0], ast.Eq) and ast.unparse(cond.left) == "col_func(col)"):
                raise Untranslatable(ob, f"unrecognised condition {ast.unparse(cond)!r}")
            k = _lit_arg(cond.comparators[0], ob)
            v = _lit_arg(val, ob)
            if not isinstance(k, int) or not isinstance(v, int):
                raise Untranslatable(ob, "non-integer row")
            rows.append((k, v))
            node = node.func.value if isinstance(node.func, ast.Attribute) else None  # type: ignore
        else:
            raise Untranslatable(ob, f"unrecognised link {ast.unparse(node)[:60]!r}")
    rows.reverse()
    if otherwise != "null" or not rows:
        raise Untranslatable(ob, "CASE chain without otherwise(lit(None)) or without rows")
    out.append("/-- `factorial_from_case_statement`: the rows `WHEN col = k THEN v` in order; ELSE NULL -/")
    out.append("def factorialTable : List (Nat × Nat) := [" + ", ".join(f"({k}, {v})" for k, v in rows) + "]")
    out.append("")

    # ---- factorial_ensure_int: FACTORIAL(CAST(col AS integer))
    f = find_func(fa.body, "factorial_ensure_int")
    call = _return_call(f, "Gen.Emulations.factorial_ensure_int")
    if ast.unparse(call) != "Column.invoke_anonymous_function(col_func(col).cast('integer'), 'FACTORIAL')":
        raise Untranslatable("Gen.Emulations.factorial_ensure_int", f"shape changed: {ast.unparse(call)!r}")
    out.append("def factorialDuckFunction : String := \"FACTORIAL\"")
    out.append("")

    # ---- Column.getItem: key = key + lit(1) for numeric literals, then element_at(self, key)
    C = find_class(co, "Column")
    f = find_func(C.body, "getItem")
    shift = None
    for st in ast.walk(f):
        if isinstance(st, ast.If) and "is_number" in ast.unparse(st.test):
            for s in st.body:
                if isinstance(s, ast.Assign) and ast.unparse(s.targets[0]) == "key":
                    lin = linear(s.value, {"key": "key"}, "Gen.Emulations.getItem")
                    c = _coeffs(lin, ["key"], "Gen.Emulations.getItem")
                    if c[0] != 1:
                        raise Untranslatable("Gen.Emulations.getItem", "key coefficient is not 1")
                    shift = c[1]
    rets = [s for s in _strip_doc(f) if isinstance(s, ast.Return)]
    if shift is None or len(rets) != 1 or ast.unparse(rets[0].value) != "element_at(self, key)":
        raise Untranslatable("Gen.Emulations.getItem", "shape `key = key + lit(k)` / `return element_at(self, key)` not recognised")
    out.append("/-- `Column.getItem(k)` for a numeric literal k: `element_at(self, k + getItemShift)` -/")
    out.append(f"def getItemShift : Int := {shift}")

    # ---- element_at_using_brackets: value = value - lit(1) (numeric literals) ; Bracket(this=col, expressions=[value])
    f = find_func(fa.body, "element_at_using_brackets")
    shift = None
    for st in _strip_doc(f):
        if isinstance(st, ast.If) and "is_number" in ast.unparse(st.test):
            for s in st.body:
                if isinstance(s, ast.Assign) and ast.unparse(s.targets[0]) == "value":
                    c = _coeffs(linear(s.value, {"value": "value"}, "Gen.Emulations.element_at"), ["value"], "Gen.Emulations.element_at")
                    if c[0] != 1:
                        raise Untranslatable("Gen.Emulations.element_at", "value coefficient is not 1")
                    shift = c[1]
    call = _return_call(f, "Gen.Emulations.element_at")
    if shift is None or "expression.Bracket(this=col_func(col).column_expression, expressions=[value.column_expression])" not in ast.unparse(call):
        raise Untranslatable("Gen.Emulations.element_at", "shape not recognised")
    out.append("/-- `element_at_using_brackets`: the Bracket index is `value + elementAtShift` (sqlglot then adds the dialect's index offset) -/")
    out.append(f"def elementAtShift : Int := {shift}")

    # ---- try_element_at: extraction = extraction - lit(1) under the duckdb branch
    f = find_func(fn.body, "try_element_at")
    shift = None
    engines_shift: t.List[str] = []
    for st in _strip_doc(f):
        if isinstance(st, ast.If) and "_is_" in ast.unparse(st.test):
            engines_shift = [e for e in ENGINES if f"session._is_{e}" in ast.unparse(st.test)]
            for s in ast.walk(st):
                if isinstance(s, ast.Assign) and ast.unparse(s.targets[0]) == "extraction" and isinstance(s.value, ast.BinOp):
                    c = _coeffs(linear(s.value, {"extraction": "x"}, "Gen.Emulations.try_element_at"), ["x"], "Gen.Emulations.try_element_at")
                    shift = c[1]
    if shift is None or "duckdb" not in engines_shift:
        raise Untranslatable("Gen.Emulations.try_element_at", "shift under the duckdb branch not found")
    out.append(f"def tryElementAtShift : Int := {shift}")
    out.append("")

    # ---- slice_as_list_slice: LIST_SLICE(x, start_col, <end>)
    f = find_func(fa.body, "slice_as_list_slice")
    call = _return_call(f, "Gen.Emulations.slice")
    if not (ast.unparse(call.func) == "Column.invoke_anonymous_function" and len(call.args) == 4 and ast.unparse(call.args[0]) == "x" and ast.unparse(call.args[1]) == "'LIST_SLICE'"):
        raise Untranslatable("Gen.Emulations.slice", f"shape changed: {ast.unparse(call)[:100]!r}")
    names = {"start_col": "start", "length_col": "length"}
    b = _coeffs(linear(call.args[2], names, "Gen.Emulations.slice"), ["start", "length"], "Gen.Emulations.slice")
    e = _coeffs(linear(call.args[3], names, "Gen.Emulations.slice"), ["start", "length"], "Gen.Emulations.slice")
    if b != [1, 0, 0] or e[:2] != [1, 1]:
        raise Untranslatable("Gen.Emulations.slice", f"begin/end are not start / start + length + k: {b} {e}")
    out.append("/-- `slice_as_list_slice`: `LIST_SLICE(x, start, start + length + sliceEndOffset)` -/")
    out.append(f"def sliceEndOffset : Int := {e[2]}")

    # ---- sequence_from_generate_series: GENERATE_SERIES(start, stop, step or <default>)
    f = find_func(fa.body, "sequence_from_generate_series")
    src = ast.unparse(f)
    if "this='GENERATE_SERIES'" not in src:
        raise Untranslatable("Gen.Emulations.sequence", "GENERATE_SERIES not found")
    default = None
    order_ok = False
    for n in ast.walk(f):
        if isinstance(n, ast.List) and len(n.elts) == 3:
            a0, a1, a2 = n.elts
            order_ok = ast.unparse(a0) == "col_func(start).column_expression" and ast.unparse(a1) == "col_func(stop).column_expression"
            if isinstance(a2, ast.IfExp) and ast.unparse(a2.test) in ("step", "step is not None") and ast.unparse(a2.body) == "col_func(step).column_expression":
                d = a2.orelse
                if isinstance(d, ast.Call) and ast.unparse(d.func) == "expression.Literal.number" and len(d.args) == 1:
                    default = str(_int_const(d.args[0], "Gen.Emulations.sequence"))
                else:
                    # expression.case().when(expression.LTE(this=<start>, expression=<stop>), Literal.number(k1)).else_(Literal.number(k2))
                    m = re.fullmatch(
                        r"expression\.case\(\)\.when\(expression\.LTE\(this=col_func\(start\)\.column_expression, expression=col_func\(stop\)\.column_expression\), expression\.Literal\.number\((-?\d+)\)\)\.else_\(expression\.Literal\.number\((-?\d+)\)\)",
                        ast.unparse(d),
                    )
                    if m:
                        default = f"if a ≤ b then {m.group(1)} else {m.group(2)}"
    if default is None or not order_ok:
        raise Untranslatable("Gen.Emulations.sequence", "argument list [start, stop, step or <Literal.number(k) | CASE WHEN start <= stop THEN k1 ELSE k2>] not recognised")
    out.append("/-- `sequence_from_generate_series`: the step used when none is given, as a function of (start, stop) -/")
    out.append(f"def sequenceDefaultStep (a b : Int) : Int := {default}")

    # ---- log1p_from_log / expm1_from_exp / rint_from_round
    f = find_func(fa.body, "log1p_from_log")
    call = _return_call(f, "Gen.Emulations.log1p")
    if not (ast.unparse(call.func) == "log" and len(call.args) == 1):
        raise Untranslatable("Gen.Emulations.log1p", "not log(<expr>)")
    inner = call.args[0]
    names1 = {"col": "x", "Column.ensure_col(col)": "x", "col_func(col)": "x"}
    c = _coeffs(linear(inner, names1, "Gen.Emulations.log1p"), ["x"], "Gen.Emulations.log1p")
    if c[0] != 1:
        raise Untranslatable("Gen.Emulations.log1p", "coefficient of col is not 1")
    out.append("/-- `log1p_from_log`: `log(col + log1pAddend)` (one argument: natural logarithm) -/")
    out.append(f"def log1pAddend : Int := {c[1]}")
    f = find_func(fa.body, "expm1_from_exp")
    rets = [s for s in _strip_doc(f) if isinstance(s, ast.Return)]
    c = _coeffs(linear(rets[0].value, {"exp(col)": "e"}, "Gen.Emulations.expm1"), ["e"], "Gen.Emulations.expm1")
    if c[0] != 1:
        raise Untranslatable("Gen.Emulations.expm1", "coefficient of exp(col) is not 1")
    out.append("/-- `expm1_from_exp`: `exp(col) + expm1Addend` -/")
    out.append(f"def expm1Addend : Int := {c[1]}")
    f = find_func(fa.body, "rint_from_round")
    call = _return_call(f, "Gen.Emulations.rint")
    if not (ast.unparse(call.func) == "round" and len(call.args) == 2 and ast.unparse(call.args[0]) == "col"):
        raise Untranslatable("Gen.Emulations.rint", "not round(col, k)")
    shared_scale = _int_const(call.args[1], "Gen.Emulations.rint")
    # which engine function DuckDB gets: its own branch `return Column.invoke_anonymous_function(col, NAME, lit(k))`, or the shared rint_from_round
    f = find_func(fn.body, "rint")
    duck_fn, duck_scale = None, None
    for st in _strip_doc(f):
        if isinstance(st, ast.If) and "_is_duckdb" in ast.unparse(st.test):
            r = [x for x in st.body if isinstance(x, ast.Return)]
            if len(r) != 1 or not isinstance(r[0].value, ast.Call):
                raise Untranslatable("Gen.Emulations.rint", "duckdb branch is not a single return")
            c0 = r[0].value
            if ast.unparse(c0) == "rint_from_round(col)":
                duck_fn, duck_scale = "ROUND", shared_scale
            elif ast.unparse(c0.func) == "Column.invoke_anonymous_function" and len(c0.args) == 3 and ast.unparse(c0.args[0]) == "col" and isinstance(c0.args[1], ast.Constant):
                duck_fn, duck_scale = str(c0.args[1].value).upper(), _lit_arg(c0.args[2], "Gen.Emulations.rint")
            else:
                raise Untranslatable("Gen.Emulations.rint", f"unrecognised duckdb branch {ast.unparse(c0)!r}")
            break
    if duck_fn not in ("ROUND", "ROUND_EVEN") or not isinstance(duck_scale, int):
        raise Untranslatable("Gen.Emulations.rint", f"DuckDB rint is neither ROUND nor ROUND_EVEN: {duck_fn!r}")
    out.append("/-- `rint` on DuckDB: `<rintDuckFunction>(col, rintScale)` (ROUND via rint_from_round, or ROUND_EVEN) -/")
    out.append(f"def rintDuckFunction : String := {lean_str(duck_fn)}")
    out.append(f"def rintScale : Int := {duck_scale}")
    out.append("")

    # ---- array_position (default branch): coalesce(ARRAY_POSITION(col, value_col), lit(0))
    f = find_func(fn.body, "array_position")
    rets = [s for s in _strip_doc(f) if isinstance(s, ast.Return)]
    last = rets[-1].value
    guards = False
    if isinstance(last, ast.Call) and ast.unparse(last.func) == "when" and len(last.args) == 2 and ast.unparse(last.args[0]) == "Column.ensure_col(col).isNotNull()":
        guards = True  # CASE WHEN col IS NOT NULL THEN <…> END: NULL for a NULL array
        last = last.args[1]
    ok = (
        isinstance(last, ast.Call)
        and ast.unparse(last.func) == "coalesce"
        and len(last.args) == 2
        and ast.unparse(last.args[0]) == "Column.invoke_anonymous_function(col, 'ARRAY_POSITION', value_col)"
    )
    if not ok:
        raise Untranslatable("Gen.Emulations.array_position", f"shape changed: {ast.unparse(last)[:120]!r}")
    out.append("/-- `array_position`: `COALESCE(ARRAY_POSITION(col, value), arrayPositionDefault)`, optionally under `WHEN col IS NOT NULL` -/")
    out.append(f"def arrayPositionDefault : Int := {_lit_arg(last.args[1], 'Gen.Emulations.array_position')}")
    out.append(f"def arrayPositionGuardsNull : Bool := {'true' if guards else 'false'}")
    out.append("def arrayPositionArgs : List String := [\"col\", \"value\"]")

    # ---- array_min_from_sort / array_max_from_sort: element_at(array_sort(col), k)
    for nm in ("array_min_from_sort", "array_max_from_sort"):
        f = find_func(fa.body, nm)
        call = _return_call(f, f"Gen.Emulations.{nm}")
        if not (ast.unparse(call.func) == "element_at" and len(call.args) == 2 and ast.unparse(call.args[0]) == "array_sort(col)"):
            raise Untranslatable(f"Gen.Emulations.{nm}", "not element_at(array_sort(col), k)")
        out.append(f"def {'arrayMinIndex' if 'min' in nm else 'arrayMaxIndex'} : Int := {_int_const(call.args[1], 'Gen.Emulations.' + nm)}")
    out.append("")

    # ---- date_add / date_sub: `if days < 0: return <other>(col, days * -1)`; node DateAdd / DateSub
    for nm, other, node_name in (("date_add", "date_sub_func", "DateAdd"), ("date_sub", "date_add_func", "DateSub")):
        f = find_func(fn.body, nm)
        flip = None
        for st in ast.walk(f):
            if isinstance(st, ast.If) and ast.unparse(st.test) == "days < 0":
                r = [s for s in st.body if isinstance(s, ast.Return)]
                if len(r) == 1 and isinstance(r[0].value, ast.Call) and ast.unparse(r[0].value.func) == other and len(r[0].value.args) == 2:
                    a = r[0].value.args[1]
                    if isinstance(a, ast.BinOp) and isinstance(a.op, ast.Mult) and ast.unparse(a.left) == "days":
                        flip = _int_const(a.right, f"Gen.Emulations.{nm}")
        if flip is None or f"expression.{node_name}" not in ast.unparse(f):
            raise Untranslatable(f"Gen.Emulations.{nm}", "negative-days flip or the sqlglot node not recognised")
        out.append(f"/-- `{nm}`: for a negative int `days` the call becomes `{other[:-5]}(col, days * {flip})`; otherwise sqlglot's `{node_name}` -/")
        out.append(f"def {'dateAddFlip' if nm == 'date_add' else 'dateSubFlip'} : Int := {flip}")
    out.append("")

    # ---- overlay_from_substr
    f = find_func(fa.body, "overlay_from_substr")
    src = ast.unparse(f)
    if "length_value = len if len is not None else length_func(replace)" not in src:
        raise Untranslatable("Gen.Emulations.overlay", "default of len is not length(replace)")
    concat = None
    for n in ast.walk(f):
        if isinstance(n, ast.Call) and ast.unparse(n.func) == "expression.Concat":
            for kw in n.keywords:
                if kw.arg == "expressions" and isinstance(kw.value, ast.List) and len(kw.value.elts) == 3:
                    concat = kw.value.elts
    if concat is None:
        raise Untranslatable("Gen.Emulations.overlay", "Concat of three pieces not found")

    def substring_args(node: ast.expr) -> t.List[ast.expr]:
        if isinstance(node, ast.Attribute) and node.attr == "column_expression" and isinstance(node.value, ast.Call) and ast.unparse(node.value.func) == "substring":
            return list(node.value.args)
        raise Untranslatable("Gen.Emulations.overlay", f"piece is not substring(...).column_expression: {ast.unparse(node)[:80]!r}")

    names = {"col_func(pos)": "pos", "col_func(length_value)": "len"}
    a = substring_args(concat[0])
    cpiece = substring_args(concat[2])
    if ast.unparse(concat[1]) != "col_func(replace).column_expression" or ast.unparse(a[0]) != "col_func(src)" or ast.unparse(cpiece[0]) != "col_func(src)":
        raise Untranslatable("Gen.Emulations.overlay", "pieces are not substring(src, …), replace, substring(src, …)")
    head_start = _int_const(a[1], "Gen.Emulations.overlay")
    head_len = _coeffs(linear(a[2], names, "Gen.Emulations.overlay"), ["pos", "len"], "Gen.Emulations.overlay")
    tail_start = _coeffs(linear(cpiece[1], names, "Gen.Emulations.overlay"), ["pos", "len"], "Gen.Emulations.overlay")
    if ast.unparse(cpiece[2]) != "length_func(src)":
        raise Untranslatable("Gen.Emulations.overlay", "tail length is not length(src)")
    out.append("/-- `overlay_from_substr`: CONCAT(SUBSTRING(src, headStart, a·pos + b·len + c), replace, SUBSTRING(src, a'·pos + b'·len + c', LENGTH(src))) -/")
    out.append(f"def overlayHeadStart : Int := {head_start}")
    out.append(f"def overlayHeadLen : Int × Int × Int := ({head_len[0]}, {head_len[1]}, {head_len[2]})")
    out.append(f"def overlayTailStart : Int × Int × Int := ({tail_start[0]}, {tail_start[1]}, {tail_start[2]})")
    out.append("")

    # ---- keyword -> argument maps (argument re-orderings)
    def kw_of(fname: str, node_name: str, which: int = -1) -> t.Dict[str, str]:
        f = find_func(fn.body, fname)
        calls = [n for n in ast.walk(f) if isinstance(n, ast.Call) and node_name in ast.unparse(n)[:200] and (ast.unparse(n.func).endswith("invoke_expression_over_column") or ast.unparse(n.func) == node_name)]
        if not calls:
            raise Untranslatable(f"Gen.Emulations.{fname}", f"no call building {node_name}")
        call = sorted(calls, key=lambda c: len(c.keywords))[which]
        m = _kwmap(call)
        if ast.unparse(call.func).endswith("invoke_expression_over_column"):
            m["this"] = ast.unparse(call.args[0])
        return m

    loc = kw_of("locate", "expression.StrPosition")
    ins = kw_of("instr", "expression.StrPosition")
    f = find_func(fn.body, "locate")
    if "substr_col = lit(substr)" not in ast.unparse(f):
        raise Untranslatable("Gen.Emulations.locate", "substr_col is not lit(substr)")
    norm = {"substr_col": "substr", "lit(substr)": "substr", "str": "str", "col": "col", "pos": "pos"}
    try:
        out.append("/-- `locate(substr, str, pos)` builds StrPosition(this, substr, position) from these parameters -/")
        out.append(f"def locateThis : String := {lean_str(norm[loc['this']])}")
        out.append(f"def locateSubstr : String := {lean_str(norm[loc['substr']])}")
        out.append(f"def locatePosition : String := {lean_str(norm[loc['position']])}")
        out.append("/-- `instr(col, substr)` builds StrPosition(this, substr) -/")
        out.append(f"def instrThis : String := {lean_str(norm[ins['this']])}")
        out.append(f"def instrSubstr : String := {lean_str(norm[ins['substr']])}")
    except KeyError as e:
        raise Untranslatable("Gen.Emulations.locate", f"unrecognised argument {e}")
    for nm in ("lpad", "rpad"):
        m = kw_of(nm, "expression.Pad")
        want = {"this": "Column.ensure_col(col).column_expression", "expression": "lit(len).column_expression", "fill_pattern": "lit(pad).column_expression"}
        pm = {"Column.ensure_col(col).column_expression": "col", "lit(len).column_expression": "len", "lit(pad).column_expression": "pad"}
        try:
            out.append(f"def {nm}This : String := {lean_str(pm[m['this']])}")
            out.append(f"def {nm}Length : String := {lean_str(pm[m['expression']])}")
            out.append(f"def {nm}Fill : String := {lean_str(pm[m['fill_pattern']])}")
            out.append(f"def {nm}IsLeft : Bool := {'true' if m.get('is_left') == 'True' else 'false'}")
        except KeyError as e:
            raise Untranslatable(f"Gen.Emulations.{nm}", f"unrecognised argument {e}")
        del want
    f = find_func(fn.body, "substring")
    if ast.unparse(_return_call(f, "Gen.Emulations.substring")) != "Column.ensure_col(str).substr(pos, len)":
        raise Untranslatable("Gen.Emulations.substring", "not Column.ensure_col(str).substr(pos, len)")
    f = find_func(C.body, "substr")
    m = kw_of_method(f, "exp.Substring")
    if m.get("start") != "startPos.expression" or m.get("length") != "length.expression":
        raise Untranslatable("Gen.Emulations.substring", f"Column.substr builds {m}")
    out.append("/-- `substring(str, pos, len)` = `Column.substr(pos, len)` = Substring(this, start = pos, length = len): no index shift -/")
    out.append("def substringStartShift : Int := 0")
    out.append("")

    # ---- util.soundex: the pure-Python function DuckDBSession registers as SOUNDEX
    out.append(_gen_soundex(repo))
    out.append("")

    # ---- dispatch table: (function, engine) -> alternative | inline | unsupported     (absent = the default body)
    rows_d: t.List[t.Tuple[str, str, str]] = []
    for n in fn.body:
        if not isinstance(n, ast.FunctionDef) or n.name.startswith("_"):
            continue
        unsupported: t.List[str] = []
        has_meta = False
        for d in n.decorator_list:
            if isinstance(d, ast.Call) and ast.unparse(d.func) == "meta":
                has_meta = True
                for kw in d.keywords:
                    if kw.arg == "unsupported_engines":
                        try:
                            v = ast.literal_eval(kw.value)
                        except Exception:
                            raise Untranslatable("Gen.Emulations.dispatch", f"{n.name}: unsupported_engines is not a literal")
                        unsupported = [v] if isinstance(v, str) else list(v)
        if not has_meta:
            continue
        for e in ENGINES:
            if e in unsupported or "*" in unsupported:
                rows_d.append((n.name, e, "unsupported"))
        seen: t.Set[str] = set()
        alternatives: t.Set[str] = set()
        for st in ast.walk(n):
            if isinstance(st, ast.ImportFrom) and st.module == "sqlframe.base.function_alternatives":
                alternatives |= {a.asname or a.name for a in st.names}
        for st in ast.walk(n):
            if isinstance(st, ast.If) and "_is_" in ast.unparse(st.test):
                test = ast.unparse(st.test)
                engs = [e for e in ENGINES if f"_is_{e}" in test]
                if isinstance(st.test, ast.UnaryOp) and isinstance(st.test.op, ast.Not) and re.fullmatch(r"not [\w.()]*_is_\w+", test):
                    engs = [e for e in ENGINES if e not in engs]
                elif re.search(r"not\s+\(?[\w.()]*_is_", test):
                    raise Untranslatable("Gen.Emulations.dispatch", f"{n.name}: negated engine test {test!r}")
                target = "inline"
                r = [s for s in st.body if isinstance(s, ast.Return)]
                if len(r) == 1 and isinstance(r[0].value, ast.Call) and isinstance(r[0].value.func, ast.Name) and r[0].value.func.id in alternatives:
                    target = r[0].value.func.id
                for e in engs:
                    if e in seen or e in unsupported:
                        continue
                    seen.add(e)
                    rows_d.append((n.name, e, target))
    out.append("/-- (function, engine, implementation): the alternative the engine's branch returns, `inline` when the branch")
    out.append("    computes in place, `unsupported` from @func_metadata; a pair that is absent runs the default body -/")
    out.append("def dispatch : List (String × String × String) := [")
    out.append(",\n".join(f"  ({lean_str(a)}, {lean_str(b)}, {lean_str(c)})" for a, b, c in rows_d))
    out.append("]")
    out.append("")
    out.append("end Sqlframe.Gen.Emul")
    return "\n".join(out) + "\n"


def _eval_letter_cond(node: ast.expr, letter: str, ob: str) -> bool:
    """evaluate a boolean expression over the variable `letter` and string constants"""
    if isinstance(node, ast.BoolOp):
        vals = [_eval_letter_cond(v, letter, ob) for v in node.values]
        return all(vals) if isinstance(node.op, ast.And) else any(vals)
    if isinstance(node, ast.UnaryOp) and isinstance(node.op, ast.Not):
        return not _eval_letter_cond(node.operand, letter, ob)
    if isinstance(node, ast.Compare) and len(node.ops) == 1 and isinstance(node.left, ast.Name) and node.left.id == "letter":
        c = node.comparators[0]
        if isinstance(c, ast.Constant) and isinstance(c.value, str):
            op = node.ops[0]
            if isinstance(op, ast.NotEq):
                return letter != c.value
            if isinstance(op, ast.Eq):
                return letter == c.value
            if isinstance(op, ast.NotIn):
                return letter not in c.value
            if isinstance(op, ast.In):
                return letter in c.value
    raise Untranslatable(ob, f"unsupported condition {ast.unparse(node)!r}")


def _gen_soundex(repo: str) -> str:
    ob = "Gen.Emulations.soundex"
    f = find_func(parse(repo, "sqlframe/base/util.py").body, "soundex")
    src = ast.unparse(f)
    for needle in ("if not s:\n        return ''", "s = unicodedata.normalize('NFKD', s)", "s = s.upper()", "result = [s[0]]", "count = 1", "for letter in s[1:]:", "if sub != last:", "result.append(sub)", "count += 1", "last = sub", "return ''.join(result)"):
        if needle not in src:
            raise Untranslatable(ob, f"statement {needle!r} not found")
    table = None
    for st in f.body:
        if isinstance(st, ast.Assign) and ast.unparse(st.targets[0]) == "replacements":
            try:
                table = ast.literal_eval(st.value)
            except Exception:
                raise Untranslatable(ob, "replacements is not a literal")
    if not table or not all(isinstance(r, tuple) and len(r) == 2 and isinstance(r[0], str) and isinstance(r[1], str) and len(r[1]) == 1 for r in table):
        raise Untranslatable(ob, "replacements is not a tuple of (letters, digit) pairs")
    loops = [st for st in f.body if isinstance(st, ast.For) and ast.unparse(st.target) == "letter"]
    if len(loops) != 1:
        raise Untranslatable(ob, "main loop not found")
    loop = loops[0]
    inner = [st for st in loop.body if isinstance(st, ast.For)]
    brk = [st for st in loop.body if isinstance(st, ast.If)]
    if len(inner) != 1 or not inner[0].orelse or len(brk) != 1:
        raise Untranslatable(ob, "loop body is not `for lset, sub …: … else: …` followed by `if count == N: break`")
    els = inner[0].orelse
    if not (len(els) == 1 and isinstance(els[0], ast.If) and not els[0].orelse and len(els[0].body) == 1 and ast.unparse(els[0].body[0]) == "last = None"):
        raise Untranslatable(ob, "else branch is not `if <cond over letter>: last = None`")
    cond = els[0].test
    # the letters for which the condition is FALSE leave `last` alone (transparent); every other uncoded character resets it
    transparent = [chr(c) for c in range(128) if not _eval_letter_cond(cond, chr(c), ob)]
    m = re.fullmatch(r"count == (\d+)", ast.unparse(brk[0].test))
    if not m or ast.unparse(brk[0].body[0]) != "break":
        raise Untranslatable(ob, "`if count == N: break` not found")
    n = int(m.group(1))
    m2 = re.search(r"result \+= '(.)' \* \((\d+) - count\)", src)
    if not m2 or int(m2.group(2)) != n:
        raise Untranslatable(ob, "padding `result += '0' * (N - count)` not found or N differs")
    # first character: `last` is its code
    first = [st for st in f.body if isinstance(st, ast.For) and ast.unparse(st.target) == "(lset, sub)"]
    if len(first) != 1 or "if s[0] in lset:" not in ast.unparse(first[0]) or ast.unparse(first[0].orelse[0]) != "last = None":
        raise Untranslatable(ob, "code of the first character not recognised")
    # DuckDBSession registers it as SOUNDEX
    sess = ast.unparse(parse(repo, "sqlframe/duckdb/session.py"))
    registered = "conn.create_function('SOUNDEX', lambda x: soundex(x)" in sess and "from sqlframe.base.util import soundex" in sess
    out = []
    out.append("/-- `sqlframe.base.util.soundex` (registered by DuckDBSession as SOUNDEX): (code points of the letters, code point of the digit) -/")
    out.append("def soundexTable : List (List Nat × Nat) := [" + ", ".join("([" + ", ".join(str(ord(ch)) for ch in letters) + f"], {ord(d)})" for letters, d in table) + "]")
    out.append("/-- uncoded characters that leave `last` alone (the characters for which the `else` condition is false) -/")
    out.append("def soundexTransparent : List Nat := [" + ", ".join(str(ord(c)) for c in transparent) + "]")
    out.append(f"def soundexLen : Nat := {n}")
    out.append(f"def soundexPad : Nat := {ord(m2.group(1))}")
    out.append(f"def duckSoundexIsUtilSoundex : Bool := {'true' if registered else 'false'}")
    return "\n".join(out)


def kw_of_method(f: ast.FunctionDef, node_name: str) -> t.Dict[str, str]:
    for n in ast.walk(f):
        if isinstance(n, ast.Call) and ast.unparse(n.func).endswith("invoke_expression_over_column") and len(n.args) >= 2 and ast.unparse(n.args[1]) == node_name:
            return _kwmap(n)
    raise Untranslatable("Gen.Emulations.substring", f"no call building {node_name}")


# ================================================================================================
# Gen/EmulCompose.lean — compositions sqlframe builds around engine functions in DEFAULT bodies and in the
# string / CASE emulations: levenshtein's threshold CASE, format_string_with_pipes' splice loop, nanvl_as_case,
# dayofweek's index base, and the copy discipline of Column.when / Column.otherwise (immutability of columns)
# ================================================================================================

CMP_CLASSES = {"LTE", "LT", "GTE", "GT", "EQ", "NEQ"}
MUTATORS = {"extend", "append", "set", "insert", "pop", "remove", "clear", "update", "replace", "sort", "reverse", "__setitem__", "setdefault"}


def _body(fn: ast.FunctionDef) -> t.List[ast.stmt]:
    """statements of a function without docstring and without local imports"""
    return [s for s in _strip_doc(fn) if not isinstance(s, (ast.Import, ast.ImportFrom))]


def _lev_operand(node: ast.expr, ob: str) -> str:
    src = ast.unparse(node)
    if src == "value":
        return "distance"
    if src in ("lit(threshold).column_expression", "lit(threshold).expression"):
        return "threshold"
    raise Untranslatable(ob, f"operand {src!r} is neither the distance nor lit(threshold)")


def _gen_levenshtein(fn: ast.Module) -> t.List[str]:
    ob = "Gen.EmulCompose.levenshtein"
    f = find_func(fn.body, "levenshtein")
    params = [a.arg for a in f.args.args]
    if params != ["left", "right", "threshold"]:
        raise Untranslatable(ob, f"parameters are {params}")
    body = _body(f)
    kinds = [type(s).__name__ for s in body]
    if kinds != ["Assign", "If", "AnnAssign", "If", "Return"]:
        raise Untranslatable(ob, f"statement kinds {kinds}")
    if ast.unparse(body[0]) != "session = _get_session()" or "_is_snowflake" not in ast.unparse(body[1].test) or body[1].orelse:
        raise Untranslatable(ob, "session / snowflake branch not recognised")
    base = body[2]
    want = "expression.Levenshtein(this=Column.ensure_col(left).column_expression, expression=Column.ensure_col(right).column_expression)"
    if ast.unparse(base.target) != "value" or base.value is None or ast.unparse(base.value) != want:
        raise Untranslatable(ob, f"the distance is not {want}")
    cond = body[3]
    if ast.unparse(cond.test) != "threshold is not None" or cond.orelse or len(cond.body) != 1 or not isinstance(cond.body[0], ast.Assign) or ast.unparse(cond.body[0].targets[0]) != "value":
        raise Untranslatable(ob, "`if threshold is not None: value = …` not recognised")
    e = cond.body[0].value
    # expression.case().when(expression.<CMP>(this=A, expression=B), THEN).else_(ELSE)
    if not (isinstance(e, ast.Call) and isinstance(e.func, ast.Attribute) and e.func.attr == "else_" and len(e.args) == 1 and not e.keywords):
        raise Untranslatable(ob, f"not `….else_(x)`: {ast.unparse(e)[:80]!r}")
    w = e.func.value
    if not (isinstance(w, ast.Call) and isinstance(w.func, ast.Attribute) and w.func.attr == "when" and len(w.args) == 2 and not w.keywords and ast.unparse(w.func.value) == "expression.case()"):
        raise Untranslatable(ob, f"not `expression.case().when(cond, then)`: {ast.unparse(w)[:80]!r}")
    c, then = w.args
    if not (isinstance(c, ast.Call) and isinstance(c.func, ast.Attribute) and ast.unparse(c.func.value) == "expression" and c.func.attr in CMP_CLASSES and not c.args and sorted(k.arg or "" for k in c.keywords) == ["expression", "this"]):
        raise Untranslatable(ob, f"condition is not expression.<LTE|LT|GTE|GT|EQ|NEQ>(this=…, expression=…): {ast.unparse(c)[:80]!r}")
    kw = {k.arg: k.value for k in c.keywords}
    els = e.args[0]
    if not (isinstance(els, ast.Attribute) and els.attr in ("column_expression", "expression")):
        raise Untranslatable(ob, f"ELSE is not lit(k).column_expression: {ast.unparse(els)!r}")
    else_v = _lit_arg(els.value, ob)
    if not isinstance(else_v, int) or isinstance(else_v, bool):
        raise Untranslatable(ob, f"ELSE literal {else_v!r} is not an int")
    if ast.unparse(body[4]) != "return Column(value)":
        raise Untranslatable(ob, "does not `return Column(value)`")
    return [
        "/-- `levenshtein(left, right, threshold)` (default body, DuckDB included): with a threshold the distance is wrapped in",
        "    `CASE WHEN <left operand> <cmp> <right operand> THEN <then> ELSE <else> END` -/",
        f"def levThresholdCmp : String := {lean_str(c.func.attr)}",
        f"def levThresholdLeft : String := {lean_str(_lev_operand(kw['this'], ob))}",
        f"def levThresholdRight : String := {lean_str(_lev_operand(kw['expression'], ob))}",
        f"def levThresholdThen : String := {lean_str(_lev_operand(then, ob))}",
        f"def levThresholdElse : Int := {else_v}",
        "",
    ]


def _dpipe_pieces(node: ast.expr, ob: str) -> t.List[str]:
    """expression.DPipe(this=X, expression=Y) -> pieces(X) ++ pieces(Y); leaves: acc / seg / arg"""
    src = ast.unparse(node)
    if src == "result":
        return ["acc"]
    if src in ("lit(value).column_expression", "lit(values[0]).column_expression"):
        return ["seg"]
    if src in ("col_func(cols[i]).column_expression", "col_func(cols[0]).column_expression"):
        return ["arg"]
    if isinstance(node, ast.Call) and ast.unparse(node.func) == "expression.DPipe" and not node.args and sorted(k.arg or "" for k in node.keywords) == ["expression", "this"]:
        kw = {k.arg: k.value for k in node.keywords}
        return _dpipe_pieces(kw["this"], ob) + _dpipe_pieces(kw["expression"], ob)
    raise Untranslatable(ob, f"not a `||` tree over result / lit(value) / col_func(cols[i]): {src[:100]!r}")


def _gen_format_string(fa: ast.Module) -> t.List[str]:
    ob = "Gen.EmulCompose.format_string"
    f = find_func(fa.body, "format_string_with_pipes")
    if [a.arg for a in f.args.args] != ["format"] or f.args.vararg is None or f.args.vararg.arg != "cols":
        raise Untranslatable(ob, "signature is not (format, *cols)")
    body = [s for s in _body(f) if ast.unparse(s) not in ("lit = get_func_from_session('lit')", "col_func = get_func_from_session('col')")]
    kinds = [type(s).__name__ for s in body]
    if kinds != ["Assign", "If", "Assign", "For", "Return"]:
        raise Untranslatable(ob, f"statement kinds {kinds}")
    # values = format.replace(A, B)….split(B)
    a0 = body[0]
    if ast.unparse(a0.targets[0]) != "values" or not (isinstance(a0.value, ast.Call) and isinstance(a0.value.func, ast.Attribute) and a0.value.func.attr == "split" and len(a0.value.args) == 1 and isinstance(a0.value.args[0], ast.Constant)):
        raise Untranslatable(ob, f"not `values = ….split(<const>)`: {ast.unparse(a0)!r}")
    sep = a0.value.args[0].value
    placeholders = [sep]
    node = a0.value.func.value
    while not (isinstance(node, ast.Name) and node.id == "format"):
        if not (isinstance(node, ast.Call) and isinstance(node.func, ast.Attribute) and node.func.attr == "replace" and len(node.args) == 2 and all(isinstance(x, ast.Constant) for x in node.args)):
            raise Untranslatable(ob, f"not a chain of .replace(<const>, <const>) on `format`: {ast.unparse(node)[:80]!r}")
        src_ph, dst_ph = node.args[0].value, node.args[1].value
        if dst_ph not in placeholders:
            raise Untranslatable(ob, f"replace target {dst_ph!r} is not (normalised to) the separator")
        placeholders.append(src_ph)
        node = node.func.value
    letters = []
    for ph in placeholders:
        if not (isinstance(ph, str) and len(ph) == 2 and ph[0] == "%" and ph[1].isalpha()):
            raise Untranslatable(ob, f"placeholder {ph!r} is not '%' + letter")
        letters.append(ph[1])
    # if len(values) != len(cols) + K: raise
    i1 = body[1]
    m = re.fullmatch(r"len\(values\) != len\(cols\) \+ (\d+)", ast.unparse(i1.test))
    if not m or i1.orelse or len(i1.body) != 1 or not isinstance(i1.body[0], ast.Raise):
        raise Untranslatable(ob, f"arity test not recognised: {ast.unparse(i1.test)!r}")
    arity = int(m.group(1))
    # result = DPipe(lit(values[0]), col_func(cols[0]))
    a2 = body[2]
    if ast.unparse(a2.targets[0]) != "result":
        raise Untranslatable(ob, "initial `result = …` not found")
    init = _dpipe_pieces(a2.value, ob)
    if "acc" in init:
        raise Untranslatable(ob, "initial result refers to itself")
    loop = body[3]
    if ast.unparse(loop.target) != "(i, value)" or ast.unparse(loop.iter) != "enumerate(values[1:], start=1)" or loop.orelse:
        raise Untranslatable(ob, f"loop header {ast.unparse(loop.target)} in {ast.unparse(loop.iter)}")
    if len(loop.body) != 1 or not isinstance(loop.body[0], ast.If) or ast.unparse(loop.body[0].test) != "i == len(cols)":
        raise Untranslatable(ob, "loop body is not the single statement `if i == len(cols): … else: …`")
    br = loop.body[0]

    def branch(stmts: t.List[ast.stmt]) -> t.List[str]:
        if len(stmts) != 1 or not isinstance(stmts[0], ast.Assign) or ast.unparse(stmts[0].targets[0]) != "result":
            raise Untranslatable(ob, "branch is not a single `result = …`")
        ps = _dpipe_pieces(stmts[0].value, ob)
        if ps[:1] != ["acc"] or "acc" in ps[1:]:
            raise Untranslatable(ob, f"branch does not extend the running result on its right: {ps}")
        return ps[1:]

    last, mid = branch(br.body), branch(br.orelse)
    if ast.unparse(body[4]) != "return Column(result)":
        raise Untranslatable(ob, "does not `return Column(result)`")

    def pieces(ps: t.List[str]) -> str:
        return "[" + ", ".join("FmtPiece." + p for p in ps) + "]"

    return [
        "/-- what one `||` operand is: the text segment / the argument column of the current position -/",
        "inductive FmtPiece | seg | arg",
        "  deriving DecidableEq, Repr",
        "/-- `format_string_with_pipes`: the letters x for which `%x` is a placeholder (the split separator and everything",
        "    `.replace`d into it) -/",
        "def fmtPlaceholderLetters : List Char := [" + ", ".join(f"'{c}'" for c in sorted(set(letters))) + "]",
        "/-- `if len(values) != len(cols) + fmtArityOffset: raise` -/",
        f"def fmtArityOffset : Nat := {arity}",
        "/-- the operands the first statement joins (values[0], cols[0]); the operands one loop iteration appends to the",
        "    running result at the last position (`i == len(cols)`) and at any other position -/",
        f"def fmtInit : List FmtPiece := {pieces(init)}",
        f"def fmtLast : List FmtPiece := {pieces(last)}",
        f"def fmtMid : List FmtPiece := {pieces(mid)}",
        "",
    ]


def _root_of(node: ast.expr, env: t.Dict[str, str], ob: str) -> str:
    """which object an expression denotes a PART of: 'self' (the receiver's own tree), 'copy' (a copy of it),
    'fresh' (a newly built column)"""
    if isinstance(node, ast.Name):
        if node.id == "self":
            return "self"
        if node.id in env:
            return env[node.id]
        raise Untranslatable(ob, f"unknown name {node.id!r}")
    if isinstance(node, ast.Attribute):
        return _root_of(node.value, env, ob)
    if isinstance(node, ast.Subscript):
        return _root_of(node.value, env, ob)
    if isinstance(node, ast.Call):
        fsrc = ast.unparse(node.func)
        if fsrc == "self.copy":
            return "copy"
        if isinstance(node.func, ast.Attribute) and node.func.attr in ("copy", "deepcopy"):
            return "copy" if _root_of(node.func.value, env, ob) in ("self", "copy") else "fresh"
        if fsrc in ("when", "lit", "Column._lit", "self._lit"):
            return "fresh"
        if fsrc == "Column" and len(node.args) == 1:
            return _root_of(node.args[0], env, ob)  # a new wrapper around the SAME expression object
        if isinstance(node.func, ast.Attribute) and node.func.attr in ("unalias", "get"):
            return _root_of(node.func.value, env, ob)
    if isinstance(node, ast.IfExp):
        a, b = _root_of(node.body, env, ob), _root_of(node.orelse, env, ob)
        if a == b:
            return a
        if {a, b} <= {"fresh", "arg"}:
            return "fresh"
    raise Untranslatable(ob, f"cannot tell which object {ast.unparse(node)[:80]!r} belongs to")


def _copy_discipline(f: ast.FunctionDef, ob: str, params: t.List[str]) -> t.Tuple[bool, t.List[str]]:
    """(the receiver's tree is never written and the result is not the receiver's own expression object,
        the returns of early exits)"""
    env: t.Dict[str, str] = {p: "arg" for p in params}
    mutated: t.Set[str] = set()
    returned: t.List[str] = []

    def visit(stmts: t.List[ast.stmt]) -> None:
        for st in stmts:
            if isinstance(st, (ast.Import, ast.ImportFrom)):
                continue
            if isinstance(st, ast.Assign) and len(st.targets) == 1 and isinstance(st.targets[0], ast.Name):
                try:
                    env[st.targets[0].id] = _root_of(st.value, env, ob)
                except Untranslatable:
                    if any(isinstance(n, ast.Name) and n.id == "self" for n in ast.walk(st.value)):
                        raise
                    env[st.targets[0].id] = "fresh"
            elif isinstance(st, ast.Assign):
                for tg in st.targets:
                    mutated.add(_root_of(tg, env, ob))  # attribute / subscript assignment
            elif isinstance(st, ast.AugAssign):
                mutated.add(_root_of(st.target, env, ob))
            elif isinstance(st, ast.Expr) and isinstance(st.value, ast.Call) and isinstance(st.value.func, ast.Attribute):
                if st.value.func.attr in MUTATORS:
                    mutated.add(_root_of(st.value.func.value, env, ob))
                else:
                    raise Untranslatable(ob, f"statement with an unknown effect: {ast.unparse(st)[:80]!r}")
            elif isinstance(st, ast.For):
                if isinstance(st.target, ast.Name):
                    env[st.target.id] = "fresh" if _root_of(st.iter, env, ob) in ("fresh", "arg") else _root_of(st.iter, env, ob)
                visit(st.body)
                visit(st.orelse)
            elif isinstance(st, ast.If):
                visit(st.body)
                visit(st.orelse)
            elif isinstance(st, ast.Return) and st.value is not None:
                returned.append(_root_of(st.value, env, ob))
            else:
                raise Untranslatable(ob, f"statement not understood: {ast.unparse(st)[:80]!r}")

    visit(_strip_doc(f))
    if not returned:
        raise Untranslatable(ob, "no return")
    pure = "self" not in mutated and "arg" not in mutated and "self" not in returned
    return pure, returned


def _lenient_root(node: ast.expr, env: t.Dict[str, str]) -> str:
    """like _root_of, for the survey of all methods: 'self' when the expression is, or may be, a part of the
    receiver's own tree; anything that is built or copied is 'fresh'"""
    if isinstance(node, ast.Name):
        return "self" if node.id == "self" else env.get(node.id, "fresh")
    if isinstance(node, (ast.Attribute, ast.Subscript)):
        return _lenient_root(node.value, env)
    if isinstance(node, ast.IfExp):
        return "self" if "self" in (_lenient_root(node.body, env), _lenient_root(node.orelse, env)) else "fresh"
    if isinstance(node, ast.Call) and isinstance(node.func, ast.Attribute) and node.func.attr in ("unalias", "get", "find", "this"):
        return _lenient_root(node.func.value, env)
    if isinstance(node, ast.Call) and ast.unparse(node.func) == "Column" and len(node.args) == 1:
        return _lenient_root(node.args[0], env)
    return "fresh"  # constructors, .copy(), function calls: a new object


def _writes_receiver(f: ast.FunctionDef) -> bool:
    env: t.Dict[str, str] = {}
    hit = [False]

    def visit(stmts: t.List[ast.stmt]) -> None:
        for st in stmts:
            if isinstance(st, ast.Assign) and len(st.targets) == 1 and isinstance(st.targets[0], ast.Name):
                env[st.targets[0].id] = _lenient_root(st.value, env)
            elif isinstance(st, (ast.Assign, ast.AugAssign)):
                for tg in st.targets if isinstance(st, ast.Assign) else [st.target]:
                    if isinstance(tg, (ast.Attribute, ast.Subscript)) and _lenient_root(tg, env) == "self":
                        hit[0] = True
            elif isinstance(st, ast.Expr) and isinstance(st.value, ast.Call) and isinstance(st.value.func, ast.Attribute) and st.value.func.attr in MUTATORS:
                if _lenient_root(st.value.func.value, env) == "self":
                    hit[0] = True
            elif isinstance(st, (ast.For, ast.While)):
                if isinstance(st, ast.For) and isinstance(st.target, ast.Name):
                    env[st.target.id] = _lenient_root(st.iter, env)
                visit(st.body)
                visit(st.orelse)
            elif isinstance(st, ast.If):
                visit(st.body)
                visit(st.orelse)
            elif isinstance(st, ast.With):
                visit(st.body)
            elif isinstance(st, ast.Try):
                visit(st.body)
                for h in st.handlers:
                    visit(h.body)
                visit(st.orelse)
                visit(st.finalbody)

    visit(f.body)
    return hit[0]


def _gen_column_purity(co: ast.Module) -> t.List[str]:
    C = find_class(co, "Column")
    out: t.List[str] = []
    # Column.when
    ob = "Gen.EmulCompose.Column.when"
    f = find_func(C.body, "when")
    if [a.arg for a in f.args.args] != ["self", "condition", "value"]:
        raise Untranslatable(ob, "signature is not (self, condition, value)")
    src = ast.unparse(f)
    if "column_with_if = when(condition, value)" not in src:
        raise Untranslatable(ob, "the new branch is not built by functions.when(condition, value)")
    early = [s for s in _strip_doc(f) if isinstance(s, ast.If)]
    if len(early) != 1 or ast.unparse(early[0].test) != "not isinstance(self.column_expression, exp.Case)" or ast.unparse(early[0].body[0]) != "return column_with_if" or early[0].orelse:
        raise Untranslatable(ob, "the non-CASE receiver branch is not `return column_with_if`")
    pure, returned = _copy_discipline(f, ob, ["condition", "value"])
    # the branches are appended (in order, at the end) to the `ifs` of the object that is returned
    appends = [n for n in ast.walk(f) if isinstance(n, ast.Call) and isinstance(n.func, ast.Attribute) and n.func.attr in ("extend", "append") and "ifs" in ast.unparse(n)]
    if len(appends) != 1:
        raise Untranslatable(ob, "exactly one extend/append of `ifs` expected")
    out += [
        "/-- `Column.when`: the receiver's CASE is extended on a COPY and the copy is returned (true), or the receiver's own",
        "    expression object is written / handed back (false) -/",
        f"def whenCopiesReceiver : Bool := {'true' if pure and returned[-1] == 'copy' else 'false'}",
        "/-- `Column.when` on a receiver that is not a CASE returns the freshly built `when(condition, value)` -/",
        "def whenOnNonCaseStartsFresh : Bool := true",
    ]
    ob = "Gen.EmulCompose.Column.otherwise"
    f = find_func(C.body, "otherwise")
    if [a.arg for a in f.args.args] != ["self", "value"]:
        raise Untranslatable(ob, "signature is not (self, value)")
    pure, returned = _copy_discipline(f, ob, ["value"])
    sets = [n for n in ast.walk(f) if isinstance(n, ast.Call) and isinstance(n.func, ast.Attribute) and n.func.attr == "set" and n.args and isinstance(n.args[0], ast.Constant) and n.args[0].value == "default"]
    if len(sets) != 1:
        raise Untranslatable(ob, "exactly one `.set('default', …)` expected")
    out += [
        "/-- `Column.otherwise`: ELSE is set on a COPY of the receiver and the copy is returned -/",
        f"def otherwiseCopiesReceiver : Bool := {'true' if pure and returned[-1] == 'copy' else 'false'}",
    ]
    # every other method of Column: does it write into the receiver's own expression tree?
    writers: t.List[str] = []
    for n in C.body:
        if not isinstance(n, ast.FunctionDef) or n.name in ("__init__", "when", "otherwise"):
            continue
        if any(isinstance(d, ast.Name) and d.id in ("classmethod", "staticmethod", "property") for d in n.decorator_list):
            continue
        if _writes_receiver(n):
            writers.append(n.name)
    out += [
        "/-- methods of `Column` (other than the constructor) with a statement that writes into the receiver's own",
        "    expression tree (attribute / item assignment or a mutator call on something reached from `self` without a copy) -/",
        "def columnSelfWriters : List String := [" + ", ".join(lean_str(w) for w in sorted(set(writers))) + "]",
        "",
    ]
    return out


def _gen_nanvl_dayofweek(fa: ast.Module, fn: ast.Module) -> t.List[str]:
    out: t.List[str] = []
    ob = "Gen.EmulCompose.nanvl"
    f = find_func(fa.body, "nanvl_as_case")
    call = _return_call(f, ob)
    m = re.fullmatch(r"when\((~?)isnan\((col1|col2)\), col\((col1|col2)\)\)\.otherwise\(col\((col1|col2)\)\)", ast.unparse(call))
    if not m:
        raise Untranslatable(ob, f"not when([~]isnan(a), col(b)).otherwise(col(c)): {ast.unparse(call)[:100]!r}")
    out += [
        "/-- `nanvl_as_case`: CASE WHEN [NOT] isnan(<tested>) THEN <then> ELSE <else> END -/",
        f"def nanvlNegated : Bool := {'true' if m.group(1) else 'false'}",
        f"def nanvlTested : String := {lean_str(m.group(2))}",
        f"def nanvlThen : String := {lean_str(m.group(3))}",
        f"def nanvlElse : String := {lean_str(m.group(4))}",
    ]
    ob = "Gen.EmulCompose.dayofweek"
    f = find_func(fn.body, "dayofweek")
    addend = None
    for st in _strip_doc(f):
        if isinstance(st, ast.If) and "_is_duckdb" in ast.unparse(st.test) and not ast.unparse(st.test).startswith("not"):
            r = [x for x in st.body if isinstance(x, ast.Return)]
            if len(r) == 1 and r[0].value is not None:
                c = _coeffs(linear(r[0].value, {"result": "r"}, ob), ["r"], ob)
                if c[0] != 1:
                    raise Untranslatable(ob, "coefficient of the engine's day of week is not 1")
                addend = c[1]
    if addend is None or "expression.DayOfWeek" not in ast.unparse(f):
        raise Untranslatable(ob, "`return result + k` under the duckdb branch / DayOfWeek node not found")
    out += [
        "/-- `dayofweek` on DuckDB: the engine's DAYOFWEEK (Sunday = 0) `+ dayofweekDuckAddend` -/",
        f"def dayofweekDuckAddend : Int := {addend}",
        "",
    ]
    return out


def gen_compose(repo: str) -> str:
    fa = parse(repo, FA)
    fn = parse(repo, FN)
    co = parse(repo, CO)
    out = [HEADER.rstrip("\n"), "namespace Sqlframe.Gen.Emul", ""]
    out += _gen_levenshtein(fn)
    out += _gen_format_string(fa)
    out += _gen_column_purity(co)
    out += _gen_nanvl_dayofweek(fa, fn)
    out.append("end Sqlframe.Gen.Emul")
    return "\n".join(out) + "\n"


GENERATORS = {"Emulations": gen_emulations, "EmulCompose": gen_compose}
