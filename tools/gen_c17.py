"""
gen_c17.py — translator part of C17 (functions compute Spark's values): the decisions inside sqlframe's OWN
emulations, read with Python `ast` from sqlframe/base/function_alternatives.py, base/functions.py and
base/column.py (never imports sqlframe) -> Gen/Emulations.lean (namespace Sqlframe.Gen.Emul).

What is extracted: the factorial CASE table, the index shifts (getItem +1, element_at / try_element_at -1),
the LIST_SLICE end expression as a linear form, GENERATE_SERIES' default step, the constants of
log1p/expm1/rint, array_position's COALESCE default and argument order, array_min/array_max indices, the
sign flip of date_add/date_sub, the three pieces of overlay_from_substr, the keyword->argument maps of
locate/instr/lpad/rpad/substring, and the dispatch table function x engine -> alternative / inline / unsupported.
Anything outside the recognised shapes raises Untranslatable (the module is removed, theorems stop building).
"""
from __future__ import annotations

import ast
import re
import typing as t

from translate import HEADER, Untranslatable, find_class, find_func, lean_str, parse

FA = "sqlframe/base/function_alternatives.py"
FN = "sqlframe/base/functions.py"
CO = "sqlframe/base/column.py"
ENGINES = ["standalone", "spark", "databricks", "duckdb", "postgres", "bigquery", "snowflake", "redshift"]


def _strip_doc(fn: ast.FunctionDef) -> t.List[ast.stmt]:
    body = list(fn.body)
    if body and isinstance(body[0], ast.Expr) and isinstance(body[0].value, ast.Constant) and isinstance(body[0].value.value, str):
        body = body[1:]
    return body


def _lit_arg(node: ast.expr, ob: str) -> t.Any:
    """lit(K) / lit_func(K) -> K (int or None)"""
    if isinstance(node, ast.Call) and isinstance(node.func, ast.Name) and node.func.id in ("lit", "lit_func") and len(node.args) == 1:
        a = node.args[0]
        if isinstance(a, ast.Constant):
            return a.value
        if isinstance(a, ast.UnaryOp) and isinstance(a.op, ast.USub) and isinstance(a.operand, ast.Constant):
            return -a.operand.value
    raise Untranslatable(ob, f"expected lit(<constant>), found {ast.unparse(node)!r}")


def _int_const(node: ast.expr, ob: str) -> int:
    if isinstance(node, ast.Constant) and isinstance(node.value, int) and not isinstance(node.value, bool):
        return node.value
    if isinstance(node, ast.UnaryOp) and isinstance(node.op, ast.USub) and isinstance(node.operand, ast.Constant) and isinstance(node.operand.value, int):
        return -node.operand.value
    raise Untranslatable(ob, f"expected an int constant, found {ast.unparse(node)!r}")


def linear(node: ast.expr, names: t.Dict[str, str], ob: str) -> t.Dict[str, int]:
    """a +/- expression over named atoms and lit(k)/int constants -> {atom: coeff, 'const': k}"""
    src = ast.unparse(node)
    if src in names:
        return {names[src]: 1}
    if isinstance(node, ast.BinOp) and isinstance(node.op, (ast.Add, ast.Sub)):
        a = linear(node.left, names, ob)
        b = linear(node.right, names, ob)
        sign = 1 if isinstance(node.op, ast.Add) else -1
        out = dict(a)
        for k, v in b.items():
            out[k] = out.get(k, 0) + sign * v
        return out
    if isinstance(node, ast.Call) and isinstance(node.func, ast.Name) and node.func.id in ("lit", "lit_func"):
        v = _lit_arg(node, ob)
        if isinstance(v, int):
            return {"const": v}
    if isinstance(node, ast.Constant) and isinstance(node.value, int):
        return {"const": node.value}
    raise Untranslatable(ob, f"not a linear expression over {sorted(names)}: {src!r}")


def _coeffs(lin: t.Dict[str, int], atoms: t.List[str], ob: str) -> t.List[int]:
    extra = set(lin) - set(atoms) - {"const"}
    if extra:
        raise Untranslatable(ob, f"unexpected atoms {sorted(extra)}")
    return [lin.get(a, 0) for a in atoms] + [lin.get("const", 0)]


def _return_call(fn: ast.FunctionDef, ob: str) -> ast.Call:
    rets = [s for s in _strip_doc(fn) if isinstance(s, ast.Return)]
    if len(rets) != 1 or not isinstance(rets[0].value, ast.Call):
        raise Untranslatable(ob, "expected a single `return <call>`")
    return rets[0].value


def _kwmap(call: ast.Call) -> t.Dict[str, str]:
    return {kw.arg: ast.unparse(kw.value) for kw in call.keywords if kw.arg}


def gen_emulations(repo: str) -> str:
    fa = parse(repo, FA)
    fn = parse(repo, FN)
    co = parse(repo, CO)
    out = [HEADER.rstrip("\n"), "namespace Sqlframe.Gen.Emul", ""]

    # ---- factorial_from_case_statement: when(col == lit(K), lit(V)).when(...)...otherwise(lit(None))
    f = find_func(fa.body, "factorial_from_case_statement")
    node: ast.expr = _return_call(f, "Gen.Emulations.factorial")
    rows: t.List[t.Tuple[int, int]] = []
    otherwise = "missing"
    ob = "Gen.Emulations.factorial"
    while isinstance(node, ast.Call):
        if isinstance(node.func, ast.Attribute) and node.func.attr == "otherwise":
            v = _lit_arg(node.args[0], ob)
            if v is not None:
                raise Untranslatable(ob, "otherwise(...) is not lit(None)")
            otherwise = "null"
            node = node.func.value
        elif (isinstance(node.func, ast.Attribute) and node.func.attr == "when") or (isinstance(node.func, ast.Name) and node.func.id == "when"):
            cond, val = node.args
            if not (isinstance(cond, ast.Compare) and len(cond.ops) == 1 and isinstance(cond.ops[0], ast.Eq) and ast.unparse(cond.left) == "col_func(col)"):
                raise Untranslatable(ob, f"unrecognised condition {ast.unparse(cond)!r}")
            k = _lit_arg(cond.comparators[0], ob)
            v = _lit_arg(val, ob)
            if not isinstance(k, int) or not isinstance(v, int):
                raise Untranslatable(ob, "non-integer row")
            rows.append((k, v))
            node = node.func.value if isinstance(node.func, ast.Attribute) else None  # type: ignore
        else:
            raise Untranslatable(ob, f"unrecognised link {ast.unparse(node)[:60]!r}")
    rows.reverse()
    if otherwise != "null" or not rows:
        raise Untranslatable(ob, "CASE chain without otherwise(lit(None)) or without rows")
    out.append("/-- `factorial_from_case_statement`: the rows `WHEN col = k THEN v` in order; ELSE NULL -/")
    out.append("def factorialTable : List (Nat × Nat) := [" + ", ".join(f"({k}, {v})" for k, v in rows) + "]")
    out.append("")

    # ---- factorial_ensure_int: FACTORIAL(CAST(col AS integer))
    f = find_func(fa.body, "factorial_ensure_int")
    call = _return_call(f, "Gen.Emulations.factorial_ensure_int")
    if ast.unparse(call) != "Column.invoke_anonymous_function(col_func(col).cast('integer'), 'FACTORIAL')":
        raise Untranslatable("Gen.Emulations.factorial_ensure_int", f"shape changed: {ast.unparse(call)!r}")
    out.append("def factorialDuckFunction : String := \"FACTORIAL\"")
    out.append("")

    # ---- Column.getItem: key = key + lit(1) for numeric literals, then element_at(self, key)
    C = find_class(co, "Column")
    f = find_func(C.body, "getItem")
    shift = None
    for st in ast.walk(f):
        if isinstance(st, ast.If) and "is_number" in ast.unparse(st.test):
            for s in st.body:
                if isinstance(s, ast.Assign) and ast.unparse(s.targets[0]) == "key":
                    lin = linear(s.value, {"key": "key"}, "Gen.Emulations.getItem")
                    c = _coeffs(lin, ["key"], "Gen.Emulations.getItem")
                    if c[0] != 1:
                        raise Untranslatable("Gen.Emulations.getItem", "key coefficient is not 1")
                    shift = c[1]
    rets = [s for s in _strip_doc(f) if isinstance(s, ast.Return)]
    if shift is None or len(rets) != 1 or ast.unparse(rets[0].value) != "element_at(self, key)":
        raise Untranslatable("Gen.Emulations.getItem", "shape `key = key + lit(k)` / `return element_at(self, key)` not recognised")
    out.append("/-- `Column.getItem(k)` for a numeric literal k: `element_at(self, k + getItemShift)` -/")
    out.append(f"def getItemShift : Int := {shift}")

    # ---- element_at_using_brackets: value = value - lit(1) (numeric literals) ; Bracket(this=col, expressions=[value])
    f = find_func(fa.body, "element_at_using_brackets")
    shift = None
    for st in _strip_doc(f):
        if isinstance(st, ast.If) and "is_number" in ast.unparse(st.test):
            for s in st.body:
                if isinstance(s, ast.Assign) and ast.unparse(s.targets[0]) == "value":
                    c = _coeffs(linear(s.value, {"value": "value"}, "Gen.Emulations.element_at"), ["value"], "Gen.Emulations.element_at")
                    if c[0] != 1:
                        raise Untranslatable("Gen.Emulations.element_at", "value coefficient is not 1")
                    shift = c[1]
    call = _return_call(f, "Gen.Emulations.element_at")
    if shift is None or "expression.Bracket(this=col_func(col).column_expression, expressions=[value.column_expression])" not in ast.unparse(call):
        raise Untranslatable("Gen.Emulations.element_at", "shape not recognised")
    out.append("/-- `element_at_using_brackets`: the Bracket index is `value + elementAtShift` (sqlglot then adds the dialect's index offset) -/")
    out.append(f"def elementAtShift : Int := {shift}")

    # ---- try_element_at: extraction = extraction - lit(1) under the duckdb branch
    f = find_func(fn.body, "try_element_at")
    shift = None
    engines_shift: t.List[str] = []
    for st in _strip_doc(f):
        if isinstance(st, ast.If) and "_is_" in ast.unparse(st.test):
            engines_shift = [e for e in ENGINES if f"session._is_{e}" in ast.unparse(st.test)]
            for s in ast.walk(st):
                if isinstance(s, ast.Assign) and ast.unparse(s.targets[0]) == "extraction" and isinstance(s.value, ast.BinOp):
                    c = _coeffs(linear(s.value, {"extraction": "x"}, "Gen.Emulations.try_element_at"), ["x"], "Gen.Emulations.try_element_at")
                    shift = c[1]
    if shift is None or "duckdb" not in engines_shift:
        raise Untranslatable("Gen.Emulations.try_element_at", "shift under the duckdb branch not found")
    out.append(f"def tryElementAtShift : Int := {shift}")
    out.append("")

    # ---- slice_as_list_slice: LIST_SLICE(x, start_col, <end>)
    f = find_func(fa.body, "slice_as_list_slice")
    call = _return_call(f, "Gen.Emulations.slice")
    if not (ast.unparse(call.func) == "Column.invoke_anonymous_function" and len(call.args) == 4 and ast.unparse(call.args[0]) == "x" and ast.unparse(call.args[1]) == "'LIST_SLICE'"):
        raise Untranslatable("Gen.Emulations.slice", f"shape changed: {ast.unparse(call)[:100]!r}")
    names = {"start_col": "start", "length_col": "length"}
    b = _coeffs(linear(call.args[2], names, "Gen.Emulations.slice"), ["start", "length"], "Gen.Emulations.slice")
    e = _coeffs(linear(call.args[3], names, "Gen.Emulations.slice"), ["start", "length"], "Gen.Emulations.slice")
    if b != [1, 0, 0] or e[:2] != [1, 1]:
        raise Untranslatable("Gen.Emulations.slice", f"begin/end are not start / start + length + k: {b} {e}")
    out.append("/-- `slice_as_list_slice`: `LIST_SLICE(x, start, start + length + sliceEndOffset)` -/")
    out.append(f"def sliceEndOffset : Int := {e[2]}")

    # ---- sequence_from_generate_series: GENERATE_SERIES(start, stop, step or <default>)
    f = find_func(fa.body, "sequence_from_generate_series")
    src = ast.unparse(f)
    if "this='GENERATE_SERIES'" not in src:
        raise Untranslatable("Gen.Emulations.sequence", "GENERATE_SERIES not found")
    default = None
    order_ok = False
    for n in ast.walk(f):
        if isinstance(n, ast.List) and len(n.elts) == 3:
            a0, a1, a2 = n.elts
            order_ok = ast.unparse(a0) == "col_func(start).column_expression" and ast.unparse(a1) == "col_func(stop).column_expression"
            if isinstance(a2, ast.IfExp) and ast.unparse(a2.test) in ("step", "step is not None") and ast.unparse(a2.body) == "col_func(step).column_expression":
                d = a2.orelse
                if isinstance(d, ast.Call) and ast.unparse(d.func) == "expression.Literal.number" and len(d.args) == 1:
                    default = str(_int_const(d.args[0], "Gen.Emulations.sequence"))
                else:
                    # expression.case().when(expression.LTE(this=<start>, expression=<stop>), Literal.number(k1)).else_(Literal.number(k2))
                    m = re.fullmatch(
                        r"expression\.case\(\)\.when\(expression\.LTE\(this=col_func\(start\)\.column_expression, expression=col_func\(stop\)\.column_expression\), expression\.Literal\.number\((-?\d+)\)\)\.else_\(expression\.Literal\.number\((-?\d+)\)\)",
                        ast.unparse(d),
                    )
                    if m:
                        default = f"if a ≤ b then {m.group(1)} else {m.group(2)}"
    if default is None or not order_ok:
        raise Untranslatable("Gen.Emulations.sequence", "argument list [start, stop, step or <Literal.number(k) | CASE WHEN start <= stop THEN k1 ELSE k2>] not recognised")
    out.append("/-- `sequence_from_generate_series`: the step used when none is given, as a function of (start, stop) -/")
    out.append(f"def sequenceDefaultStep (a b : Int) : Int := {default}")

    # ---- log1p_from_log / expm1_from_exp / rint_from_round
    f = find_func(fa.body, "log1p_from_log")
    call = _return_call(f, "Gen.Emulations.log1p")
    if not (ast.unparse(call.func) == "log" and len(call.args) == 1):
        raise Untranslatable("Gen.Emulations.log1p", "not log(<expr>)")
    inner = call.args[0]
    names1 = {"col": "x", "Column.ensure_col(col)": "x", "col_func(col)": "x"}
    c = _coeffs(linear(inner, names1, "Gen.Emulations.log1p"), ["x"], "Gen.Emulations.log1p")
    if c[0] != 1:
        raise Untranslatable("Gen.Emulations.log1p", "coefficient of col is not 1")
    out.append("/-- `log1p_from_log`: `log(col + log1pAddend)` (one argument: natural logarithm) -/")
    out.append(f"def log1pAddend : Int := {c[1]}")
    f = find_func(fa.body, "expm1_from_exp")
    rets = [s for s in _strip_doc(f) if isinstance(s, ast.Return)]
    c = _coeffs(linear(rets[0].value, {"exp(col)": "e"}, "Gen.Emulations.expm1"), ["e"], "Gen.Emulations.expm1")
    if c[0] != 1:
        raise Untranslatable("Gen.Emulations.expm1", "coefficient of exp(col) is not 1")
    out.append("/-- `expm1_from_exp`: `exp(col) + expm1Addend` -/")
    out.append(f"def expm1Addend : Int := {c[1]}")
    f = find_func(fa.body, "rint_from_round")
    call = _return_call(f, "Gen.Emulations.rint")
    if not (ast.unparse(call.func) == "round" and len(call.args) == 2 and ast.unparse(call.args[0]) == "col"):
        raise Untranslatable("Gen.Emulations.rint", "not round(col, k)")
    shared_scale = _int_const(call.args[1], "Gen.Emulations.rint")
    # which engine function DuckDB gets: its own branch `return Column.invoke_anonymous_function(col, NAME, lit(k))`, or the shared rint_from_round
    f = find_func(fn.body, "rint")
    duck_fn, duck_scale = None, None
    for st in _strip_doc(f):
        if isinstance(st, ast.If) and "_is_duckdb" in ast.unparse(st.test):
            r = [x for x in st.body if isinstance(x, ast.Return)]
            if len(r) != 1 or not isinstance(r[0].value, ast.Call):
                raise Untranslatable("Gen.Emulations.rint", "duckdb branch is not a single return")
            c0 = r[0].value
            if ast.unparse(c0) == "rint_from_round(col)":
                duck_fn, duck_scale = "ROUND", shared_scale
            elif ast.unparse(c0.func) == "Column.invoke_anonymous_function" and len(c0.args) == 3 and ast.unparse(c0.args[0]) == "col" and isinstance(c0.args[1], ast.Constant):
                duck_fn, duck_scale = str(c0.args[1].value).upper(), _lit_arg(c0.args[2], "Gen.Emulations.rint")
            else:
                raise Untranslatable("Gen.Emulations.rint", f"unrecognised duckdb branch {ast.unparse(c0)!r}")
            break
    if duck_fn not in ("ROUND", "ROUND_EVEN") or not isinstance(duck_scale, int):
        raise Untranslatable("Gen.Emulations.rint", f"DuckDB rint is neither ROUND nor ROUND_EVEN: {duck_fn!r}")
    out.append("/-- `rint` on DuckDB: `<rintDuckFunction>(col, rintScale)` (ROUND via rint_from_round, or ROUND_EVEN) -/")
    out.append(f"def rintDuckFunction : String := {lean_str(duck_fn)}")
    out.append(f"def rintScale : Int := {duck_scale}")
    out.append("")

    # ---- array_position (default branch): coalesce(ARRAY_POSITION(col, value_col), lit(0))
    f = find_func(fn.body, "array_position")
    rets = [s for s in _strip_doc(f) if isinstance(s, ast.Return)]
    last = rets[-1].value
    guards = False
    if isinstance(last, ast.Call) and ast.unparse(last.func) == "when" and len(last.args) == 2 and ast.unparse(last.args[0]) == "Column.ensure_col(col).isNotNull()":
        guards = True  # CASE WHEN col IS NOT NULL THEN <…> END: NULL for a NULL array
        last = last.args[1]
    ok = (
        isinstance(last, ast.Call)
        and ast.unparse(last.func) == "coalesce"
        and len(last.args) == 2
        and ast.unparse(last.args[0]) == "Column.invoke_anonymous_function(col, 'ARRAY_POSITION', value_col)"
    )
    if not ok:
        raise Untranslatable("Gen.Emulations.array_position", f"shape changed: {ast.unparse(last)[:120]!r}")
    out.append("/-- `array_position`: `COALESCE(ARRAY_POSITION(col, value), arrayPositionDefault)`, optionally under `WHEN col IS NOT NULL` -/")
    out.append(f"def arrayPositionDefault : Int := {_lit_arg(last.args[1], 'Gen.Emulations.array_position')}")
    out.append(f"def arrayPositionGuardsNull : Bool := {'true' if guards else 'false'}")
    out.append("def arrayPositionArgs : List String := [\"col\", \"value\"]")

    # ---- array_min_from_sort / array_max_from_sort: element_at(array_sort(col), k)
    for nm in ("array_min_from_sort", "array_max_from_sort"):
        f = find_func(fa.body, nm)
        call = _return_call(f, f"Gen.Emulations.{nm}")
        if not (ast.unparse(call.func) == "element_at" and len(call.args) == 2 and ast.unparse(call.args[0]) == "array_sort(col)"):
            raise Untranslatable(f"Gen.Emulations.{nm}", "not element_at(array_sort(col), k)")
        out.append(f"def {'arrayMinIndex' if 'min' in nm else 'arrayMaxIndex'} : Int := {_int_const(call.args[1], 'Gen.Emulations.' + nm)}")
    out.append("")

    # ---- date_add / date_sub: `if days < 0: return <other>(col, days * -1)`; node DateAdd / DateSub
    for nm, other, node_name in (("date_add", "date_sub_func", "DateAdd"), ("date_sub", "date_add_func", "DateSub")):
        f = find_func(fn.body, nm)
        flip = None
        for st in ast.walk(f):
            if isinstance(st, ast.If) and ast.unparse(st.test) == "days < 0":
                r = [s for s in st.body if isinstance(s, ast.Return)]
                if len(r) == 1 and isinstance(r[0].value, ast.Call) and ast.unparse(r[0].value.func) == other and len(r[0].value.args) == 2:
                    a = r[0].value.args[1]
                    if isinstance(a, ast.BinOp) and isinstance(a.op, ast.Mult) and ast.unparse(a.left) == "days":
                        flip = _int_const(a.right, f"Gen.Emulations.{nm}")
        if flip is None or f"expression.{node_name}" not in ast.unparse(f):
            raise Untranslatable(f"Gen.Emulations.{nm}", "negative-days flip or the sqlglot node not recognised")
        out.append(f"/-- `{nm}`: for a negative int `days` the call becomes `{other[:-5]}(col, days * {flip})`; otherwise sqlglot's `{node_name}` -/")
        out.append(f"def {'dateAddFlip' if nm == 'date_add' else 'dateSubFlip'} : Int := {flip}")
    out.append("")

    # ---- overlay_from_substr
    f = find_func(fa.body, "overlay_from_substr")
    src = ast.unparse(f)
    if "length_value = len if len is not None else length_func(replace)" not in src:
        raise Untranslatable("Gen.Emulations.overlay", "default of len is not length(replace)")
    concat = None
    for n in ast.walk(f):
        if isinstance(n, ast.Call) and ast.unparse(n.func) == "expression.Concat":
            for kw in n.keywords:
                if kw.arg == "expressions" and isinstance(kw.value, ast.List) and len(kw.value.elts) == 3:
                    concat = kw.value.elts
    if concat is None:
        raise Untranslatable("Gen.Emulations.overlay", "Concat of three pieces not found")

    def substring_args(node: ast.expr) -> t.List[ast.expr]:
        if isinstance(node, ast.Attribute) and node.attr == "column_expression" and isinstance(node.value, ast.Call) and ast.unparse(node.value.func) == "substring":
            return list(node.value.args)
        raise Untranslatable("Gen.Emulations.overlay", f"piece is not substring(...).column_expression: {ast.unparse(node)[:80]!r}")

    names = {"col_func(pos)": "pos", "col_func(length_value)": "len"}
    a = substring_args(concat[0])
    cpiece = substring_args(concat[2])
    if ast.unparse(concat[1]) != "col_func(replace).column_expression" or ast.unparse(a[0]) != "col_func(src)" or ast.unparse(cpiece[0]) != "col_func(src)":
        raise Untranslatable("Gen.Emulations.overlay", "pieces are not substring(src, …), replace, substring(src, …)")
    head_start = _int_const(a[1], "Gen.Emulations.overlay")
    head_len = _coeffs(linear(a[2], names, "Gen.Emulations.overlay"), ["pos", "len"], "Gen.Emulations.overlay")
    tail_start = _coeffs(linear(cpiece[1], names, "Gen.Emulations.overlay"), ["pos", "len"], "Gen.Emulations.overlay")
    if ast.unparse(cpiece[2]) != "length_func(src)":
        raise Untranslatable("Gen.Emulations.overlay", "tail length is not length(src)")
    out.append("/-- `overlay_from_substr`: CONCAT(SUBSTRING(src, headStart, a·pos + b·len + c), replace, SUBSTRING(src, a'·pos + b'·len + c', LENGTH(src))) -/")
    out.append(f"def overlayHeadStart : Int := {head_start}")
    out.append(f"def overlayHeadLen : Int × Int × Int := ({head_len[0]}, {head_len[1]}, {head_len[2]})")
    out.append(f"def overlayTailStart : Int × Int × Int := ({tail_start[0]}, {tail_start[1]}, {tail_start[2]})")
    out.append("")

    # ---- keyword -> argument maps (argument re-orderings)
    def kw_of(fname: str, node_name: str, which: int = -1) -> t.Dict[str, str]:
        f = find_func(fn.body, fname)
        calls = [n for n in ast.walk(f) if isinstance(n, ast.Call) and node_name in ast.unparse(n)[:200] and (ast.unparse(n.func).endswith("invoke_expression_over_column") or ast.unparse(n.func) == node_name)]
        if not calls:
            raise Untranslatable(f"Gen.Emulations.{fname}", f"no call building {node_name}")
        call = sorted(calls, key=lambda c: len(c.keywords))[which]
        m = _kwmap(call)
        if ast.unparse(call.func).endswith("invoke_expression_over_column"):
            m["this"] = ast.unparse(call.args[0])
        return m

    loc = kw_of("locate", "expression.StrPosition")
    ins = kw_of("instr", "expression.StrPosition")
    f = find_func(fn.body, "locate")
    if "substr_col = lit(substr)" not in ast.unparse(f):
        raise Untranslatable("Gen.Emulations.locate", "substr_col is not lit(substr)")
    norm = {"substr_col": "substr", "lit(substr)": "substr", "str": "str", "col": "col", "pos": "pos"}
    try:
        out.append("/-- `locate(substr, str, pos)` builds StrPosition(this, substr, position) from these parameters -/")
        out.append(f"def locateThis : String := {lean_str(norm[loc['this']])}")
        out.append(f"def locateSubstr : String := {lean_str(norm[loc['substr']])}")
        out.append(f"def locatePosition : String := {lean_str(norm[loc['position']])}")
        out.append("/-- `instr(col, substr)` builds StrPosition(this, substr) -/")
        out.append(f"def instrThis : String := {lean_str(norm[ins['this']])}")
        out.append(f"def instrSubstr : String := {lean_str(norm[ins['substr']])}")
    except KeyError as e:
        raise Untranslatable("Gen.Emulations.locate", f"unrecognised argument {e}")
    for nm in ("lpad", "rpad"):
        m = kw_of(nm, "expression.Pad")
        want = {"this": "Column.ensure_col(col).column_expression", "expression": "lit(len).column_expression", "fill_pattern": "lit(pad).column_expression"}
        pm = {"Column.ensure_col(col).column_expression": "col", "lit(len).column_expression": "len", "lit(pad).column_expression": "pad"}
        try:
            out.append(f"def {nm}This : String := {lean_str(pm[m['this']])}")
            out.append(f"def {nm}Length : String := {lean_str(pm[m['expression']])}")
            out.append(f"def {nm}Fill : String := {lean_str(pm[m['fill_pattern']])}")
            out.append(f"def {nm}IsLeft : Bool := {'true' if m.get('is_left') == 'True' else 'false'}")
        except KeyError as e:
            raise Untranslatable(f"Gen.Emulations.{nm}", f"unrecognised argument {e}")
        del want
    f = find_func(fn.body, "substring")
    if ast.unparse(_return_call(f, "Gen.Emulations.substring")) != "Column.ensure_col(str).substr(pos, len)":
        raise Untranslatable("Gen.Emulations.substring", "not Column.ensure_col(str).substr(pos, len)")
    f = find_func(C.body, "substr")
    m = kw_of_method(f, "exp.Substring")
    if m.get("start") != "startPos.expression" or m.get("length") != "length.expression":
        raise Untranslatable("Gen.Emulations.substring", f"Column.substr builds {m}")
    out.append("/-- `substring(str, pos, len)` = `Column.substr(pos, len)` = Substring(this, start = pos, length = len): no index shift -/")
    out.append("def substringStartShift : Int := 0")
    out.append("")

    # ---- util.soundex: the pure-Python function DuckDBSession registers as SOUNDEX
    out.append(_gen_soundex(repo))
    out.append("")

    # ---- dispatch table: (function, engine) -> alternative | inline | unsupported     (absent = the default body)
    rows_d: t.List[t.Tuple[str, str, str]] = []
    for n in fn.body:
        if not isinstance(n, ast.FunctionDef) or n.name.startswith("_"):
            continue
        unsupported: t.List[str] = []
        has_meta = False
        for d in n.decorator_list:
            if isinstance(d, ast.Call) and ast.unparse(d.func) == "meta":
                has_meta = True
                for kw in d.keywords:
                    if kw.arg == "unsupported_engines":
                        try:
                            v = ast.literal_eval(kw.value)
                        except Exception:
                            raise Untranslatable("Gen.Emulations.dispatch", f"{n.name}: unsupported_engines is not a literal")
                        unsupported = [v] if isinstance(v, str) else list(v)
        if not has_meta:
            continue
        for e in ENGINES:
            if e in unsupported or "*" in unsupported:
                rows_d.append((n.name, e, "unsupported"))
        seen: t.Set[str] = set()
        alternatives: t.Set[str] = set()
        for st in ast.walk(n):
            if isinstance(st, ast.ImportFrom) and st.module == "sqlframe.base.function_alternatives":
                alternatives |= {a.asname or a.name for a in st.names}
        for st in ast.walk(n):
            if isinstance(st, ast.If) and "_is_" in ast.unparse(st.test):
                test = ast.unparse(st.test)
                engs = [e for e in ENGINES if f"_is_{e}" in test]
                if isinstance(st.test, ast.UnaryOp) and isinstance(st.test.op, ast.Not) and re.fullmatch(r"not [\w.()]*_is_\w+", test):
                    engs = [e for e in ENGINES if e not in engs]
                elif re.search(r"not\s+\(?[\w.()]*_is_", test):
                    raise Untranslatable("Gen.Emulations.dispatch", f"{n.name}: negated engine test {test!r}")
                target = "inline"
                r = [s for s in st.body if isinstance(s, ast.Return)]
                if len(r) == 1 and isinstance(r[0].value, ast.Call) and isinstance(r[0].value.func, ast.Name) and r[0].value.func.id in alternatives:
                    target = r[0].value.func.id
                for e in engs:
                    if e in seen or e in unsupported:
                        continue
                    seen.add(e)
                    rows_d.append((n.name, e, target))
    out.append("/-- (function, engine, implementation): the alternative the engine's branch returns, `inline` when the branch")
    out.append("    computes in place, `unsupported` from @func_metadata; a pair that is absent runs the default body -/")
    out.append("def dispatch : List (String × String × String) := [")
    out.append(",\n".join(f"  ({lean_str(a)}, {lean_str(b)}, {lean_str(c)})" for a, b, c in rows_d))
    out.append("]")
    out.append("")
    out.append("end Sqlframe.Gen.Emul")
    return "\n".join(out) + "\n"


def _eval_letter_cond(node: ast.expr, letter: str, ob: str) -> bool:
    """evaluate a boolean expression over the variable `letter` and string constants"""
    if isinstance(node, ast.BoolOp):
        vals = [_eval_letter_cond(v, letter, ob) for v in node.values]
        return all(vals) if isinstance(node.op, ast.And) else any(vals)
    if isinstance(node, ast.UnaryOp) and isinstance(node.op, ast.Not):
        return not _eval_letter_cond(node.operand, letter, ob)
    if isinstance(node, ast.Compare) and len(node.ops) == 1 and isinstance(node.left, ast.Name) and node.left.id == "letter":
        c = node.comparators[0]
        if isinstance(c, ast.Constant) and isinstance(c.value, str):
            op = node.ops[0]
            if isinstance(op, ast.NotEq):
                return letter != c.value
            if isinstance(op, ast.Eq):
                return letter == c.value
            if isinstance(op, ast.NotIn):
                return letter not in c.value
            if isinstance(op, ast.In):
                return letter in c.value
    raise Untranslatable(ob, f"unsupported condition {ast.unparse(node)!r}")


def _gen_soundex(repo: str) -> str:
    ob = "Gen.Emulations.soundex"
    f = find_func(parse(repo, "sqlframe/base/util.py").body, "soundex")
    src = ast.unparse(f)
    for needle in ("if not s:\n        return ''", "s = unicodedata.normalize('NFKD', s)", "s = s.upper()", "result = [s[0]]", "count = 1", "for letter in s[1:]:", "if sub != last:", "result.append(sub)", "count += 1", "last = sub", "return ''.join(result)"):
        if needle not in src:
            raise Untranslatable(ob, f"statement {needle!r} not found")
    table = None
    for st in f.body:
        if isinstance(st, ast.Assign) and ast.unparse(st.targets[0]) == "replacements":
            try:
                table = ast.literal_eval(st.value)
            except Exception:
                raise Untranslatable(ob, "replacements is not a literal")
    if not table or not all(isinstance(r, tuple) and len(r) == 2 and isinstance(r[0], str) and isinstance(r[1], str) and len(r[1]) == 1 for r in table):
        raise Untranslatable(ob, "replacements is not a tuple of (letters, digit) pairs")
    loops = [st for st in f.body if isinstance(st, ast.For) and ast.unparse(st.target) == "letter"]
    if len(loops) != 1:
        raise Untranslatable(ob, "main loop not found")
    loop = loops[0]
    inner = [st for st in loop.body if isinstance(st, ast.For)]
    brk = [st for st in loop.body if isinstance(st, ast.If)]
    if len(inner) != 1 or not inner[0].orelse or len(brk) != 1:
        raise Untranslatable(ob, "loop body is not `for lset, sub …: … else: …` followed by `if count == N: break`")
    els = inner[0].orelse
    if not (len(els) == 1 and isinstance(els[0], ast.If) and not els[0].orelse and len(els[0].body) == 1 and ast.unparse(els[0].body[0]) == "last = None"):
        raise Untranslatable(ob, "else branch is not `if <cond over letter>: last = None`")
    cond = els[0].test
    # the letters for which the condition is FALSE leave `last` alone (transparent); every other uncoded character resets it
    transparent = [chr(c) for c in range(128) if not _eval_letter_cond(cond, chr(c), ob)]
    m = re.fullmatch(r"count == (\d+)", ast.unparse(brk[0].test))
    if not m or ast.unparse(brk[0].body[0]) != "break":
        raise Untranslatable(ob, "`if count == N: break` not found")
    n = int(m.group(1))
    m2 = re.search(r"result \+= '(.)' \* \((\d+) - count\)", src)
    if not m2 or int(m2.group(2)) != n:
        raise Untranslatable(ob, "padding `result += '0' * (N - count)` not found or N differs")
    # first character: `last` is its code
    first = [st for st in f.body if isinstance(st, ast.For) and ast.unparse(st.target) == "(lset, sub)"]
    if len(first) != 1 or "if s[0] in lset:" not in ast.unparse(first[0]) or ast.unparse(first[0].orelse[0]) != "last = None":
        raise Untranslatable(ob, "code of the first character not recognised")
    # DuckDBSession registers it as SOUNDEX
    sess = ast.unparse(parse(repo, "sqlframe/duckdb/session.py"))
    registered = "conn.create_function('SOUNDEX', lambda x: soundex(x)" in sess and "from sqlframe.base.util import soundex" in sess
    out = []
    out.append("/-- `sqlframe.base.util.soundex` (registered by DuckDBSession as SOUNDEX): (code points of the letters, code point of the digit) -/")
    out.append("def soundexTable : List (List Nat × Nat) := [" + ", ".join("([" + ", ".join(str(ord(ch)) for ch in letters) + f"], {ord(d)})" for letters, d in table) + "]")
    out.append("/-- uncoded characters that leave `last` alone (the characters for which the `else` condition is false) -/")
    out.append("def soundexTransparent : List Nat := [" + ", ".join(str(ord(c)) for c in transparent) + "]")
    out.append(f"def soundexLen : Nat := {n}")
    out.append(f"def soundexPad : Nat := {ord(m2.group(1))}")
    out.append(f"def duckSoundexIsUtilSoundex : Bool := {'true' if registered else 'false'}")
    return "\n".join(out)


def kw_of_method(f: ast.FunctionDef, node_name: str) -> t.Dict[str, str]:
    for n in ast.walk(f):
        if isinstance(n, ast.Call) and ast.unparse(n.func).endswith("invoke_expression_over_column") and len(n.args) >= 2 and ast.unparse(n.args[1]) == node_name:
            return _kwmap(n)
    raise Untranslatable("Gen.Emulations.substring", f"no call building {node_name}")


GENERATORS = {"Emulations": gen_emulations}
