#!/bin/sh
# usage: seed_intake.sh <agent output dir with A/ B/> <Cxx> <tag e.g. C>  — store as seeded/<Cxx>-<tag>1, -<tag>2 and evaluate (demo clean/patched, pinned suite, quick check)
SRC=$1; P=$2; TAG=$3
n=1
for sub in A B; do
  [ -f "$SRC/$sub/patch.diff" ] || continue
  D=/verif/seeded/$P-$TAG$n
  mkdir -p $D && cp $SRC/$sub/patch.diff $SRC/$sub/demo.py $SRC/$sub/meta.json $D/
  n=$((n+1))
done
cd /verif && /venv/bin/python tools/seed_par.py --suite -j 2 $(ls -d seeded/$P-$TAG* | xargs -n1 basename)
