"""
gen_c01.py — translator part of C01 beyond Gen.Operations / Gen.Methods / Gen.Clauses (those live in translate.py).

Gen.C01Bodies  <- sqlframe/base/dataframe.py (+ operations.py, group.py for the shared-state scan)

  1. *composition* of the modelled method bodies: which further DataFrame methods a body runs, in order, and whether
     through the `@operation` wrapper (`df.select(...)`) or around it (`df.select.__wrapped__(df, ...)`); how many
     explicit `_convert_leaf_to_cte()` calls the body makes.  A decorated call re-enters the wrap rule, an undecorated one
     does not, and a body that writes into `self.expression` directly does neither — which of the three a method does
     decides in which SELECT block its clause lands.
  2. *process-level state behind the column list*: is `_get_outer_select_columns` memoised (a caching decorator), does
     it return a fresh list, and which methods change the list it returned in place.  Either alone is harmless; together
     the answer of a chain depends on which chains ran before it in the same interpreter.
  3. a scan for any other memoised function / class-level mutable container in the three files: not modelled, so
     reported as untranslatable (never guessed to be harmless).

Never imports sqlframe.
"""
from __future__ import annotations

import ast
import typing as t

from translate import HEADER, Untranslatable, _method_tags, find_class, find_func, lean_ident, lean_str, parse

OB = "Gen.C01Bodies"

# methods whose bodies the C01 model transcribes (Impl/DataFrame.lean `DF.apply`)
MODELLED = ["where", "select", "withColumn", "withColumns", "withColumnRenamed", "drop", "distinct", "orderBy", "limit",
            "fillna", "replace", "toDF", "dropna", "unpivot"]

CACHING = {"lru_cache", "cache", "cached_property", "memoize", "memoized", "cachedmethod", "cached"}
INPLACE_METHODS = {"append", "extend", "insert", "pop", "remove", "clear", "sort", "reverse", "__setitem__", "__delitem__"}
DF_RETURNING_HELPERS = {"copy", "_convert_leaf_to_cte", "_resolve_pending_hints"}


def _deco_name(d: ast.expr) -> str:
    """the last dotted component of a decorator (call parentheses removed): functools.lru_cache(maxsize=1) -> lru_cache"""
    if isinstance(d, ast.Call):
        d = d.func
    if isinstance(d, ast.Attribute):
        return d.attr
    if isinstance(d, ast.Name):
        return d.id
    return ast.unparse(d)


def _is_caching(d: ast.expr) -> bool:
    return _deco_name(d) in CACHING


class _Body:
    """a small abstract reading of one method body: which names hold DataFrames / sqlglot expressions"""

    def __init__(self, fn: ast.FunctionDef, decorated: t.Set[str]):
        self.fn = fn
        self.decorated = decorated
        self.env: t.Dict[str, str] = {"self": "DF"}
        # two passes so that a name assigned from a later-defined name settles (bodies are straight-line where it matters)
        for _ in range(2):
            for st in ast.walk(fn):
                if isinstance(st, ast.Assign) and len(st.targets) == 1 and isinstance(st.targets[0], ast.Name):
                    k = self.kind(st.value)
                    n = st.targets[0].id
                    if n == "self" and k != "DF":
                        raise Untranslatable(OB, f"{fn.name}: `self` rebound to a non-DataFrame")
                    old = self.env.get(n)
                    if old is not None and old != k and "DF" in (old, k):
                        raise Untranslatable(OB, f"{fn.name}: the name {n!r} holds a DataFrame and something else")
                    self.env[n] = k
                elif isinstance(st, ast.NamedExpr) and isinstance(st.target, ast.Name):
                    self.env[st.target.id] = self.kind(st.value)

    def kind(self, node: ast.expr) -> str:
        """'DF' | 'EXPR' | 'OTHER'"""
        if isinstance(node, ast.Name):
            return self.env.get(node.id, "OTHER")
        if isinstance(node, ast.Attribute):
            if node.attr == "expression":
                return "EXPR"
            return "OTHER"
        if isinstance(node, ast.Call) and isinstance(node.func, ast.Attribute):
            f = node.func
            if f.attr == "__wrapped__" and isinstance(f.value, ast.Attribute) and f.value.attr in self.decorated:
                return "DF"
            recv = self.kind(f.value)
            if recv == "DF" and (f.attr in DF_RETURNING_HELPERS or f.attr in self.decorated):
                return "DF"
            if recv == "EXPR":
                return "EXPR"  # sqlglot builders return expressions
            return "OTHER"
        return "OTHER"

    def parents(self) -> t.Dict[int, ast.AST]:
        out: t.Dict[int, ast.AST] = {}
        for p in ast.walk(self.fn):
            for c in ast.iter_child_nodes(p):
                out[id(c)] = p
        return out

    def conditional(self, node: ast.AST, parents: t.Dict[int, ast.AST]) -> bool:
        """is the node inside an if / loop / try / comprehension / lambda / conditional expression of the body?"""
        cur = parents.get(id(node))
        while cur is not None and cur is not self.fn:
            if isinstance(cur, (ast.If, ast.For, ast.While, ast.Try, ast.IfExp, ast.ListComp, ast.SetComp, ast.DictComp,
                                ast.GeneratorExp, ast.Lambda, ast.BoolOp, ast.With, ast.FunctionDef)):
                return True
            cur = parents.get(id(cur))
        return False

    def calls(self) -> t.Tuple[t.List[t.Tuple[str, str, bool]], t.List[bool]]:
        """([(how, method, conditional)] in evaluation order, [conditional? per explicit _convert_leaf_to_cte call])"""
        parents = self.parents()
        found: t.List[t.Tuple[t.Tuple[int, int], str, str, bool]] = []
        wraps: t.List[bool] = []
        for n in ast.walk(self.fn):
            if not (isinstance(n, ast.Call) and isinstance(n.func, ast.Attribute)):
                continue
            f = n.func
            pos = (n.end_lineno or 0, n.end_col_offset or 0)
            if f.attr == "__wrapped__" and isinstance(f.value, ast.Attribute) and f.value.attr in self.decorated:
                if self.kind(f.value.value) != "DF":
                    raise Untranslatable(OB, f"{self.fn.name}: {ast.unparse(f)[:60]!r} is not taken from a DataFrame")
                found.append((pos, "undecorated", f.value.attr, self.conditional(n, parents)))
            elif f.attr == "_convert_leaf_to_cte":
                wraps.append(self.conditional(n, parents))
            elif f.attr in self.decorated and self.kind(f.value) == "DF":
                found.append((pos, "decorated", f.attr, self.conditional(n, parents)))
        found.sort(key=lambda x: x[0])
        return [(h, m, c) for _, h, m, c in found], wraps

    def writes_expression_directly(self) -> bool:
        """does the body hand `copy(expression=<sqlglot builder call>)` — i.e. write a clause into the open SELECT itself?"""
        for n in ast.walk(self.fn):
            if isinstance(n, ast.Call) and isinstance(n.func, ast.Attribute) and n.func.attr == "copy" and self.kind(n.func.value) == "DF":
                for kw in n.keywords:
                    if kw.arg == "expression":
                        return True
        return False


def _outer_cols(cls: ast.ClassDef) -> t.Tuple[bool, bool]:
    """(memoised, returns a fresh list) of `_get_outer_select_columns`"""
    fn = find_func(cls.body, "_get_outer_select_columns")
    memo = False
    for d in fn.decorator_list:
        name = _deco_name(d)
        if name in ("classmethod", "staticmethod"):
            continue
        if _is_caching(d):
            memo = True
            continue
        raise Untranslatable(OB, f"_get_outer_select_columns carries the decorator {ast.unparse(d)[:60]!r}")
    rets = [n for n in ast.walk(fn) if isinstance(n, ast.Return)]
    if not rets:
        raise Untranslatable(OB, "_get_outer_select_columns has no return")
    for r in rets:
        v = r.value
        fresh = isinstance(v, (ast.List, ast.ListComp)) or (isinstance(v, ast.Call) and isinstance(v.func, ast.Name) and v.func.id in ("list", "sorted"))
        if not fresh:
            raise Untranslatable(OB, f"cannot tell whether _get_outer_select_columns returns a new list: {ast.unparse(r)[:80]!r}")
    return memo, True


def _mutators(cls: ast.ClassDef, helper: str) -> t.List[str]:
    """methods that change, in place, a list obtained from `<x>.<helper>(...)` (followed through plain name-to-name assignments)"""
    out = []
    for fn in cls.body:
        if not isinstance(fn, ast.FunctionDef):
            continue
        holders: t.Set[str] = set()
        for _ in range(3):  # aliases of aliases
            for st in ast.walk(fn):
                if isinstance(st, ast.Assign) and len(st.targets) == 1 and isinstance(st.targets[0], ast.Name):
                    v = st.value
                    if isinstance(v, ast.Call) and isinstance(v.func, ast.Attribute) and v.func.attr == helper:
                        holders.add(st.targets[0].id)
                    elif isinstance(v, ast.Name) and v.id in holders:
                        holders.add(st.targets[0].id)
        if not holders:
            continue
        mut = False
        for n in ast.walk(fn):
            if isinstance(n, (ast.Assign, ast.AugAssign, ast.AnnAssign)):
                tgts = n.targets if isinstance(n, ast.Assign) else [n.target]
                for tg in tgts:
                    if isinstance(tg, ast.Subscript) and isinstance(tg.value, ast.Name) and tg.value.id in holders:
                        mut = True
                    if isinstance(n, ast.AugAssign) and isinstance(tg, ast.Name) and tg.id in holders:
                        mut = True  # `xs += [...]` extends the list in place
            elif isinstance(n, ast.Delete):
                for tg in n.targets:
                    if isinstance(tg, ast.Subscript) and isinstance(tg.value, ast.Name) and tg.value.id in holders:
                        mut = True
            elif isinstance(n, ast.Call) and isinstance(n.func, ast.Attribute) and n.func.attr in INPLACE_METHODS:
                if isinstance(n.func.value, ast.Name) and n.func.value.id in holders:
                    mut = True
        if mut:
            out.append(fn.name)
    return sorted(out)


def _shared_state_scan(repo: str) -> None:
    """anything else that could carry state from one chain to the next is outside the model: refuse to translate"""
    for rel, classes in (("sqlframe/base/dataframe.py", ["BaseDataFrame"]), ("sqlframe/base/operations.py", []), ("sqlframe/base/group.py", ["_BaseGroupedData"])):
        mod = parse(repo, rel)
        for n in ast.walk(mod):
            if isinstance(n, (ast.FunctionDef, ast.AsyncFunctionDef)) and n.name != "_get_outer_select_columns":
                for d in n.decorator_list:
                    if _is_caching(d):
                        raise Untranslatable(OB, f"{rel}: {n.name} is memoised ({ast.unparse(d)[:50]}) — a result shared between chains is not modelled")
        for cname in classes:
            cls = find_class(mod, cname)
            for st in cls.body:
                v = st.value if isinstance(st, (ast.Assign, ast.AnnAssign)) else None
                if v is None:
                    continue
                mutable = isinstance(v, (ast.List, ast.Dict, ast.Set, ast.ListComp, ast.DictComp, ast.SetComp)) or (
                    isinstance(v, ast.Call) and _deco_name(v.func) in ("list", "dict", "set", "defaultdict", "OrderedDict", "deque", "WeakValueDictionary", "WeakKeyDictionary"))
                if mutable:
                    raise Untranslatable(OB, f"{rel}: class {cname} has the class-level mutable attribute {ast.unparse(st)[:60]!r} (shared by every DataFrame)")


# what the model's `DF.apply` (Impl/DataFrame.lean) assumes each body to be; a body of another shape is reported, not guessed
def _check_shape(m: str, calls: t.List[t.Tuple[str, str, bool]], wraps: t.List[bool], direct: bool) -> None:
    cond_calls = [c for c in calls if c[2]]
    if m == "orderBy":
        # the guard for sort expressions (translated in Gen.Clauses) is the one understood conditional wrap + re-run
        if [c[:2] for c in calls] not in ([], [("decorated", "orderBy")]) or len(wraps) > 1 or (calls and not wraps):
            raise Untranslatable(OB, f"orderBy runs further DataFrame methods: {calls}")
        return
    if cond_calls:
        raise Untranslatable(OB, f"{m} runs a DataFrame method under a condition / in a loop: {cond_calls}")
    if any(wraps):
        raise Untranslatable(OB, f"{m} freezes the open block under a condition the model does not contain")


def gen_c01bodies(repo: str) -> str:
    mod = parse(repo, "sqlframe/base/dataframe.py")
    cls = find_class(mod, "BaseDataFrame")
    tags = _method_tags(cls, ("operation",))
    decorated = {k for k, v in tags.items() if v is not None}
    out = [HEADER, "import SqlframeModel.Gen.Operations", "namespace Sqlframe.Gen", ""]
    out.append("/-- one further DataFrame method a method body runs: through the `@operation` wrapper, or around it (`.__wrapped__`) -/")
    out.append("inductive Inner")
    out.append("  | decorated (m : String)")
    out.append("  | undecorated (m : String)")
    out.append("  deriving DecidableEq, Repr")
    out.append("")
    table = []
    for m in MODELLED:
        if m not in tags:
            raise Untranslatable(OB, f"method {m} not found")
        fn = find_func(cls.body, m)
        b = _Body(fn, decorated)
        calls, wraps = b.calls()
        direct = b.writes_expression_directly()
        _check_shape(m, calls, wraps, direct)
        inner = [] if m == "orderBy" else calls
        li = ", ".join(f".{h} {lean_str(n)}" for h, n, _ in inner)
        out.append(f"/-- `{m}`: the DataFrame methods its body runs, in order -/")
        out.append(f"def inner_{lean_ident(m)} : List Inner := [{li}]")
        out.append(f"def wraps_{lean_ident(m)} : Nat := {len(wraps)}")
        out.append(f"/-- does `{m}` itself hand a new sqlglot expression to `copy(expression=…)` (writes its clause into the open SELECT)? -/")
        out.append(f"def direct_{lean_ident(m)} : Bool := {str(direct).lower()}")
        table.append(f"  ({lean_str(m)}, [{li}])")
    out.append("")
    out.append("def innerTable : List (String × List Inner) := [")
    out.append(",\n".join(table))
    out.append("]")
    out.append("")
    memo, fresh = _outer_cols(cls)
    muts = _mutators(cls, "_get_outer_select_columns")
    _shared_state_scan(repo)
    if memo and set(muts) - {"withColumns"}:
        raise Untranslatable(OB, f"the memoised column list is changed in place by {sorted(set(muts) - {'withColumns'})}: only withColumns' write is modelled")
    out.append("/-- `_get_outer_select_columns` carries a caching decorator (its result is shared by every call with an equal expression) -/")
    out.append(f"def outerColsMemoised : Bool := {str(memo).lower()}")
    out.append("/-- every `return` of `_get_outer_select_columns` builds a new list -/")
    out.append(f"def outerColsFresh : Bool := {str(fresh).lower()}")
    out.append("/-- methods that change the list `_get_outer_select_columns` returned in place -/")
    out.append("def outerColsMutatedBy : List String := [" + ", ".join(lean_str(x) for x in muts) + "]")
    out.append("/-- `withColumn` (through `withColumns`) writes its new items into that very list -/")
    out.append(f"def withColumnsMutatesOuterCols : Bool := {str('withColumns' in muts).lower()}")
    out.append("")
    out.append("end Sqlframe.Gen")
    return "\n".join(out) + "\n"


GENERATORS = {"C01Bodies": gen_c01bodies}
