"""
gen_c18.py — translator part of C18 (a pipeline's meaning does not depend on session history; reproducible SQL).

Python `ast` of /repo's working tree -> lean/SqlframeModel/Gen/SessionIds.lean

Extracted decisions:
  _BaseSession._random_id / _random_branch_id / _random_sequence_id   how ids are produced (uuid4 vs counter), which
                                                                      registries they are recorded in
  _BaseSession._auto_incrementing_name                                the VALUES alias counter
  _BaseSession._add_alias_to_mapping, BaseDataFrame.alias             alias(name) draws a fresh sequence id and appends it
  normalize.replace_alias_name_with_cte_name                          scope / order / match rule of the alias lookup
  normalize.replace_branch_and_sequence_ids_with_cte_name             scope / order of the id lookup (+ the join special case)
  normalize.normalize                                                 order of the two lookups per identifier
  BaseDataFrame._create_hash_from_expression                          what goes into a CTE name (must be the SQL text only)
  BaseDataFrame._add_ctes_to_expression                               the uuid literal is inserted only on a CTE-name clash
  TypedColumnsFromTempViewMixin._typed_columns                        schema lookup through a TEMPORARY view named by a random id

Anything outside the recognised shapes raises Untranslatable (never a default).
"""
from __future__ import annotations

import ast
import typing as t

from translate import HEADER, Untranslatable, find_class, find_func, lean_str, parse


def _u(n: ast.AST) -> str:
    return ast.unparse(n)


def _b(v: bool) -> str:
    return "true" if v else "false"


def _body(fn: ast.FunctionDef) -> t.List[str]:
    return [_u(s) for s in fn.body if not (isinstance(s, ast.Expr) and isinstance(s.value, ast.Constant)) and not isinstance(s, (ast.Import, ast.ImportFrom))]


def _ids(repo: str) -> t.Dict[str, t.Any]:
    ob = "Gen.SessionIds.ids"
    ses = find_class(parse(repo, "sqlframe/base/session.py"), "_BaseSession")
    out: t.Dict[str, t.Any] = {}
    b = _body(find_func(ses.body, "_random_id"))
    if len(b) != 4 or b[1:] != ["normalized_id = self._normalize_string(id)", "self.known_ids.add(normalized_id)", "return normalized_id"]:
        raise Untranslatable(ob, f"_random_id body not recognised: {b}")
    if b[0] == "id = 'r' + uuid.uuid4().hex":
        out["source"], out["prefix"] = "uuid4", "r"
    elif b[0] in ("id = f'r{self.incrementing_id}'", "id = 'r' + str(self.incrementing_id)"):
        out["source"], out["prefix"] = "counter", "r"
    else:
        raise Untranslatable(ob, f"id source {b[0]!r}")
    for name, reg in (("_random_branch_id", "known_branch_ids"), ("_random_sequence_id", "known_sequence_ids")):
        bb = _body(find_func(ses.body, name))
        if bb != ["id = self._random_id", f"self.{reg}.add(id)", "return id"]:
            raise Untranslatable(ob, f"{name} body not recognised: {bb}")
    b = _body(find_func(ses.body, "_auto_incrementing_name"))
    if b != ["name = f'a{self.incrementing_id}'", "self.incrementing_id += 1", "return name"]:
        raise Untranslatable(ob, f"_auto_incrementing_name body not recognised: {b}")
    out["counter_prefix"], out["counter_step"] = "a", 1
    b = _body(find_func(ses.body, "_add_alias_to_mapping"))
    if b != ["self.name_to_sequence_id_mapping[self._normalize_string(name)].append(sequence_id)"]:
        raise Untranslatable(ob, f"_add_alias_to_mapping body not recognised: {b}")
    # __init__: the registries are created once (guarded), the counter starts at a literal
    init = find_func(ses.body, "__init__")
    guard = [s for s in init.body if isinstance(s, ast.If) and _u(s.test) == "not hasattr(self, 'input_dialect')"]
    if len(guard) != 1:
        raise Untranslatable(ob, "registries are not initialised under the `hasattr(self, 'input_dialect')` guard")
    start = None
    regs = set()
    for s in guard[0].body:
        if isinstance(s, (ast.Assign, ast.AnnAssign)):
            tgt = _u(s.targets[0] if isinstance(s, ast.Assign) else s.target)
            val = s.value
            if tgt == "self.incrementing_id":
                if not (isinstance(val, ast.Constant) and isinstance(val.value, int)):
                    raise Untranslatable(ob, "counter start is not an int literal")
                start = val.value
            if tgt in ("self.known_ids", "self.known_branch_ids", "self.known_sequence_ids", "self.name_to_sequence_id_mapping", "self.temp_views"):
                regs.add(tgt)
    if start is None or len(regs) != 5:
        raise Untranslatable(ob, f"registry initialisation not recognised (found {sorted(regs)})")
    out["counter_start"] = start
    return out


def _alias(repo: str) -> None:
    ob = "Gen.SessionIds.alias"
    df = find_class(parse(repo, "sqlframe/base/dataframe.py"), "BaseDataFrame")
    fn = find_func(df.body, "alias")
    b = _body(fn)
    need = ["new_sequence_id = self.session._random_sequence_id", "df = self.copy()", "df.session._add_alias_to_mapping(name, new_sequence_id)", "return df._convert_leaf_to_cte(sequence_id=new_sequence_id)"]
    rest = [s for s in b if not s.startswith("for join_hint in df.pending_join_hints")]
    if rest != need:
        raise Untranslatable(ob, f"alias body not recognised: {rest}")


def _lookups(repo: str) -> t.Dict[str, t.Any]:
    mod = parse(repo, "sqlframe/base/normalize.py")
    out: t.Dict[str, t.Any] = {}
    # --- alias lookup
    ob = "Gen.SessionIds.aliasLookup"
    fn = find_func(mod.body, "replace_alias_name_with_cte_name")
    b = [s for s in fn.body if not (isinstance(s, ast.Expr) and isinstance(s.value, ast.Constant))]
    if len(b) != 2 or _u(b[0]) != "normalized_id = session._normalize_string(id.alias_or_name)":
        raise Untranslatable(ob, "prologue not recognised")
    g = b[1]
    if not (isinstance(g, ast.If) and _u(g.test) == "normalized_id in session.name_to_sequence_id_mapping" and not g.orelse and len(g.body) == 1 and isinstance(g.body[0], ast.For)):
        raise Untranslatable(ob, "guard / loop not recognised")
    loop = g.body[0]
    it = _u(loop.iter)
    if it == "reversed(expression_context.ctes)":
        out["alias_scope"], out["alias_order"] = "expressionCtes", "latestFirst"
    elif it == "expression_context.ctes":
        out["alias_scope"], out["alias_order"] = "expressionCtes", "earliestFirst"
    else:
        raise Untranslatable(ob, f"the alias lookup iterates over {it!r}, not over the CTEs of the expression being normalised")
    if len(loop.body) != 1 or not isinstance(loop.body[0], ast.If):
        raise Untranslatable(ob, "loop body not recognised")
    t_ = loop.body[0]
    if _u(t_.test) == "cte.args['sequence_id'] in session.name_to_sequence_id_mapping[normalized_id]":
        out["alias_total"] = False
    elif _u(t_.test) == "cte.args.get('sequence_id') in session.name_to_sequence_id_mapping[normalized_id]":
        out["alias_total"] = True
    else:
        raise Untranslatable(ob, f"match rule {_u(t_.test)!r}")
    if [_u(s) for s in t_.body] != ["_set_alias_name(id, cte.alias_or_name)", "break"]:
        raise Untranslatable(ob, "match action not recognised")
    # --- id lookup
    ob = "Gen.SessionIds.idLookup"
    fn = find_func(mod.body, "replace_branch_and_sequence_ids_with_cte_name")
    b = [s for s in fn.body if not (isinstance(s, ast.Expr) and isinstance(s.value, ast.Constant))]
    if len(b) != 2 or _u(b[0]) != "normalized_id = session._normalize_string(id.alias_or_name)":
        raise Untranslatable(ob, "prologue not recognised")
    g = b[1]
    if not (isinstance(g, ast.If) and _u(g.test) == "normalized_id in session.known_ids" and not g.orelse):
        raise Untranslatable(ob, "guard not recognised")
    loops = [s for s in g.body if isinstance(s, ast.For)]
    specials = [s for s in g.body if isinstance(s, ast.If)]
    if len(loops) != 1 or len(g.body) != len(loops) + len(specials) or len(specials) > 1:
        raise Untranslatable(ob, "body not recognised")
    out["join_special"] = False
    if specials:
        if _u(specials[0].test) != "expression_context.args.get('joins') and normalized_id in session.known_branch_ids":
            raise Untranslatable(ob, f"special case {_u(specials[0].test)!r}")
        out["join_special"] = True
    loop = loops[0]
    it = _u(loop.iter)
    if it == "reversed(expression_context.ctes)":
        out["id_scope"], out["id_order"] = "expressionCtes", "latestFirst"
    elif it == "expression_context.ctes":
        out["id_scope"], out["id_order"] = "expressionCtes", "earliestFirst"
    else:
        raise Untranslatable(ob, f"the id lookup iterates over {it!r}, not over the CTEs of the expression being normalised")
    t_ = loop.body[0]
    if len(loop.body) != 1 or not isinstance(t_, ast.If):
        raise Untranslatable(ob, "match rule not recognised")
    if _u(t_.test) == "normalized_id in (cte.args['branch_id'], cte.args['sequence_id'])":
        out["id_total"] = False
    elif _u(t_.test) == "normalized_id in (cte.args.get('branch_id'), cte.args.get('sequence_id'))":
        out["id_total"] = True
    else:
        raise Untranslatable(ob, f"match rule {_u(t_.test)!r}")
    if [_u(s) for s in t_.body] != ["_set_alias_name(id, cte.alias_or_name)", "return"]:
        raise Untranslatable(ob, "match action not recognised")
    # --- order of the two lookups
    ob = "Gen.SessionIds.normalize"
    fn = find_func(mod.body, "normalize")
    inner = [n for n in ast.walk(fn) if isinstance(n, ast.For) and _u(n.target) == "identifier"]
    if len(inner) != 1:
        raise Untranslatable(ob, "identifier loop not found")
    calls = [_u(s) for s in inner[0].body]
    want = [
        "identifier.transform(session.input_dialect.normalize_identifier)",
        "replace_alias_name_with_cte_name(session, expression_context, identifier)",
        "replace_branch_and_sequence_ids_with_cte_name(session, expression_context, identifier)",
    ]
    if calls != want:
        raise Untranslatable(ob, f"identifier loop body {calls}")
    return out


HASH_PARTS = {
    "expression.sql(dialect=_BaseSession().input_dialect).encode('utf-8')": ["sqlText"],
    "expression.sql(dialect=self.session.input_dialect).encode('utf-8')": ["sqlText"],
}


def _hash(repo: str) -> t.Dict[str, t.Any]:
    ob = "Gen.SessionIds.hash"
    df = find_class(parse(repo, "sqlframe/base/dataframe.py"), "BaseDataFrame")
    fn = find_func(df.body, "_create_hash_from_expression")
    b = _body(fn)
    if len(b) != 3 or not b[0].startswith("value = "):
        raise Untranslatable(ob, f"body not recognised: {b}")
    src = b[0][len("value = ") :]
    if src not in HASH_PARTS:
        raise Untranslatable(ob, f"the hash input is {src!r}: not just the SQL text of the expression")
    if b[1] != "hash = f't{zlib.crc32(value)}'[:9]":
        raise Untranslatable(ob, f"hash function {b[1]!r}")
    if b[2] != "return self.session._normalize_string(hash)":
        raise Untranslatable(ob, f"hash result {b[2]!r}")
    # the disambiguating literal
    ob2 = "Gen.SessionIds.clashLiteral"
    fn = find_func(df.body, "_add_ctes_to_expression")
    lits = [n for n in ast.walk(fn) if isinstance(n, ast.Assign) and _u(n.targets[0]) == "random_filter"]
    if len(lits) != 1 or _u(lits[0].value) != "exp.Literal.string(uuid.uuid4().hex)":
        raise Untranslatable(ob2, "random filter literal not recognised")
    guards = [n for n in ast.walk(fn) if isinstance(n, ast.If) and lits[0] in n.body]
    if len(guards) != 1 or _u(guards[0].test) != "cte.alias_or_name in existing_cte_names":
        raise Untranslatable(ob2, "the literal is not guarded by the CTE-name clash test")
    return {"parts": HASH_PARTS[src], "prefix": "t", "len": 9}


def _typed_columns(repo: str) -> t.Dict[str, bool]:
    ob = "Gen.SessionIds.typedColumns"
    mix = find_class(parse(repo, "sqlframe/base/mixins/dataframe_mixins.py"), "TypedColumnsFromTempViewMixin")
    fn = find_func(mix.body, "_typed_columns")
    b = _body(fn)
    if len(b) != 3 or b[0] != "table = exp.to_table(self.session._random_id)":
        raise Untranslatable(ob, f"body not recognised: {b[:1]}")
    create = b[1]
    if not create.startswith("self.session._collect(exp.Create(this=table, kind='VIEW', replace=True"):
        raise Untranslatable(ob, "the lookup does not create a VIEW")
    temporary = "exp.TemporaryProperty()" in create
    if "listColumns" not in b[2]:
        raise Untranslatable(ob, "columns are not read back with listColumns")
    return {"uses_view": True, "temporary": temporary}


def gen_session_ids(repo: str) -> str:
    ids = _ids(repo)
    _alias(repo)
    lk = _lookups(repo)
    hs = _hash(repo)
    tc = _typed_columns(repo)
    out = [HEADER, "namespace Sqlframe.Gen", ""]
    out.append("inductive SessIdSource | uuid4 | counter deriving DecidableEq, Repr")
    out.append("inductive SessLookupScope | expressionCtes | sessionWide deriving DecidableEq, Repr")
    out.append("inductive SessLookupOrder | latestFirst | earliestFirst deriving DecidableEq, Repr")
    out.append("inductive SessHashPart | sqlText | randomId | sequenceId | counterValue deriving DecidableEq, Repr")
    out.append("")
    out.append("/-- `_random_id`: `'r' + uuid.uuid4().hex`, recorded in `known_ids` -/")
    out.append(f"def sessIdSource : SessIdSource := .{ids['source']}")
    out.append(f"def sessIdPrefix : String := {lean_str(ids['prefix'])}")
    out.append("/-- `_auto_incrementing_name`: f'a{incrementing_id}', then += 1 -/")
    out.append(f"def sessCounterPrefix : String := {lean_str(ids['counter_prefix'])}")
    out.append(f"def sessCounterStart : Nat := {ids['counter_start']}")
    out.append(f"def sessCounterStep : Nat := {ids['counter_step']}")
    out.append("/-- `alias(name)` draws a fresh sequence id and appends it to `name_to_sequence_id_mapping[name]` -/")
    out.append("def sessAliasAppendsFreshSeq : Bool := true")
    out.append("/-- alias lookup: `for cte in reversed(expression_context.ctes): if cte.sequence_id in mapping[name]` -/")
    out.append(f"def sessAliasScope : SessLookupScope := .{lk['alias_scope']}")
    out.append(f"def sessAliasOrder : SessLookupOrder := .{lk['alias_order']}")
    out.append("/-- id lookup: `for cte in reversed(expression_context.ctes): if id in (cte.branch_id, cte.sequence_id)` -/")
    out.append(f"def sessIdScope : SessLookupScope := .{lk['id_scope']}")
    out.append(f"def sessIdOrder : SessLookupOrder := .{lk['id_order']}")
    out.append(f"def sessIdJoinSpecialCase : Bool := {_b(lk['join_special'])}")
    out.append("/-- the lookups read the ids with `.get(…)`: a CTE without ids (from the text of a session.sql statement) is skipped, not a KeyError -/")
    out.append(f"def sessLookupTotal : Bool := {_b(lk['alias_total'] and lk['id_total'])}")
    out.append("/-- what `_create_hash_from_expression` feeds to CRC32 -/")
    out.append("def sessHashParts : List SessHashPart := [" + ", ".join("." + p for p in hs["parts"]) + "]")
    out.append(f"def sessHashPrefix : String := {lean_str(hs['prefix'])}")
    out.append(f"def sessHashLen : Nat := {hs['len']}")
    out.append("/-- the uuid literal of `_add_ctes_to_expression` is inserted only when a CTE name is already taken -/")
    out.append("def sessLiteralOnlyOnClash : Bool := true")
    out.append("/-- `_typed_columns` creates a view named by a random id; is it TEMPORARY? -/")
    out.append(f"def sessSchemaViaView : Bool := {_b(tc['uses_view'])}")
    out.append(f"def sessSchemaViewTemporary : Bool := {_b(tc['temporary'])}")
    out.append("")
    out.append("end Sqlframe.Gen")
    return "\n".join(out) + "\n"


GENERATORS = {"SessionIds": gen_session_ids}
