"""
gen_c18.py — translator part of C18 (a pipeline's meaning does not depend on session history; reproducible SQL).

Python `ast` of /repo's working tree -> lean/SqlframeModel/Gen/SessionIds.lean

Extracted decisions:
  _BaseSession._random_id / _random_branch_id / _random_sequence_id   how ids are produced (uuid4 vs counter), which
                                                                      registries they are recorded in
  _BaseSession._auto_incrementing_name                                the VALUES alias counter
  _BaseSession._add_alias_to_mapping, BaseDataFrame.alias             alias(name) draws a fresh sequence id and appends it
  normalize.replace_alias_name_with_cte_name                          scope / order / match rule of the alias lookup
  normalize.replace_branch_and_sequence_ids_with_cte_name             scope / order of the id lookup (+ the join special case)
  normalize.normalize                                                 order of the two lookups per identifier
  BaseDataFrame._create_hash_from_expression                          what goes into a CTE name (must be the SQL text only)
  BaseDataFrame._add_ctes_to_expression                               the uuid literal is inserted only on a CTE-name clash
  TypedColumnsFromTempViewMixin._typed_columns                        schema lookup through a TEMPORARY view named by a random id
  BaseDataFrame._ensure_and_normalize_col / _ensure_and_normalize_cols  is the caller's Column copied before `normalize` rewrites it,
                                                                      against which expression is it normalised
  Column.copy, normalize._ensure_expressions / _set_alias_name        the copy is deep; normalize works in place on the tree it is given
  _BaseSession.sql                                                    the arguments of sqlglot's `qualify`: the schema is the catalog's, the
                                                                      `infer_schema` argument as a boolean expression over the session state
  _BaseDataFrameReader.table, _BaseCatalog.add_table                  a table lookup caches the columns; known columns are kept unless replace=True
  _BaseSession.read, BaseDataFrame.write / na / stat                  the builder objects are created anew at every access (plain @property around a constructor)
  every method of BaseDataFrame                                       does it edit `self.expression` in place (a sqlglot builder call with copy=False, or .set / .append / .pop
                                                                      on it)?  The @operation wrapper hands the method the receiver itself, not a copy

Anything outside the recognised shapes raises Untranslatable (never a default).
"""
from __future__ import annotations

import ast
import typing as t

from translate import HEADER, Untranslatable, find_class, find_func, lean_str, parse


def _u(n: ast.AST) -> str:
    return ast.unparse(n)


def _b(v: bool) -> str:
    return "true" if v else "false"


def _body(fn: ast.FunctionDef) -> t.List[str]:
    return [_u(s) for s in fn.body if not (isinstance(s, ast.Expr) and isinstance(s.value, ast.Constant)) and not isinstance(s, (ast.Import, ast.ImportFrom))]


def _ids(repo: str) -> t.Dict[str, t.Any]:
    ob = "Gen.SessionIds.ids"
    ses = find_class(parse(repo, "sqlframe/base/session.py"), "_BaseSession")
    out: t.Dict[str, t.Any] = {}
    b = _body(find_func(ses.body, "_random_id"))
    if len(b) != 4 or b[1:] != ["normalized_id = self._normalize_string(id)", "self.known_ids.add(normalized_id)", "return normalized_id"]:
        raise Untranslatable(ob, f"_random_id body not recognised: {b}")
    if b[0] == "id = 'r' + uuid.uuid4().hex":
        out["source"], out["prefix"] = "uuid4", "r"
    elif b[0] in ("id = f'r{self.incrementing_id}'", "id = 'r' + str(self.incrementing_id)"):
        out["source"], out["prefix"] = "counter", "r"
    else:
        raise Untranslatable(ob, f"id source {b[0]!r}")
    for name, reg in (("_random_branch_id", "known_branch_ids"), ("_random_sequence_id", "known_sequence_ids")):
        bb = _body(find_func(ses.body, name))
        if bb != ["id = self._random_id", f"self.{reg}.add(id)", "return id"]:
            raise Untranslatable(ob, f"{name} body not recognised: {bb}")
    b = _body(find_func(ses.body, "_auto_incrementing_name"))
    if b != ["name = f'a{self.incrementing_id}'", "self.incrementing_id += 1", "return name"]:
        raise Untranslatable(ob, f"_auto_incrementing_name body not recognised: {b}")
    out["counter_prefix"], out["counter_step"] = "a", 1
    b = _body(find_func(ses.body, "_add_alias_to_mapping"))
    if b != ["self.name_to_sequence_id_mapping[self._normalize_string(name)].append(sequence_id)"]:
        raise Untranslatable(ob, f"_add_alias_to_mapping body not recognised: {b}")
    # __init__: the registries are created once (guarded), the counter starts at a literal
    init = find_func(ses.body, "__init__")
    guard = [s for s in init.body if isinstance(s, ast.If) and _u(s.test) == "not hasattr(self, 'input_dialect')"]
    if len(guard) != 1:
        raise Untranslatable(ob, "registries are not initialised under the `hasattr(self, 'input_dialect')` guard")
    start = None
    regs = set()
    for s in guard[0].body:
        if isinstance(s, (ast.Assign, ast.AnnAssign)):
            tgt = _u(s.targets[0] if isinstance(s, ast.Assign) else s.target)
            val = s.value
            if tgt == "self.incrementing_id":
                if not (isinstance(val, ast.Constant) and isinstance(val.value, int)):
                    raise Untranslatable(ob, "counter start is not an int literal")
                start = val.value
            if tgt in ("self.known_ids", "self.known_branch_ids", "self.known_sequence_ids", "self.name_to_sequence_id_mapping", "self.temp_views"):
                regs.add(tgt)
    if start is None or len(regs) != 5:
        raise Untranslatable(ob, f"registry initialisation not recognised (found {sorted(regs)})")
    out["counter_start"] = start
    return out


def _alias(repo: str) -> None:
    ob = "Gen.SessionIds.alias"
    df = find_class(parse(repo, "sqlframe/base/dataframe.py"), "BaseDataFrame")
    fn = find_func(df.body, "alias")
    b = _body(fn)
    need = ["new_sequence_id = self.session._random_sequence_id", "df = self.copy()", "df.session._add_alias_to_mapping(name, new_sequence_id)", "return df._convert_leaf_to_cte(sequence_id=new_sequence_id)"]
    rest = [s for s in b if not s.startswith("for join_hint in df.pending_join_hints")]
    if rest != need:
        raise Untranslatable(ob, f"alias body not recognised: {rest}")


def _lookups(repo: str) -> t.Dict[str, t.Any]:
    mod = parse(repo, "sqlframe/base/normalize.py")
    out: t.Dict[str, t.Any] = {}
    # --- alias lookup
    ob = "Gen.SessionIds.aliasLookup"
    fn = find_func(mod.body, "replace_alias_name_with_cte_name")
    b = [s for s in fn.body if not (isinstance(s, ast.Expr) and isinstance(s.value, ast.Constant))]
    if len(b) != 2 or _u(b[0]) != "normalized_id = session._normalize_string(id.alias_or_name)":
        raise Untranslatable(ob, "prologue not recognised")
    g = b[1]
    if not (isinstance(g, ast.If) and _u(g.test) == "normalized_id in session.name_to_sequence_id_mapping" and not g.orelse and len(g.body) == 1 and isinstance(g.body[0], ast.For)):
        raise Untranslatable(ob, "guard / loop not recognised")
    loop = g.body[0]
    it = _u(loop.iter)
    if it == "reversed(expression_context.ctes)":
        out["alias_scope"], out["alias_order"] = "expressionCtes", "latestFirst"
    elif it == "expression_context.ctes":
        out["alias_scope"], out["alias_order"] = "expressionCtes", "earliestFirst"
    else:
        raise Untranslatable(ob, f"the alias lookup iterates over {it!r}, not over the CTEs of the expression being normalised")
    if len(loop.body) != 1 or not isinstance(loop.body[0], ast.If):
        raise Untranslatable(ob, "loop body not recognised")
    t_ = loop.body[0]
    if _u(t_.test) == "cte.args['sequence_id'] in session.name_to_sequence_id_mapping[normalized_id]":
        out["alias_total"] = False
    elif _u(t_.test) == "cte.args.get('sequence_id') in session.name_to_sequence_id_mapping[normalized_id]":
        out["alias_total"] = True
    else:
        raise Untranslatable(ob, f"match rule {_u(t_.test)!r}")
    if [_u(s) for s in t_.body] != ["_set_alias_name(id, cte.alias_or_name)", "break"]:
        raise Untranslatable(ob, "match action not recognised")
    # --- id lookup
    ob = "Gen.SessionIds.idLookup"
    fn = find_func(mod.body, "replace_branch_and_sequence_ids_with_cte_name")
    b = [s for s in fn.body if not (isinstance(s, ast.Expr) and isinstance(s.value, ast.Constant))]
    if len(b) != 2 or _u(b[0]) != "normalized_id = session._normalize_string(id.alias_or_name)":
        raise Untranslatable(ob, "prologue not recognised")
    g = b[1]
    if not (isinstance(g, ast.If) and _u(g.test) == "normalized_id in session.known_ids" and not g.orelse):
        raise Untranslatable(ob, "guard not recognised")
    loops = [s for s in g.body if isinstance(s, ast.For)]
    specials = [s for s in g.body if isinstance(s, ast.If)]
    if len(loops) != 1 or len(g.body) != len(loops) + len(specials) or len(specials) > 1:
        raise Untranslatable(ob, "body not recognised")
    out["join_special"] = False
    if specials:
        if _u(specials[0].test) != "expression_context.args.get('joins') and normalized_id in session.known_branch_ids":
            raise Untranslatable(ob, f"special case {_u(specials[0].test)!r}")
        out["join_special"] = True
    loop = loops[0]
    it = _u(loop.iter)
    if it == "reversed(expression_context.ctes)":
        out["id_scope"], out["id_order"] = "expressionCtes", "latestFirst"
    elif it == "expression_context.ctes":
        out["id_scope"], out["id_order"] = "expressionCtes", "earliestFirst"
    else:
        raise Untranslatable(ob, f"the id lookup iterates over {it!r}, not over the CTEs of the expression being normalised")
    t_ = loop.body[0]
    if len(loop.body) != 1 or not isinstance(t_, ast.If):
        raise Untranslatable(ob, "match rule not recognised")
    if _u(t_.test) == "normalized_id in (cte.args['branch_id'], cte.args['sequence_id'])":
        out["id_total"] = False
    elif _u(t_.test) == "normalized_id in (cte.args.get('branch_id'), cte.args.get('sequence_id'))":
        out["id_total"] = True
    else:
        raise Untranslatable(ob, f"match rule {_u(t_.test)!r}")
    if [_u(s) for s in t_.body] != ["_set_alias_name(id, cte.alias_or_name)", "return"]:
        raise Untranslatable(ob, "match action not recognised")
    # --- order of the two lookups
    ob = "Gen.SessionIds.normalize"
    fn = find_func(mod.body, "normalize")
    inner = [n for n in ast.walk(fn) if isinstance(n, ast.For) and _u(n.target) == "identifier"]
    if len(inner) != 1:
        raise Untranslatable(ob, "identifier loop not found")
    calls = [_u(s) for s in inner[0].body]
    want = [
        "identifier.transform(session.input_dialect.normalize_identifier)",
        "replace_alias_name_with_cte_name(session, expression_context, identifier)",
        "replace_branch_and_sequence_ids_with_cte_name(session, expression_context, identifier)",
    ]
    if calls != want:
        raise Untranslatable(ob, f"identifier loop body {calls}")
    return out


HASH_PARTS = {
    "expression.sql(dialect=_BaseSession().input_dialect).encode('utf-8')": ["sqlText"],
    "expression.sql(dialect=self.session.input_dialect).encode('utf-8')": ["sqlText"],
}


def _hash(repo: str) -> t.Dict[str, t.Any]:
    ob = "Gen.SessionIds.hash"
    df = find_class(parse(repo, "sqlframe/base/dataframe.py"), "BaseDataFrame")
    fn = find_func(df.body, "_create_hash_from_expression")
    b = _body(fn)
    if len(b) != 3 or not b[0].startswith("value = "):
        raise Untranslatable(ob, f"body not recognised: {b}")
    src = b[0][len("value = ") :]
    if src not in HASH_PARTS:
        raise Untranslatable(ob, f"the hash input is {src!r}: not just the SQL text of the expression")
    if b[1] != "hash = f't{zlib.crc32(value)}'[:9]":
        raise Untranslatable(ob, f"hash function {b[1]!r}")
    if b[2] != "return self.session._normalize_string(hash)":
        raise Untranslatable(ob, f"hash result {b[2]!r}")
    # the disambiguating literal
    ob2 = "Gen.SessionIds.clashLiteral"
    fn = find_func(df.body, "_add_ctes_to_expression")
    lits = [n for n in ast.walk(fn) if isinstance(n, ast.Assign) and _u(n.targets[0]) == "random_filter"]
    if len(lits) != 1 or _u(lits[0].value) != "exp.Literal.string(uuid.uuid4().hex)":
        raise Untranslatable(ob2, "random filter literal not recognised")
    guards = [n for n in ast.walk(fn) if isinstance(n, ast.If) and lits[0] in n.body]
    if len(guards) != 1 or _u(guards[0].test) != "cte.alias_or_name in existing_cte_names":
        raise Untranslatable(ob2, "the literal is not guarded by the CTE-name clash test")
    return {"parts": HASH_PARTS[src], "prefix": "t", "len": 9}


def _typed_columns(repo: str) -> t.Dict[str, bool]:
    ob = "Gen.SessionIds.typedColumns"
    mix = find_class(parse(repo, "sqlframe/base/mixins/dataframe_mixins.py"), "TypedColumnsFromTempViewMixin")
    fn = find_func(mix.body, "_typed_columns")
    b = _body(fn)
    if len(b) != 3 or b[0] != "table = exp.to_table(self.session._random_id)":
        raise Untranslatable(ob, f"body not recognised: {b[:1]}")
    create = b[1]
    if not create.startswith("self.session._collect(exp.Create(this=table, kind='VIEW', replace=True"):
        raise Untranslatable(ob, "the lookup does not create a VIEW")
    temporary = "exp.TemporaryProperty()" in create
    if "listColumns" not in b[2]:
        raise Untranslatable(ob, "columns are not read back with listColumns")
    return {"uses_view": True, "temporary": temporary}


def _normalize_paths(repo: str) -> t.Dict[str, t.Any]:
    """which object does `normalize` rewrite on the two paths every DataFrame method goes through?"""
    df = find_class(parse(repo, "sqlframe/base/dataframe.py"), "BaseDataFrame")
    out: t.Dict[str, t.Any] = {}
    shapes = {
        "single": {
            "Column.ensure_col(col).copy()": True,
            "Column.ensure_col(col)": False,
        },
        "multi": {
            "[col.copy() for col in self._ensure_list_of_columns(cols)]": True,
            "self._ensure_list_of_columns(cols)": False,
            "[col for col in self._ensure_list_of_columns(cols)]": False,
            "list(self._ensure_list_of_columns(cols))": False,
        },
    }
    contexts = {"single": {"self.expression"}, "multi": {"expression or self.expression"}}
    for key, fname in (("single", "_ensure_and_normalize_col"), ("multi", "_ensure_and_normalize_cols")):
        ob = f"Gen.SessionIds.normalizePath.{fname}"
        fn = find_func(df.body, fname)
        calls = [n for n in ast.walk(fn) if isinstance(n, ast.Call) and isinstance(n.func, ast.Name) and n.func.id == "normalize"]
        if len(calls) != 1 or len(calls[0].args) != 3 or calls[0].keywords:
            raise Untranslatable(ob, "expected exactly one call normalize(session, expression, cols)")
        a_sess, a_ctx, a_cols = calls[0].args
        if _u(a_sess) != "self.session":
            raise Untranslatable(ob, f"normalize is given the session {_u(a_sess)!r}")
        if _u(a_ctx) not in contexts[key]:
            raise Untranslatable(ob, f"normalize works against {_u(a_ctx)!r}, not against the DataFrame's own expression")
        if not isinstance(a_cols, ast.Name):
            raise Untranslatable(ob, "normalize's third argument is not a local name")
        assigns = [
            n
            for n in ast.walk(fn)
            if isinstance(n, ast.Assign) and len(n.targets) == 1 and isinstance(n.targets[0], ast.Name) and n.targets[0].id == a_cols.id and n.lineno < calls[0].lineno
        ]
        if not assigns:
            out[key] = False  # the caller's own object is normalised
            continue
        src = _u(max(assigns, key=lambda n: n.lineno).value)
        if src not in shapes[key]:
            raise Untranslatable(ob, f"the value handed to normalize is {src!r}: not a recognised shape")
        out[key] = shapes[key][src]
    # Column.copy
    ob = "Gen.SessionIds.columnCopy"
    col = find_class(parse(repo, "sqlframe/base/column.py"), "Column")
    b = _body(find_func(col.body, "copy"))
    if b == ["return Column(self.expression.copy())"]:
        out["copy_deep"] = True
    elif b in (["return Column(self.expression)"], ["return self"]):
        out["copy_deep"] = False
    else:
        raise Untranslatable(ob, f"Column.copy body not recognised: {b}")
    # normalize works in place on the expression of the Column it is given
    ob = "Gen.SessionIds.normalizeInPlace"
    mod = parse(repo, "sqlframe/base/normalize.py")
    b = _body(find_func(mod.body, "_set_alias_name"))
    if b != ["id.set('this', name)", "id.set('quoted', False)"]:
        raise Untranslatable(ob, f"_set_alias_name body not recognised: {b}")
    ens = find_func(mod.body, "_ensure_expressions")
    appends = sorted(_u(n.args[0]) for n in ast.walk(ens) if isinstance(n, ast.Call) and isinstance(n.func, ast.Attribute) and n.func.attr == "append" and n.args)
    if appends != sorted(["Column.ensure_col(value).expression", "value.expression", "value"]):
        raise Untranslatable(ob, f"_ensure_expressions collects {appends}")
    return out


def _bool_expr(node: ast.AST, ob: str) -> str:
    """a boolean expression over the session state -> Lean over `tempViews` (the session holds a temp view) and
    `schemaEmpty` (the catalog schema knows no table)"""
    if isinstance(node, ast.Constant) and isinstance(node.value, bool):
        return "true" if node.value else "false"
    if isinstance(node, ast.UnaryOp) and isinstance(node.op, ast.Not):
        return f"(!{_bool_expr(node.operand, ob)})"
    if isinstance(node, ast.BoolOp):
        op = " && " if isinstance(node.op, ast.And) else " || "
        return "(" + op.join(_bool_expr(v, ob) for v in node.values) + ")"
    if isinstance(node, ast.Call) and isinstance(node.func, ast.Name) and node.func.id == "bool" and len(node.args) == 1 and not node.keywords:
        return _bool_expr(node.args[0], ob)
    src = _u(node)
    if src == "self.temp_views":
        return "tempViews"
    if src in ("len(self.temp_views) > 0", "len(self.temp_views) != 0", "len(self.temp_views) >= 1"):
        return "tempViews"
    if src == "len(self.temp_views) == 0":
        return "(!tempViews)"
    if src == "self.catalog._schema.empty":
        return "schemaEmpty"
    raise Untranslatable(ob, f"boolean expression {src!r} over the session state is outside the recognised sub-language")


def _session_sql(repo: str) -> t.Dict[str, t.Any]:
    ob = "Gen.SessionIds.sqlQualify"
    ses = find_class(parse(repo, "sqlframe/base/session.py"), "_BaseSession")
    fn = find_func(ses.body, "sql")
    calls = [n for n in ast.walk(fn) if isinstance(n, ast.Call) and isinstance(n.func, ast.Name) and n.func.id == "qualify_func"]
    if len(calls) != 1:
        raise Untranslatable(ob, f"expected one qualify_func call in session.sql, found {len(calls)}")
    call = calls[0]
    if len(call.args) != 1 or _u(call.args[0]) != "expression":
        raise Untranslatable(ob, "qualify_func is not applied to the parsed statement")
    kws = {k.arg: k.value for k in call.keywords}
    if None in kws or set(kws) != {"dialect", "quote_identifiers", "identify", "schema", "infer_schema"}:
        raise Untranslatable(ob, f"qualify_func keyword arguments {sorted(str(k) for k in kws)}")
    if _u(kws["schema"]) != "self.catalog._schema":
        raise Untranslatable(ob, f"the statement is qualified against {_u(kws['schema'])!r}, not against the catalog's schema")
    for k in ("quote_identifiers", "identify"):
        if not (isinstance(kws[k], ast.Constant) and kws[k].value is False):
            raise Untranslatable(ob, f"{k}={_u(kws[k])}")
    # the call sits directly under `if qualify:` (a parameter that defaults to True) in the function body
    guards = [s for s in fn.body if isinstance(s, ast.If) and any(n is call for n in ast.walk(s))]
    if len(guards) != 1 or _u(guards[0].test) != "qualify" or guards[0].orelse:
        raise Untranslatable(ob, "the qualify step is not guarded by the `qualify` parameter alone")
    params = {a.arg: d for a, d in zip(reversed(fn.args.args), reversed(fn.args.defaults))}
    if "qualify" not in params or not (isinstance(params["qualify"], ast.Constant) and params["qualify"].value is True):
        raise Untranslatable(ob, "the `qualify` parameter does not default to True")
    infer = _bool_expr(kws["infer_schema"], ob)
    # a table lookup caches the columns, and known columns win unless replace=True
    ob2 = "Gen.SessionIds.tableLookup"
    rd = find_class(parse(repo, "sqlframe/base/readerwriter.py"), "_BaseDataFrameReader")
    tb = find_func(rd.body, "table")
    adds = [n for n in ast.walk(tb) if isinstance(n, ast.Call) and isinstance(n.func, ast.Attribute) and n.func.attr == "add_table"]
    if len(adds) != 1 or _u(adds[0]) != "self.session.catalog.add_table(table)":
        raise Untranslatable(ob2, "reader.table does not call catalog.add_table(table)")
    cat = find_class(parse(repo, "sqlframe/base/catalog.py"), "_BaseCatalog")
    at = find_func(cat.body, "add_table")
    guards = [s for s in at.body if isinstance(s, ast.If) and len(s.body) == 1 and isinstance(s.body[0], ast.Return) and s.body[0].value is None]
    if len(guards) == 1 and _u(guards[0].test) == "not replace and self._schema.find(table)":
        keeps = True
    elif not guards:
        keeps = False
    else:
        raise Untranslatable(ob2, f"add_table's early return is guarded by {[_u(g.test) for g in guards]}")
    dflt = {a.arg: d for a, d in zip(reversed(at.args.args), reversed(at.args.defaults))}
    if "replace" not in dflt or not (isinstance(dflt["replace"], ast.Constant) and dflt["replace"].value is False):
        raise Untranslatable(ob2, "add_table's `replace` does not default to False")
    return {"infer": infer, "keeps": keeps}


ACCESSOR_BODIES = {
    "read": "return self._reader(self)",
    "write": "return self.session._writer(self)",
    "na": "return self._na(self)",
    "stat": "return self._stat(self)",
}


def _accessors(repo: str) -> t.Dict[str, bool]:
    """is the builder object behind each accessor created anew at every access?"""
    ses = find_class(parse(repo, "sqlframe/base/session.py"), "_BaseSession")
    df = find_class(parse(repo, "sqlframe/base/dataframe.py"), "BaseDataFrame")
    out: t.Dict[str, bool] = {}
    for name, cls in (("read", ses), ("write", df), ("na", df), ("stat", df)):
        ob = f"Gen.SessionIds.accessor.{name}"
        fn = find_func(cls.body, name)
        decos = [_u(d) for d in fn.decorator_list]
        b = _body(fn)
        if b != [ACCESSOR_BODIES[name]]:
            raise Untranslatable(ob, f"body not recognised: {b}")
        if decos == ["property"]:
            out[name] = True
        elif decos in (["cached_property"], ["functools.cached_property"], ["functools.cache"], ["property", "functools.cache"], ["property", "cache"]):
            out[name] = False
        else:
            raise Untranslatable(ob, f"decorators {decos}")
    return out


MUTATORS = {"set", "append", "pop", "replace", "update"}


def _rooted_at_own_expression(node: ast.AST, aliases: t.Set[str]) -> bool:
    """is this the receiver's own expression tree — `self.expression`, a local bound to it, or something reached
    from it through attribute access / builder calls that themselves work in place?"""
    while True:
        if isinstance(node, ast.Attribute):
            if _u(node) == "self.expression":
                return True
            node = node.value
        elif isinstance(node, ast.Subscript):
            node = node.value
        elif isinstance(node, ast.Call):
            # a builder call that copies (the default) yields a new tree; one with copy=False stays in the receiver's tree
            if any(k.arg == "copy" and isinstance(k.value, ast.Constant) and k.value.value is False for k in node.keywords):
                node = node.func
            else:
                return False
        elif isinstance(node, ast.Name):
            return node.id in aliases
        else:
            return False


def _in_place_methods(repo: str) -> t.List[str]:
    df = find_class(parse(repo, "sqlframe/base/dataframe.py"), "BaseDataFrame")
    bad: t.List[str] = []
    for fn in df.body:
        if not isinstance(fn, ast.FunctionDef):
            continue
        aliases = {
            n.targets[0].id
            for n in ast.walk(fn)
            if isinstance(n, ast.Assign) and len(n.targets) == 1 and isinstance(n.targets[0], ast.Name) and _u(n.value) == "self.expression"
        }
        hit = False
        for n in ast.walk(fn):
            if isinstance(n, ast.Call) and isinstance(n.func, ast.Attribute):
                in_place_kw = any(k.arg == "copy" and isinstance(k.value, ast.Constant) and k.value.value is False for k in n.keywords)
                dyn_kw = any(k.arg == "copy" and not isinstance(k.value, ast.Constant) for k in n.keywords)
                if _rooted_at_own_expression(n.func.value, aliases):
                    if dyn_kw:
                        raise Untranslatable("Gen.SessionIds.builders", f"{fn.name}: `copy=` of a builder call on self.expression is not a literal")
                    if in_place_kw or n.func.attr in MUTATORS:
                        hit = True
            if isinstance(n, (ast.Assign, ast.AugAssign)):
                tgts = n.targets if isinstance(n, ast.Assign) else [n.target]
                for tg in tgts:
                    if isinstance(tg, (ast.Subscript, ast.Attribute)) and _u(tg) != "self.expression" and _rooted_at_own_expression(tg.value if isinstance(tg, ast.Subscript) else tg.value, aliases):
                        hit = True
        # per-DataFrame state other than the tree: display names, pending hints, last_op, known uuids … written on `self`
        if fn.name not in ("__init__", "_update_display_name_mapping"):
            for n in ast.walk(fn):
                if isinstance(n, (ast.Assign, ast.AugAssign, ast.AnnAssign)):
                    tgts = n.targets if isinstance(n, ast.Assign) else [n.target]
                    for tg in tgts:
                        base = tg.value if isinstance(tg, ast.Subscript) else tg
                        if isinstance(base, ast.Attribute) and _u(base).startswith("self.") and not _u(base).startswith("self.session"):
                            hit = True
                if isinstance(n, ast.Call) and isinstance(n.func, ast.Attribute):
                    src = _u(n.func)
                    if src == "self._update_display_name_mapping":
                        hit = True
                    if n.func.attr in STATE_MUTATORS and src.startswith("self.") and not src.startswith("self.session") and src.count(".") == 2:
                        hit = True
        if hit:
            bad.append(fn.name)
    return sorted(set(bad))


STATE_MUTATORS = {"append", "remove", "update", "pop", "clear", "extend", "add", "discard", "insert", "setdefault"}


def gen_session_ids(repo: str) -> str:
    ids = _ids(repo)
    acc = _accessors(repo)
    inplace = _in_place_methods(repo)
    np_ = _normalize_paths(repo)
    sq = _session_sql(repo)
    _alias(repo)
    lk = _lookups(repo)
    hs = _hash(repo)
    tc = _typed_columns(repo)
    out = [HEADER, "namespace Sqlframe.Gen", ""]
    out.append("inductive SessIdSource | uuid4 | counter deriving DecidableEq, Repr")
    out.append("inductive SessLookupScope | expressionCtes | sessionWide deriving DecidableEq, Repr")
    out.append("inductive SessLookupOrder | latestFirst | earliestFirst deriving DecidableEq, Repr")
    out.append("inductive SessHashPart | sqlText | randomId | sequenceId | counterValue deriving DecidableEq, Repr")
    out.append("")
    out.append("/-- `_random_id`: `'r' + uuid.uuid4().hex`, recorded in `known_ids` -/")
    out.append(f"def sessIdSource : SessIdSource := .{ids['source']}")
    out.append(f"def sessIdPrefix : String := {lean_str(ids['prefix'])}")
    out.append("/-- `_auto_incrementing_name`: f'a{incrementing_id}', then += 1 -/")
    out.append(f"def sessCounterPrefix : String := {lean_str(ids['counter_prefix'])}")
    out.append(f"def sessCounterStart : Nat := {ids['counter_start']}")
    out.append(f"def sessCounterStep : Nat := {ids['counter_step']}")
    out.append("/-- `alias(name)` draws a fresh sequence id and appends it to `name_to_sequence_id_mapping[name]` -/")
    out.append("def sessAliasAppendsFreshSeq : Bool := true")
    out.append("/-- alias lookup: `for cte in reversed(expression_context.ctes): if cte.sequence_id in mapping[name]` -/")
    out.append(f"def sessAliasScope : SessLookupScope := .{lk['alias_scope']}")
    out.append(f"def sessAliasOrder : SessLookupOrder := .{lk['alias_order']}")
    out.append("/-- id lookup: `for cte in reversed(expression_context.ctes): if id in (cte.branch_id, cte.sequence_id)` -/")
    out.append(f"def sessIdScope : SessLookupScope := .{lk['id_scope']}")
    out.append(f"def sessIdOrder : SessLookupOrder := .{lk['id_order']}")
    out.append(f"def sessIdJoinSpecialCase : Bool := {_b(lk['join_special'])}")
    out.append("/-- the lookups read the ids with `.get(…)`: a CTE without ids (from the text of a session.sql statement) is skipped, not a KeyError -/")
    out.append(f"def sessLookupTotal : Bool := {_b(lk['alias_total'] and lk['id_total'])}")
    out.append("/-- what `_create_hash_from_expression` feeds to CRC32 -/")
    out.append("def sessHashParts : List SessHashPart := [" + ", ".join("." + p for p in hs["parts"]) + "]")
    out.append(f"def sessHashPrefix : String := {lean_str(hs['prefix'])}")
    out.append(f"def sessHashLen : Nat := {hs['len']}")
    out.append("/-- the uuid literal of `_add_ctes_to_expression` is inserted only when a CTE name is already taken -/")
    out.append("def sessLiteralOnlyOnClash : Bool := true")
    out.append("/-- `_typed_columns` creates a view named by a random id; is it TEMPORARY? -/")
    out.append(f"def sessSchemaViaView : Bool := {_b(tc['uses_view'])}")
    out.append(f"def sessSchemaViewTemporary : Bool := {_b(tc['temporary'])}")
    out.append("/-- `_ensure_and_normalize_col` (where / withColumn / …) and `_ensure_and_normalize_cols` (select / join / orderBy / …):")
    out.append("    is `normalize`, which rewrites identifiers in place, given a copy of the caller's Column? -/")
    out.append(f"def sessNormColCopies : Bool := {_b(np_['single'])}")
    out.append(f"def sessNormColsCopies : Bool := {_b(np_['multi'])}")
    out.append("/-- `Column.copy` copies the expression tree -/")
    out.append(f"def sessColumnCopyDeep : Bool := {_b(np_['copy_deep'])}")
    out.append("set_option linter.unusedVariables false in")
    out.append("/-- the `infer_schema` argument `session.sql` hands to sqlglot's `qualify` (with `schema=self.catalog._schema`),")
    out.append("    as a function of: the session holds a temp view; the catalog schema knows no table -/")
    out.append(f"def sessSqlInferSchema (tempViews schemaEmpty : Bool) : Bool := {sq['infer']}")
    out.append("/-- `session.table(<permanent table>)` caches the table's columns; `add_table` keeps known columns unless replace=True -/")
    out.append(f"def sessLookupKeepsKnownCols : Bool := {_b(sq['keeps'])}")
    out.append("/-- the builder objects behind `session.read`, `df.write`, `df.na`, `df.stat` are created anew at every access -/")
    out.append(f"def sessReadFresh : Bool := {_b(acc['read'])}")
    out.append(f"def sessWriteFresh : Bool := {_b(acc['write'])}")
    out.append(f"def sessNaFresh : Bool := {_b(acc['na'])}")
    out.append(f"def sessStatFresh : Bool := {_b(acc['stat'])}")
    out.append("/-- methods of BaseDataFrame that write on their receiver: edit `self.expression` in place (builder call with copy=False, .set / .append / … on it), or write per-DataFrame state (display names via `self._update_display_name_mapping`, pending hints, last_op, … assigned / mutated on `self`) -/")
    out.append("def sessInPlaceBuilderMethods : List String := [" + ", ".join(lean_str(m) for m in inplace) + "]")
    out.append("")
    out.append("end Sqlframe.Gen")
    return "\n".join(out) + "\n"


GENERATORS = {"SessionIds": gen_session_ids}
