#!/venv/bin/python
"""
seed_par.py — re-evaluate recorded seeded changes against the current checks, several at a time.

usage: seed_par.py [-j N] [--no-record] <seed name | property | 'all' | 'missed'> ...

Every seed gets its own scratch worktree of /repo's HEAD (under /root/scratch/seed/<name>/wt), its own copy of
lean/ (Gen + build output: VERIF_LEAN_DIR) and its own output directory (VERIF_OUT), so that runs against different
trees do not disturb each other or the checks of /repo itself.  For each seed: the demonstration is run on the clean
worktree (must pass) and on the patched one (must fail), then the property's quick check runs on the patched tree.
Results go to seeded/<name>/meta.json ("confirmed") and the first replay to seeded/<name>/replay_from_check.json.
Scratch directories are removed afterwards.
"""
from __future__ import annotations

import concurrent.futures as cf
import json
import os
import shutil
import subprocess
import sys
import time

VERIF = os.path.dirname(os.path.dirname(os.path.abspath(__file__)))
SCRATCH = "/root/scratch/seed"
PY = "/venv/bin/python"


def sh(cmd, **kw):
    return subprocess.run(cmd, capture_output=True, text=True, **kw)


SUITE = [False]


def run_suite(wt: str) -> str:
    """the pinned suite in the patched worktree: which baseline-passing tests no longer pass"""
    import tempfile
    import xml.etree.ElementTree as ET

    b = json.load(open("/root/.vp/BASELINE.json"))
    out = tempfile.mktemp(suffix=".xml")
    cmd = b["cmd"].replace("<file>", out).replace("cd /repo", "cd " + wt)
    subprocess.run(cmd, shell=True, stdout=subprocess.DEVNULL, stderr=subprocess.DEVNULL, env=dict(os.environ, PYTHONPATH=wt))
    passed = set()
    try:
        for tc in ET.parse(out).getroot().iter("testcase"):
            if not any(ch.tag in ("failure", "error", "skipped") for ch in tc):
                passed.add(f"{tc.get('classname')}::{tc.get('name')}")
    finally:
        if os.path.exists(out):
            os.remove(out)
    stable = set(b["stable_pass"])
    missing = sorted(stable - passed)
    return f"baseline {len(stable)}, passing with the patch {len(passed)}, baseline tests no longer passing {len(missing)}" + (f" (first: {missing[0]})" if missing else "")


def evaluate(name: str, record: bool, tier: str, workers: int) -> dict:
    if os.path.isdir(name) and os.path.exists(os.path.join(name, "patch.diff")):
        # an unrecorded candidate: <dir>/patch.diff [+ demo.py, meta.json]; never recorded
        d, record = os.path.abspath(name), False
        name = os.path.basename(os.path.dirname(d + "/")) + "_" + os.path.basename(d.rstrip("/"))
        if not os.path.exists(os.path.join(d, "demo.py")):
            open(os.path.join(d, "demo.py"), "w").write("print('PASS')\n")
    else:
        d = os.path.join(VERIF, "seeded", name)
    meta = json.load(open(os.path.join(d, "meta.json"))) if os.path.exists(os.path.join(d, "meta.json")) else {}
    prop = os.environ.get("SEED_CHECK") or meta.get("caught_by_check") or meta.get("property") or name.split("-")[0]
    base = os.path.join(SCRATCH, name)
    wt, lean, out = os.path.join(base, "wt"), os.path.join(base, "lean"), os.path.join(base, "out")
    sh(["git", "-C", "/repo", "worktree", "remove", "--force", wt])
    shutil.rmtree(base, ignore_errors=True)
    os.makedirs(base, exist_ok=True)
    res: dict = {"name": name, "prop": prop}
    t0 = time.time()
    try:
        p = sh(["git", "-C", "/repo", "worktree", "add", "--detach", wt, "HEAD"])
        if p.returncode:
            res["error"] = "worktree: " + p.stderr[-300:]
            return res
        sh(["rsync", "-a", os.path.join(VERIF, "lean") + "/", lean + "/"])
        env = dict(os.environ, REPO_UNDER_TEST=wt)
        demo = os.path.join(d, "demo.py")
        c = sh([PY, demo], env=env, timeout=900)
        clean = ((c.stdout + c.stderr).strip().split("\n") or [""])[-1][:200]
        a = sh(["git", "-C", wt, "apply", os.path.join(d, "patch.diff")])
        if a.returncode:
            a = subprocess.run("patch -p1 -s -F3 --no-backup-if-mismatch < " + os.path.join(d, "patch.diff"), shell=True, cwd=wt, capture_output=True, text=True)
            if a.returncode:
                res["error"] = "PATCH DOES NOT APPLY"
                return res
        c2 = sh([PY, demo], env=env, timeout=900)
        lines = [ln for ln in (c2.stdout + c2.stderr).split("\n") if "fail" in ln.lower() or "pass" in ln.lower()]
        patched = (lines[0] if lines else "")[:200]
        res["demo_clean_rc"], res["demo_patched_rc"] = c.returncode, c2.returncode
        suite = None
        if SUITE[0]:
            suite = run_suite(wt)
            res["suite"] = suite
            if meta.get("mutant") and "no longer passing 0" not in suite:
                res.update(clean=clean, patched=patched, check=[], detected=True, concrete=True, rc=-1, wall=round(time.time() - t0, 1), killed_by_suite=True)
                return res
        cenv = dict(os.environ, VERIF_REPO=wt, VERIF_LEAN_DIR=lean, VERIF_OUT=out, VERIF_WORKERS=str(workers))
        k = sh([os.path.join(VERIF, "check"), prop, "--tier", tier], env=cenv, timeout=3600)
        outl = [ln for ln in k.stdout.split("\n") if ln and not ln.startswith("KNOWN")]
        check = outl[-4:]
        vio = [ln for ln in outl if ln.startswith("VIOLATION")]
        detected = bool(vio)
        concrete = any("no-failing-input-found" not in ln for ln in vio)
        res.update(clean=clean, patched=patched, check=check, detected=detected, concrete=concrete, rc=k.returncode, wall=round(time.time() - t0, 1))
        if k.returncode not in (0, 1):
            res["stderr_tail"] = k.stderr[-1500:]
        if record:
            rp = os.path.join(d, "replay_from_check.json")
            if os.path.exists(rp):
                os.remove(rp)
            first = None
            for ln in vio:
                if "no-failing-input-found" not in ln:
                    first = ln
                    break
            first = first or (vio[0] if vio else None)
            if first:
                rel = first.split("replay=")[1].split()[0]
                src = os.path.join(out, rel)
                if os.path.exists(src):
                    shutil.copy(src, rp)
            meta["property"] = meta.get("property", prop)
            meta["confirmed"] = {
                "repo_head": sh(["git", "-C", "/repo", "rev-parse", "--short", "HEAD"]).stdout.strip(),
                "demo_on_clean_tree": clean,
                "demo_with_patch": patched,
                "ran": ["REPO_UNDER_TEST=<worktree> /venv/bin/python demo.py (clean, then patched)",
                        f"VERIF_REPO=<patched worktree> ./check {prop} --tier {tier}"],
                **({"pinned_suite_with_patch": suite} if suite is not None else ({"pinned_suite_with_patch": meta.get("confirmed", {}).get("pinned_suite_with_patch")} if meta.get("confirmed", {}).get("pinned_suite_with_patch") else {})),
                "check_output": check,
                "detected": detected,
                "concrete_replay": concrete,
            }
            json.dump(meta, open(os.path.join(d, "meta.json"), "w"), indent=1)
        return res
    except subprocess.TimeoutExpired as e:
        res["error"] = f"timeout: {e}"
        return res
    finally:
        sh(["git", "-C", "/repo", "worktree", "remove", "--force", wt])
        shutil.rmtree(base, ignore_errors=True)
        sh(["git", "-C", "/repo", "worktree", "prune"])


def main() -> int:
    args = sys.argv[1:]
    j, record, tier = 4, True, "quick"
    names = []
    all_seeds = sorted(os.listdir(os.path.join(VERIF, "seeded")))
    i = 0
    while i < len(args):
        a = args[i]
        if a == "-j":
            j = int(args[i + 1]); i += 2; continue
        if a == "--no-record":
            record = False; i += 1; continue
        if a == "--suite":
            SUITE[0] = True; i += 1; continue
        if a == "--thorough":
            tier = "thorough"; i += 1; continue
        if a == "all":
            names += all_seeds
        elif a == "missed":
            for n in all_seeds:
                m = json.load(open(os.path.join(VERIF, "seeded", n, "meta.json"))).get("confirmed", {})
                if not (m.get("detected") and m.get("concrete_replay")):
                    names.append(n)
        elif a in all_seeds or os.path.isdir(a):
            names.append(a)
        else:
            names += [n for n in all_seeds if n.startswith(a + "-")]
        i += 1
    names = list(dict.fromkeys(names))
    workers = max(2, 16 // max(1, min(j, len(names))))
    print(f"{len(names)} seeds, {j} at a time, {workers} workers each", flush=True)
    bad = 0
    with cf.ThreadPoolExecutor(max_workers=j) as ex:
        futs = {ex.submit(evaluate, n, record, tier, workers): n for n in names}
        for f in cf.as_completed(futs):
            r = f.result()
            if "error" in r:
                print(f"{r['name']}: ERROR {r['error']}", flush=True)
                bad += 1
                continue
            status = "killed by the pinned suite" if r.get("killed_by_suite") else "concrete replay" if r["concrete"] else ("broken obligation only" if r["detected"] else "MISSED")
            demo_ok = r["clean"].upper().startswith("PASS") or "PASS" in r["clean"].upper()
            flag = "" if (demo_ok and "FAIL" in r["patched"].upper()) else f"  [demo clean={r['clean']!r} patched={r['patched']!r}]"
            print(f"{r['name']} ({r['prop']}): {status}; rc={r['rc']}; {r['wall']}s{flag}" + (f"  suite: {r['suite']}" if r.get("suite") else ""), flush=True)
            if r.get("stderr_tail"):
                print("   stderr:", r["stderr_tail"].replace("\n", "\n   "), flush=True)
    return 1 if bad else 0


if __name__ == "__main__":
    sys.exit(main())
