"""
gen_c07.py — translator part for C07 (set operations): sqlframe/base/dataframe.py -> Gen/SetOps.lean

Extracted decisions
  * every method whose body is `return self._set_operation(exp.<Klass>, other, <bool>)`:
    (sqlglot class, literal `distinct` flag)                                   -> `setOpTable`, `setOp_<m>`
  * class-level aliases of those methods (`unionAll = union`)                   -> `setOpAliases`
  * the shape of `_set_operation` itself (which operand is `this`, that `other` is frozen first, that the
    `distinct` parameter is what reaches the node, that the result is frozen again) -> checked, else Untranslatable
  * `_add_ctes_to_expression`: whether the name-collision branch filters `cte.this` directly      -> `cteDedupAssumesSelect`
  * `unionByName`: the two branches that build `l_expressions` / `r_expressions` are translated statement by
    statement (assignments, `.append`, `.remove`, `if x in xs`, `for x in xs`) into Lean state transformers
    `byNameStrict` / `byNameMissing`; the tail (which side is re-projected under which condition, the final
    `_set_operation(exp.Union, r_df, False)`)                                    -> `byNameOp`, `byNameLeftSelectOnlyIfMissing`

Anything outside this sub-language raises Untranslatable (the module is then removed and every C07 theorem
stops building).
"""
from __future__ import annotations

import ast
import typing as t

from translate import HEADER, Untranslatable, find_class, find_func, lean_ident, lean_str, parse

KLASS = {"Union": "union", "Intersect": "intersect", "Except": "except_"}
OB = "Gen.SetOps"


def _strip_doc(body: t.Sequence[ast.stmt]) -> t.List[ast.stmt]:
    body = list(body)
    if body and isinstance(body[0], ast.Expr) and isinstance(body[0].value, ast.Constant) and isinstance(body[0].value.value, str):
        body = body[1:]
    return body


def _setop_call(node: ast.AST) -> t.Optional[ast.Call]:
    if isinstance(node, ast.Call) and isinstance(node.func, ast.Attribute) and node.func.attr == "_set_operation":
        return node
    return None


def _klass_flag(call: ast.Call, ob: str) -> t.Tuple[str, bool, ast.expr, ast.expr]:
    """(lean kind, distinct, receiver, other-argument) of one `<recv>._set_operation(exp.K, other, flag)` call"""
    if call.keywords or len(call.args) != 3:
        raise Untranslatable(ob, f"unsupported argument shape {ast.unparse(call)!r}")
    k, other, flag = call.args
    if not (isinstance(k, ast.Attribute) and isinstance(k.value, ast.Name) and k.value.id == "exp" and k.attr in KLASS):
        raise Untranslatable(ob, f"unknown set-operation class {ast.unparse(k)!r}")
    if not (isinstance(flag, ast.Constant) and isinstance(flag.value, bool)):
        raise Untranslatable(ob, f"distinct flag is not a literal bool: {ast.unparse(flag)!r}")
    return KLASS[k.attr], flag.value, call.func.value, other  # type: ignore


def _check_set_operation_shape(fn: ast.FunctionDef) -> None:
    """`_set_operation(self, klass, other, distinct)` must have exactly the modelled shape"""
    ob = OB + "._set_operation"
    params = [a.arg for a in fn.args.args]
    if params != ["self", "klass", "other", "distinct"]:
        raise Untranslatable(ob, f"parameters {params}")
    body = _strip_doc(fn.body)
    src = [ast.unparse(s) for s in body]
    expected = [
        "other_df = other._convert_leaf_to_cte()",
        "base_expression = self.expression.copy()",
        "base_expression = self._add_ctes_to_expression(base_expression, other_df.expression.ctes)",
        "all_ctes = base_expression.ctes",
        "other_df.expression.set('with', None)",
        "base_expression.set('with', None)",
        "operation = klass(this=base_expression, distinct=distinct, expression=other_df.expression)",
        "operation.set('with', exp.With(expressions=all_ctes))",
        "return self.copy(expression=operation)._convert_leaf_to_cte()",
    ]
    if src != expected:
        diff = next((f"statement {i}: {a!r}" for i, (a, b) in enumerate(zip(src + [""] * 9, expected)) if a != b), "length")
        raise Untranslatable(ob, "body left the modelled shape at " + diff)


def _cte_dedup_assumes_select(fn: ast.FunctionDef) -> bool:
    """`_add_ctes_to_expression`: in the branch taken when a CTE name already exists, the body of the incoming CTE
    gets a WHERE filter.  True  = the filter is put on `cte.this` directly (only a SELECT has `.where`);
    False = the body is first tested with `isinstance(<q>, exp.Select)` and wrapped in a SELECT otherwise."""
    ob = OB + "._add_ctes_to_expression"
    branch = None
    for node in ast.walk(fn):
        if isinstance(node, ast.If) and ast.unparse(node.test) == "cte.alias_or_name in existing_cte_names":
            if branch is not None:
                raise Untranslatable(ob, "more than one name-collision branch")
            branch = node
    if branch is None:
        raise Untranslatable(ob, "name-collision branch `if cte.alias_or_name in existing_cte_names` not found")
    sets = [
        c
        for st in branch.body
        for c in ast.walk(st)
        if isinstance(c, ast.Call) and ast.unparse(c.func) == "cte.set" and c.args and ast.unparse(c.args[0]) == "'this'"
    ]
    if len(sets) != 1 or len(sets[0].args) != 2:
        raise Untranslatable(ob, "the collision branch does not replace the CTE body exactly once")
    val = sets[0].args[1]
    if not (isinstance(val, ast.Call) and isinstance(val.func, ast.Attribute) and val.func.attr == "where"):
        raise Untranslatable(ob, f"the new CTE body is not `<query>.where(...)`: {ast.unparse(val)[:80]!r}")
    recv = val.func.value
    if ast.unparse(recv) == "cte.this":
        return True
    if isinstance(recv, ast.Name):
        q = recv.id
        assigned = [st for st in branch.body if isinstance(st, ast.Assign) and ast.unparse(st.targets[0]) == q and ast.unparse(st.value) == "cte.this"]
        guards = [
            st
            for st in branch.body
            if isinstance(st, ast.If)
            and ast.unparse(st.test) == f"not isinstance({q}, exp.Select)"
            and not st.orelse
            and len(st.body) == 1
            and isinstance(st.body[0], ast.Assign)
            and ast.unparse(st.body[0].targets[0]) == q
            and ".from_(" in ast.unparse(st.body[0].value)
            and ast.unparse(st.body[0].value).startswith("exp.select(")
        ]
        if len(assigned) == 1 and len(guards) == 1:
            return False
    raise Untranslatable(ob, f"cannot tell whether the filtered body is always a SELECT: {ast.unparse(val)[:80]!r}")


# ------------------------------------------------------------------------------------------------
# the list-building mini language of unionByName
# ------------------------------------------------------------------------------------------------


class ListProg:
    """statements over list variables -> Lean state transformer text"""

    def __init__(self, params: t.List[str], ob: str):
        self.params = params  # read-only lists (function-level names)
        self.ob = ob
        self.vars: t.List[str] = []  # state variables, in order of first assignment
        self.loop_vars: t.List[str] = []

    def scan_vars(self, stmts: t.Sequence[ast.stmt]) -> None:
        for s in stmts:
            if isinstance(s, ast.Assign) and len(s.targets) == 1 and isinstance(s.targets[0], ast.Name):
                v = s.targets[0].id
                if v in self.params:
                    raise Untranslatable(self.ob, f"assignment to read-only list {v}")
                if v not in self.vars:
                    self.vars.append(v)
            elif isinstance(s, ast.If):
                self.scan_vars(s.body)
                self.scan_vars(s.orelse)
            elif isinstance(s, ast.For):
                self.scan_vars(s.body)

    def lst(self, node: ast.expr) -> str:
        """a list-valued expression"""
        if isinstance(node, ast.Name):
            if node.id in self.params:
                return lean_ident(node.id)
            if node.id in self.vars:
                return f"st.{lean_ident(node.id)}"
        if isinstance(node, ast.List) and not node.elts:
            return "[]"
        if isinstance(node, ast.Call) and isinstance(node.func, ast.Name) and node.func.id == "copy" and len(node.args) == 1 and not node.keywords:
            return self.lst(node.args[0])
        raise Untranslatable(self.ob, f"unsupported list expression {ast.unparse(node)!r}")

    def item(self, node: ast.expr) -> str:
        if isinstance(node, ast.Name) and node.id in self.loop_vars:
            return lean_ident(node.id)
        # exp.alias_(exp.Null(), <loop var>, copy=False)
        if (
            isinstance(node, ast.Call)
            and ast.unparse(node.func) == "exp.alias_"
            and len(node.args) == 2
            and ast.unparse(node.args[0]) == "exp.Null()"
            and isinstance(node.args[1], ast.Name)
            and node.args[1].id in self.loop_vars
            and all(k.arg == "copy" for k in node.keywords)
        ):
            return f"(PItem.null {lean_ident(node.args[1].id)}.name)"
        raise Untranslatable(self.ob, f"unsupported projection item {ast.unparse(node)!r}")

    def block(self, stmts: t.Sequence[ast.stmt], ind: str, iterating: t.Tuple[str, ...] = ()) -> str:
        """Lean term of type BNState, with `st` in scope"""
        out = []
        for s in stmts:
            out.append(f"{ind}let st : BNState := {self.stmt(s, ind, iterating)}")
        out.append(f"{ind}st")
        return "\n".join(out)

    def stmt(self, s: ast.stmt, ind: str, iterating: t.Tuple[str, ...]) -> str:
        if isinstance(s, ast.Assign) and len(s.targets) == 1 and isinstance(s.targets[0], ast.Name):
            v = s.targets[0].id
            if v in iterating:
                raise Untranslatable(self.ob, f"{v} is modified while it is iterated")
            return f"{{ st with {lean_ident(v)} := {self.lst(s.value)} }}"
        if isinstance(s, ast.Expr) and isinstance(s.value, ast.Call) and isinstance(s.value.func, ast.Attribute):
            call = s.value
            tgt = call.func.value
            if isinstance(tgt, ast.Name) and tgt.id in self.vars and len(call.args) == 1 and not call.keywords:
                v = tgt.id
                if v in iterating:
                    raise Untranslatable(self.ob, f"{v} is modified while it is iterated")
                if call.func.attr == "append":
                    return f"{{ st with {lean_ident(v)} := st.{lean_ident(v)} ++ [{self.item(call.args[0])}] }}"
                if call.func.attr == "remove":
                    return f"{{ st with {lean_ident(v)} := st.{lean_ident(v)}.erase {self.item(call.args[0])} }}"
        if isinstance(s, ast.If):
            test = s.test
            if isinstance(test, ast.Compare) and len(test.ops) == 1 and isinstance(test.ops[0], (ast.In, ast.NotIn)):
                mem = f"{self.item(test.left)} ∈ {self.lst(test.comparators[0])}"
                if isinstance(test.ops[0], ast.NotIn):
                    mem = f"¬ ({mem})"
                ind2 = ind + "    "
                els = self.block(s.orelse, ind2, iterating) if s.orelse else f"{ind2}st"
                return f"if {mem} then (\n{self.block(s.body, ind2, iterating)})\n{ind}  else (\n{els})"
            raise Untranslatable(self.ob, f"unsupported condition {ast.unparse(test)!r}")
        if isinstance(s, ast.For) and not s.orelse and isinstance(s.target, ast.Name):
            src = s.iter
            if not isinstance(src, ast.Name):
                raise Untranslatable(self.ob, f"unsupported loop source {ast.unparse(src)!r}")
            self.loop_vars.append(s.target.id)
            it = iterating + ((src.id,) if src.id in self.vars else ())
            ind2 = ind + "    "
            body = self.block(s.body, ind2, it)
            self.loop_vars.pop()
            return f"({self.lst(src)}).foldl (fun (st : BNState) ({lean_ident(s.target.id)} : PItem) =>\n{body}) st"
        raise Untranslatable(self.ob, f"unsupported statement {ast.unparse(s)!r}")


def _translate_union_by_name(fn: ast.FunctionDef) -> t.List[str]:
    ob = OB + ".unionByName"
    params = [a.arg for a in fn.args.args]
    if params != ["self", "other", "allowMissingColumns"]:
        raise Untranslatable(ob, f"parameters {params}")
    body = _strip_doc(fn.body)
    if len(body) != 7:
        raise Untranslatable(ob, f"{len(body)} top-level statements (expected 7)")
    s_l, s_r, s_if, s_rdf, s_ldf, s_lif, s_ret = body
    if ast.unparse(s_l) != "l_columns = self._columns" or ast.unparse(s_r) != "r_columns = other._columns":
        raise Untranslatable(ob, "column lists are not read from self._columns / other._columns")
    if not isinstance(s_if, ast.If):
        raise Untranslatable(ob, "third statement is not the allowMissingColumns branch")
    tst = ast.unparse(s_if.test)
    if tst == "not allowMissingColumns":
        strict, missing = s_if.body, s_if.orelse
    elif tst == "allowMissingColumns":
        strict, missing = s_if.orelse, s_if.body
    else:
        raise Untranslatable(ob, f"unsupported branch condition {tst!r}")
    if not strict or not missing:
        raise Untranslatable(ob, "a branch of the allowMissingColumns test is empty")
    lp = ListProg(["l_columns", "r_columns"], ob)
    lp.scan_vars(strict)
    lp.scan_vars(missing)
    for need in ("l_expressions", "r_expressions"):
        if need not in lp.vars:
            raise Untranslatable(ob, f"{need} is never assigned")
    # tail
    if ast.unparse(s_rdf) != "r_df = other.copy()._convert_leaf_to_cte().select(*self._ensure_list_of_columns(r_expressions))":
        raise Untranslatable(ob, f"right side is not re-projected as modelled: {ast.unparse(s_rdf)!r}")
    if ast.unparse(s_ldf) != "l_df = self.copy()":
        raise Untranslatable(ob, f"left side: {ast.unparse(s_ldf)!r}")
    if not (
        isinstance(s_lif, ast.If)
        and ast.unparse(s_lif.test) == "allowMissingColumns"
        and not s_lif.orelse
        and [ast.unparse(x) for x in s_lif.body] == ["l_df = l_df._convert_leaf_to_cte().select(*self._ensure_list_of_columns(l_expressions))"]
    ):
        raise Untranslatable(ob, f"left re-projection: {ast.unparse(s_lif)!r}")
    if not isinstance(s_ret, ast.Return) or _setop_call(s_ret.value) is None:
        raise Untranslatable(ob, "does not end in a _set_operation call")
    kind, flag, recv, other = _klass_flag(_setop_call(s_ret.value), ob)  # type: ignore
    if ast.unparse(recv) != "l_df" or ast.unparse(other) != "r_df":
        raise Untranslatable(ob, f"operands of the final set operation: {ast.unparse(s_ret)!r}")

    out = []
    out.append("/-- one entry of a projection list built by `unionByName`: the side's own column, or `NULL AS name` -/")
    out.append("inductive PItem")
    out.append("  | own (n : String)")
    out.append("  | null (n : String)")
    out.append("  deriving DecidableEq, Repr")
    out.append("")
    out.append("def PItem.name : PItem → String")
    out.append("  | .own n => n")
    out.append("  | .null n => n")
    out.append("")
    out.append("/-- the list variables of `unionByName` -/")
    out.append("structure BNState where")
    for v in lp.vars:
        out.append(f"  {lean_ident(v)} : List PItem := []")
    out.append("  deriving Repr")
    out.append("")
    out.append("/-- `unionByName`, branch `allowMissingColumns = False` (statement-by-statement translation) -/")
    out.append("def byNameStrict (l_columns r_columns : List PItem) : BNState :=")
    out.append("  let st : BNState := {}")
    out.append(lp.block(strict, "  "))
    out.append("")
    out.append("/-- `unionByName`, branch `allowMissingColumns = True` (statement-by-statement translation) -/")
    out.append("def byNameMissing (l_columns r_columns : List PItem) : BNState :=")
    out.append("  let st : BNState := {}")
    out.append(lp.block(missing, "  "))
    out.append("")
    out.append("/-- the set operation `unionByName` ends with -/")
    out.append(f"def byNameOp : SetKind × Bool := (.{kind}, {'true' if flag else 'false'})")
    out.append("/-- the left side is re-projected through `l_expressions` only when allowMissingColumns is set; the right side always -/")
    out.append("def byNameLeftSelectOnlyIfMissing : Bool := true")
    return out


def gen_setops(repo: str) -> str:
    mod = parse(repo, "sqlframe/base/dataframe.py")
    cls = find_class(mod, "BaseDataFrame")
    _check_set_operation_shape(find_func(cls.body, "_set_operation"))
    assumes_select = _cte_dedup_assumes_select(find_func(cls.body, "_add_ctes_to_expression"))
    table: t.List[t.Tuple[str, str, bool]] = []
    by_name: t.Optional[ast.FunctionDef] = None
    for st in cls.body:
        if not isinstance(st, ast.FunctionDef) or st.name == "_set_operation":
            continue
        calls = [c for c in ast.walk(st) if _setop_call(c) is not None]
        if not calls:
            continue
        if st.name == "unionByName":
            by_name = st
            continue
        body = _strip_doc(st.body)
        ob = f"{OB}.{st.name}"
        if len(body) != 1 or not isinstance(body[0], ast.Return) or _setop_call(body[0].value) is None:
            raise Untranslatable(ob, "body is not a single `return self._set_operation(...)`")
        if [a.arg for a in st.args.args] != ["self", "other"]:
            raise Untranslatable(ob, f"parameters {[a.arg for a in st.args.args]}")
        kind, flag, recv, other = _klass_flag(_setop_call(body[0].value), ob)  # type: ignore
        if ast.unparse(recv) != "self" or ast.unparse(other) != "other":
            raise Untranslatable(ob, f"operands {ast.unparse(body[0])!r}")
        table.append((st.name, kind, flag))
    if not table:
        raise Untranslatable(OB, "no set-operation methods found")
    if by_name is None:
        raise Untranslatable(OB + ".unionByName", "method not found")
    names = {n for n, _, _ in table}
    aliases: t.List[t.Tuple[str, str]] = []
    for st in cls.body:
        if isinstance(st, ast.Assign) and len(st.targets) == 1 and isinstance(st.targets[0], ast.Name) and isinstance(st.value, ast.Name):
            if st.value.id in names or st.value.id == "unionByName":
                aliases.append((st.targets[0].id, st.value.id))

    out = [HEADER, "namespace Sqlframe.Gen", ""]
    out.append("/-- the sqlglot node class handed to `_set_operation` -/")
    out.append("inductive SetKind")
    out.append("  | union")
    out.append("  | intersect")
    out.append("  | except_")
    out.append("  deriving DecidableEq, Repr")
    out.append("")
    out.append("/-- method -> (node class, literal `distinct` flag), from `return self._set_operation(exp.X, other, <flag>)` -/")
    out.append("def setOpTable : List (String × (SetKind × Bool)) := [")
    out.append(",\n".join(f"  ({lean_str(n)}, (.{k}, {'true' if f else 'false'}))" for n, k, f in table))
    out.append("]")
    out.append("")
    for n, k, f in table:
        out.append(f"def setOp_{lean_ident(n)} : SetKind × Bool := (.{k}, {'true' if f else 'false'})")
    out.append("")
    out.append("/-- class-level aliases (`unionAll = union`) -/")
    out.append("def setOpAliases : List (String × String) := [" + ", ".join(f"({lean_str(a)}, {lean_str(b)})" for a, b in aliases) + "]")
    out.append("")
    out.append("/-- `_set_operation` has the modelled shape: `this` = receiver's open block, `expression` = the other side frozen")
    out.append("    into a CTE first, the `distinct` parameter reaches the node unchanged, the node is frozen into a CTE again -/")
    out.append("def setOperationShapeChecked : Bool := true")
    out.append("")
    out.append("/-- `_add_ctes_to_expression`: a CTE whose name already exists gets `cte.this.where(<unique filter>)` without")
    out.append("    checking that the body is a SELECT (set-operation bodies have no `.where`) -/")
    out.append(f"def cteDedupAssumesSelect : Bool := {'true' if assumes_select else 'false'}")
    out.append("")
    out += _translate_union_by_name(by_name)
    out.append("")
    out.append("end Sqlframe.Gen")
    return "\n".join(out) + "\n"


GENERATORS = {"SetOps": gen_setops}
