"""
gen_c12.py — translator part for C12: Gen/Engines.lean.

Reads with `ast` (nothing is imported):
  sqlframe/base/session.py    _BaseSession.SANITIZE_COLUMN_NAMES, the `_is_<engine>` defaults, the replacement chain of
                              `_sanitize_column_name` (and its guard), Builder.DEFAULT_{INPUT,OUTPUT,EXECUTION}_DIALECT,
                              which builder default each session dialect attribute is initialised from, the
                              (from_dialect, to_dialect) pair of `_to_sql`, of `_collect`'s result-column renormalisation
                              (and whether the reported names are marked case sensitive first), of `_to_value`'s map keys
  sqlframe/base/util.py       normalize_string: the symbolic-name table "input"/"output"/"execution" -> session attribute,
                              the order of the two normalize_identifiers calls, the dialect the text is rendered / quoted in
  sqlframe/<engine>/session.py  for EVERY engine package that has one: class-level SANITIZE_COLUMN_NAMES, the `_is_*`
                              overrides, the Builder's DEFAULT_* overrides, (spark) the pair in its own `_collect`
  sqlframe/base/*.py          the set of `_is_<engine>` names the function dispatch refers to
  sqlframe/base/functions.py  round(): on which call forms the Postgres branch casts the operand to NUMERIC

Anything outside these shapes raises Untranslatable (never a guess, never a default).
"""
from __future__ import annotations

import ast
import os
import typing as t

from translate import HEADER, Untranslatable, find_class, find_func, lean_str, parse

ROLES = ("input", "output", "execution")
ROLE_ATTR = {f"{r}_dialect": r for r in ROLES}
DEFAULT_ATTR = {f"DEFAULT_{r.upper()}_DIALECT": r for r in ROLES}


def _const(node: ast.expr, ty: type, ob: str, what: str) -> t.Any:
    if isinstance(node, ast.Constant) and type(node.value) is ty:
        return node.value
    raise Untranslatable(ob, f"{what} is not a literal {ty.__name__}: {ast.unparse(node)}")


def _class_consts(cls: ast.ClassDef, names: t.Iterable[str], ty: type, ob: str) -> t.Dict[str, t.Any]:
    out: t.Dict[str, t.Any] = {}
    for n in cls.body:
        targets: t.List[ast.expr] = []
        value = None
        if isinstance(n, ast.Assign):
            targets, value = n.targets, n.value
        elif isinstance(n, ast.AnnAssign) and n.value is not None:
            targets, value = [n.target], n.value
        for tg in targets:
            if isinstance(tg, ast.Name) and tg.id in names:
                if tg.id in out:
                    raise Untranslatable(ob, f"{cls.name}.{tg.id} assigned twice")
                out[tg.id] = _const(value, ty, ob, f"{cls.name}.{tg.id}")
    return out


def _is_flags(cls: ast.ClassDef, ob: str) -> t.Dict[str, bool]:
    """`@property def _is_x(self) -> bool: return <bool literal>`"""
    out: t.Dict[str, bool] = {}
    for n in cls.body:
        if isinstance(n, (ast.FunctionDef, ast.AsyncFunctionDef)) and n.name.startswith("_is_"):
            if not isinstance(n, ast.FunctionDef):
                raise Untranslatable(ob, f"{cls.name}.{n.name} is async")
            decos = [ast.unparse(d) for d in n.decorator_list]
            if decos != ["property"]:
                raise Untranslatable(ob, f"{cls.name}.{n.name} is not a plain property ({decos})")
            body = [s for s in n.body if not (isinstance(s, ast.Expr) and isinstance(s.value, ast.Constant))]
            if len(body) != 1 or not isinstance(body[0], ast.Return) or body[0].value is None:
                raise Untranslatable(ob, f"{cls.name}.{n.name} is not a single return")
            if n.name in out:
                raise Untranslatable(ob, f"{cls.name}.{n.name} defined twice")
            out[n.name] = _const(body[0].value, bool, ob, f"{cls.name}.{n.name}")
        elif isinstance(n, (ast.Assign, ast.AnnAssign)):
            tgs = n.targets if isinstance(n, ast.Assign) else [n.target]
            for tg in tgs:
                if isinstance(tg, ast.Name) and tg.id.startswith("_is_"):
                    raise Untranslatable(ob, f"{cls.name}.{tg.id} is assigned, not a property")
    return out


def _nested_builder(cls: ast.ClassDef, ob: str) -> t.Optional[ast.ClassDef]:
    found = [n for n in cls.body if isinstance(n, ast.ClassDef) and n.name == "Builder"]
    if len(found) > 1:
        raise Untranslatable(ob, f"{cls.name} has {len(found)} Builder classes")
    return found[0] if found else None


def _session_class(mod: ast.Module, ob: str) -> ast.ClassDef:
    """the class whose base is `_BaseSession[...]` (or `_BaseSession`)"""
    found = []
    for n in mod.body:
        if isinstance(n, ast.ClassDef):
            for b in n.bases:
                root = b.value if isinstance(b, ast.Subscript) else b
                if isinstance(root, ast.Name) and root.id == "_BaseSession":
                    found.append(n)
    if len(found) != 1:
        raise Untranslatable(ob, f"expected one _BaseSession subclass, found {[c.name for c in found]}")
    return found[0]


def _role_of(node: ast.expr, ob: str, what: str) -> t.Tuple[str, bool]:
    """`self.input_dialect` -> ("input", False); `dialect or self.execution_dialect` -> ("execution", True);
    the string "execution" -> ("execution", False)"""
    if isinstance(node, ast.Constant) and isinstance(node.value, str) and node.value in ROLES:
        return node.value, False
    if isinstance(node, ast.Attribute) and isinstance(node.value, ast.Name) and node.value.id == "self" and node.attr in ROLE_ATTR:
        return ROLE_ATTR[node.attr], False
    if isinstance(node, ast.BoolOp) and isinstance(node.op, ast.Or) and len(node.values) == 2:
        a, b = node.values
        if isinstance(a, ast.Name) and a.id == "dialect":
            r, o = _role_of(b, ob, what)
            if not o:
                return r, True
    raise Untranslatable(ob, f"{what}: unsupported dialect expression {ast.unparse(node)!r}")


def _normalize_string_calls(fn: ast.AST) -> t.List[ast.Call]:
    return [n for n in ast.walk(fn) if isinstance(n, ast.Call) and isinstance(n.func, ast.Name) and n.func.id == "normalize_string"]


def _pair(call: ast.Call, ob: str, what: str) -> t.Tuple[t.Tuple[str, bool], t.Tuple[str, bool], t.Dict[str, ast.expr]]:
    kws = {k.arg: k.value for k in call.keywords if k.arg}
    if "from_dialect" not in kws or "to_dialect" not in kws:
        raise Untranslatable(ob, f"{what}: normalize_string without explicit from_dialect=/to_dialect= ({ast.unparse(call)[:80]})")
    return _role_of(kws["from_dialect"], ob, what + ".from_dialect"), _role_of(kws["to_dialect"], ob, what + ".to_dialect"), kws


def _marks_case_sensitive(fn: ast.FunctionDef) -> bool:
    """`<id>._meta = {"case_sensitive": True, ...}` somewhere in the function"""
    for n in ast.walk(fn):
        if isinstance(n, ast.Assign) and len(n.targets) == 1 and isinstance(n.targets[0], ast.Attribute) and n.targets[0].attr == "_meta":
            if isinstance(n.value, ast.Dict):
                for k, v in zip(n.value.keys, n.value.values):
                    if isinstance(k, ast.Constant) and k.value == "case_sensitive" and isinstance(v, ast.Constant) and v.value is True:
                        return True
    return False


def _collect_pair(fn: ast.FunctionDef, ob: str) -> t.Tuple[str, str, bool, bool]:
    calls = _normalize_string_calls(fn)
    if len(calls) != 1:
        raise Untranslatable(ob, f"expected one normalize_string call in {fn.name}, found {len(calls)}")
    (fr, fo), (to, too), kws = _pair(calls[0], ob, fn.name)
    if fo or too:
        raise Untranslatable(ob, f"{fn.name}: renormalisation takes an override dialect")
    lit = kws.get("to_string_literal")
    if not (isinstance(lit, ast.Constant) and lit.value is True):
        raise Untranslatable(ob, f"{fn.name}: result names are not taken with to_string_literal=True")
    # the statements themselves go through self._to_sql(...)
    uses_to_sql = any(
        isinstance(n, ast.Call) and isinstance(n.func, ast.Attribute) and n.func.attr == "_to_sql" and isinstance(n.func.value, ast.Name) and n.func.value.id == "self"
        for n in ast.walk(fn)
    )
    return fr, to, _marks_case_sensitive(fn), uses_to_sql


def _sanitize(fn: ast.FunctionDef, ob: str) -> t.Tuple[t.List[t.Tuple[str, str]], bool]:
    """
    if self.SANITIZE_COLUMN_NAMES:
        return name.replace(a, b).replace(c, d)...
    return name
    """
    body = [s for s in fn.body if not (isinstance(s, ast.Expr) and isinstance(s.value, ast.Constant))]
    args = [a.arg for a in fn.args.args]
    if args != ["self", "name"]:
        raise Untranslatable(ob, f"unexpected parameters {args}")

    def chain(e: ast.expr) -> t.List[t.Tuple[str, str]]:
        if isinstance(e, ast.Name) and e.id == "name":
            return []
        if isinstance(e, ast.Call) and isinstance(e.func, ast.Attribute) and e.func.attr == "replace" and len(e.args) == 2 and not e.keywords:
            a = _const(e.args[0], str, ob, "replace() source")
            b = _const(e.args[1], str, ob, "replace() target")
            if len(a) != 1 or len(b) != 1:
                raise Untranslatable(ob, f"replacement {a!r}->{b!r} is not character for character")
            return chain(e.func.value) + [(a, b)]
        raise Untranslatable(ob, f"unsupported sanitising expression {ast.unparse(e)!r}")

    if len(body) == 2 and isinstance(body[0], ast.If) and not body[0].orelse and isinstance(body[1], ast.Return):
        if ast.unparse(body[0].test) != "self.SANITIZE_COLUMN_NAMES":
            raise Untranslatable(ob, f"unexpected guard {ast.unparse(body[0].test)!r}")
        if len(body[0].body) != 1 or not isinstance(body[0].body[0], ast.Return) or body[0].body[0].value is None:
            raise Untranslatable(ob, "guarded branch is not a single return")
        if body[1].value is None or ast.unparse(body[1].value) != "name":
            raise Untranslatable(ob, "fall-through does not return the name unchanged")
        return chain(body[0].body[0].value), True
    if len(body) == 1 and isinstance(body[0], ast.Return) and body[0].value is not None:
        return chain(body[0].value), False
    raise Untranslatable(ob, "unexpected body shape")


def _dialect_assignments(fn: ast.FunctionDef, lhs_prefix: str, ob: str) -> t.Dict[str, str]:
    """`<lhs_prefix>.<role>_dialect[: T] = [Dialect.get_or_raise(] <rhs> [)]` -> {role: unparsed rhs}"""
    out: t.Dict[str, str] = {}
    for n in ast.walk(fn):
        tg, val = None, None
        if isinstance(n, ast.Assign) and len(n.targets) == 1:
            tg, val = n.targets[0], n.value
        elif isinstance(n, ast.AnnAssign) and n.value is not None:
            tg, val = n.target, n.value
        if isinstance(tg, ast.Attribute) and tg.attr in ROLE_ATTR and ast.unparse(tg.value) == lhs_prefix:
            if isinstance(val, ast.Call) and ast.unparse(val.func) == "Dialect.get_or_raise" and len(val.args) == 1:
                val = val.args[0]
            role = ROLE_ATTR[tg.attr]
            if role in out:
                raise Untranslatable(ob, f"{fn.name}: {lhs_prefix}.{tg.attr} assigned twice")
            out[role] = ast.unparse(val)
    return out


def _roles_from(assign: t.Dict[str, str], rhs_to_role: t.Dict[str, str], ob: str, what: str) -> t.List[t.Tuple[str, str]]:
    res = []
    for role in ROLES:
        if role not in assign:
            raise Untranslatable(ob, f"{what}: {role}_dialect is not initialised")
        if assign[role] not in rhs_to_role:
            raise Untranslatable(ob, f"{what}: {role}_dialect initialised from unsupported {assign[role]!r}")
        res.append((role, rhs_to_role[assign[role]]))
    return res


def engine_dirs(repo: str) -> t.List[str]:
    root = os.path.join(repo, "sqlframe")
    return sorted(d for d in os.listdir(root) if d != "base" and os.path.isfile(os.path.join(root, d, "session.py")))


def flags_used(repo: str) -> t.List[str]:
    used: t.Set[str] = set()
    base = os.path.join(repo, "sqlframe", "base")
    for dirpath, _dirs, files in os.walk(base):
        for fn in sorted(files):
            if fn.endswith(".py"):
                rel = os.path.relpath(os.path.join(dirpath, fn), repo)
                for n in ast.walk(parse(repo, rel)):
                    if isinstance(n, ast.Attribute) and n.attr.startswith("_is_") and not n.attr.startswith("_is_pandas"):
                        used.add(n.attr)
    return sorted(used)


def round_decision(repo: str) -> t.Tuple[bool, bool]:
    """base/functions.round: is the operand cast to NUMERIC on a Postgres session (without a scale, with a scale)?

        session = _get_session()
        [if session._is_postgres: col = Column.ensure_col(col).cast("numeric")]
        if scale is not None:
            [if session._is_postgres: col = Column.ensure_col(col).cast("numeric")]
            return Column.invoke_expression_over_column(col, expression.Round, decimals=scale)
        [if session._is_postgres: col = ...cast("numeric")]
        return Column.invoke_expression_over_column(col, expression.Round)
    """
    ob = "Gen.Engines.round"
    fn = find_func(parse(repo, "sqlframe/base/functions.py").body, "round")
    if [a.arg for a in fn.args.args] != ["col", "scale"]:
        raise Untranslatable(ob, f"unexpected parameters {[a.arg for a in fn.args.args]}")
    body = [s for s in fn.body if not (isinstance(s, ast.Expr) and isinstance(s.value, ast.Constant))]
    if not body or ast.unparse(body[0]) != "session = _get_session()":
        raise Untranslatable(ob, "does not start with `session = _get_session()`")

    def is_pg_cast(st: ast.stmt) -> bool:
        if isinstance(st, ast.If) and not st.orelse and len(st.body) == 1:
            test = ast.unparse(st.test)
            if test.startswith("session._is_"):
                if test != "session._is_postgres":
                    raise Untranslatable(ob, f"an engine branch this translator does not know: {test}")
                if ast.unparse(st.body[0]) not in ("col = Column.ensure_col(col).cast('numeric')",):
                    raise Untranslatable(ob, f"unexpected Postgres branch {ast.unparse(st.body[0])!r}")
                return True
        return False

    def is_round_return(st: ast.stmt, with_scale: bool) -> bool:
        want = "return Column.invoke_expression_over_column(col, expression.Round" + (", decimals=scale)" if with_scale else ")")
        return isinstance(st, ast.Return) and ast.unparse(st) == want

    cast = False  # has `col` been cast on the Postgres path so far?
    with_scale: t.Optional[bool] = None
    no_scale: t.Optional[bool] = None
    for st in body[1:]:
        if no_scale is not None:
            raise Untranslatable(ob, "statements after the final return")
        if is_pg_cast(st):
            cast = True
        elif isinstance(st, ast.If) and ast.unparse(st.test) == "scale is not None" and not st.orelse and with_scale is None:
            inner = cast
            for j, s2 in enumerate(st.body):
                if is_pg_cast(s2):
                    inner = True
                elif is_round_return(s2, True) and j == len(st.body) - 1:
                    with_scale = inner
                else:
                    raise Untranslatable(ob, f"unexpected statement in the with-scale branch: {ast.unparse(s2)[:80]!r}")
            if with_scale is None:
                raise Untranslatable(ob, "the with-scale branch does not return")
        elif is_round_return(st, False):
            no_scale = cast
        else:
            raise Untranslatable(ob, f"unexpected statement {ast.unparse(st)[:80]!r}")
    if with_scale is None or no_scale is None:
        raise Untranslatable(ob, "round() does not have the two call forms")
    return no_scale, with_scale


def extract(repo: str) -> t.Dict[str, t.Any]:
    """everything the Lean text is rendered from (also used by the check to compare with the running code)"""
    ob = "Gen.Engines"
    base_mod = parse(repo, "sqlframe/base/session.py")
    base = find_class(base_mod, "_BaseSession")
    bsan = _class_consts(base, ["SANITIZE_COLUMN_NAMES"], bool, ob)
    if "SANITIZE_COLUMN_NAMES" not in bsan:
        raise Untranslatable(ob, "_BaseSession.SANITIZE_COLUMN_NAMES not found")
    bflags = _is_flags(base, ob)
    if not bflags:
        raise Untranslatable(ob, "no `_is_<engine>` property on _BaseSession")
    bb = _nested_builder(base, ob)
    if bb is None:
        raise Untranslatable(ob, "_BaseSession.Builder not found")
    bdef = _class_consts(bb, DEFAULT_ATTR, str, ob)
    if set(bdef) != set(DEFAULT_ATTR):
        raise Untranslatable(ob, f"_BaseSession.Builder defaults incomplete: {sorted(bdef)}")
    reps, guarded = _sanitize(find_func(base.body, "_sanitize_column_name"), ob + ".sanitize")

    # how the three dialect attributes are initialised
    init = _dialect_assignments(find_func(base.body, "__init__"), "self", ob)
    session_init = _roles_from(init, {f"self.builder.{k}": v for k, v in DEFAULT_ATTR.items()}, ob, "_BaseSession.__init__")
    binit = _dialect_assignments(find_func(bb.body, "__init__"), "self", ob)
    builder_init = _roles_from(binit, {f"self.{k}": v for k, v in DEFAULT_ATTR.items()}, ob, "Builder.__init__")
    bapply = _dialect_assignments(find_func(bb.body, "_set_session_properties"), "self.session", ob)
    builder_apply = _roles_from(bapply, {f"self.{k}": v for k, v in ROLE_ATTR.items()}, ob, "Builder._set_session_properties")

    # _to_sql
    to_sql = find_func(base.body, "_to_sql")
    body = [s for s in to_sql.body if not (isinstance(s, ast.Expr) and isinstance(s.value, ast.Constant))]
    if len(body) != 1 or not isinstance(body[0], ast.Return) or not isinstance(body[0].value, ast.Call):
        raise Untranslatable(ob + ".toSql", "_to_sql is not a single `return normalize_string(...)`")
    call = body[0].value
    if not (isinstance(call.func, ast.Name) and call.func.id == "normalize_string"):
        raise Untranslatable(ob + ".toSql", f"_to_sql returns {ast.unparse(call.func)}(...)")
    (ts_from, ts_from_o), (ts_to, ts_to_o), kws = _pair(call, ob + ".toSql", "_to_sql")
    if ts_from_o:
        raise Untranslatable(ob + ".toSql", "from_dialect takes the override")
    q = kws.get("is_query")
    if not (isinstance(q, ast.Constant) and q.value is True):
        raise Untranslatable(ob + ".toSql", "is_query=True missing")

    c_from, c_to, c_marks, c_uses = _collect_pair(find_func(base.body, "_collect"), ob + ".collect")
    if not c_uses:
        raise Untranslatable(ob + ".collect", "_collect does not render statements with self._to_sql")
    tv = _normalize_string_calls(find_func(base.body, "_to_value"))
    if len(tv) != 1:
        raise Untranslatable(ob + ".toValue", f"expected one normalize_string call in _to_value, found {len(tv)}")
    (mk_from, o1), (mk_to, o2), _ = _pair(tv[0], ob + ".toValue", "_to_value")
    if o1 or o2:
        raise Untranslatable(ob + ".toValue", "override dialect in _to_value")

    # util.normalize_string
    ns = find_func(parse(repo, "sqlframe/base/util.py").body, "normalize_string")
    obn = ob + ".normalizeString"
    table: t.Optional[t.List[t.Tuple[str, str]]] = None
    for n in ast.walk(ns):
        if isinstance(n, ast.Assign) and len(n.targets) == 1 and isinstance(n.targets[0], ast.Name) and n.targets[0].id == "str_to_dialect":
            if not isinstance(n.value, ast.Dict) or table is not None:
                raise Untranslatable(obn, "str_to_dialect is not one dict literal")
            table = []
            for k, v in zip(n.value.keys, n.value.values):
                key = _const(k, str, obn, "str_to_dialect key")
                if not (isinstance(v, ast.Attribute) and isinstance(v.value, ast.Name) and v.value.id == "session" and v.attr in ROLE_ATTR):
                    raise Untranslatable(obn, f"str_to_dialect[{key!r}] = {ast.unparse(v)}")
                table.append((key, ROLE_ATTR[v.attr]))
    if table is None:
        raise Untranslatable(obn, "str_to_dialect not found")
    # the Expression branch: normalize_identifiers(.., dialect=from_dialect) then (.., dialect=to_dialect); rendered / quoted in to_dialect
    order: t.List[str] = []
    render: t.List[str] = []
    quote: t.List[str] = []

    class V(ast.NodeVisitor):
        def visit_Call(self, c: ast.Call) -> None:
            self.generic_visit(c)
            kw = {k.arg: k.value for k in c.keywords if k.arg}
            d = kw.get("dialect")
            name = c.func.id if isinstance(c.func, ast.Name) else (c.func.attr if isinstance(c.func, ast.Attribute) else "")
            if name in ("normalize_identifiers", "quote_identifiers_func", "sql") and d is not None:
                if not (isinstance(d, ast.Name) and d.id in ("from_dialect", "to_dialect")):
                    raise Untranslatable(obn, f"{name}(dialect={ast.unparse(d)})")
                (order if name == "normalize_identifiers" else quote if name == "quote_identifiers_func" else render).append(d.id)

    V().visit(ns)
    if len(order) not in (1, 2) or len(render) != 1 or len(quote) != 1:
        raise Untranslatable(obn, f"unexpected call structure: normalize_identifiers x{len(order)}, .sql x{len(render)}, quote x{len(quote)}")
    # `if not to_dialect: to_dialect = from_dialect` and the symbolic resolution of both arguments
    src = ast.unparse(ns)
    for needed in (
        "from_dialect = str_to_dialect[from_dialect] if isinstance(from_dialect, str) else from_dialect",
        "to_dialect = str_to_dialect[to_dialect] if isinstance(to_dialect, str) else to_dialect",
    ):
        if needed not in src:
            raise Untranslatable(obn, f"missing statement: {needed}")

    engines = []
    for e in engine_dirs(repo):
        obe = f"{ob}.{e}"
        mod = parse(repo, f"sqlframe/{e}/session.py")
        cls = _session_class(mod, obe)
        san = _class_consts(cls, ["SANITIZE_COLUMN_NAMES"], bool, obe).get("SANITIZE_COLUMN_NAMES", bsan["SANITIZE_COLUMN_NAMES"])
        own = _is_flags(cls, obe)
        for f in own:
            if f not in bflags:
                raise Untranslatable(obe, f"{cls.name}.{f} has no default on _BaseSession")
        flags = [(f, own.get(f, bflags[f])) for f in sorted(bflags)]
        b = _nested_builder(cls, obe)
        if b is None:
            raise Untranslatable(obe, f"{cls.name}.Builder not found")
        if [ast.unparse(x) for x in b.bases] != ["_BaseSession.Builder"]:
            raise Untranslatable(obe, f"{cls.name}.Builder bases {[ast.unparse(x) for x in b.bases]}")
        d = dict(bdef)
        d.update(_class_consts(b, DEFAULT_ATTR, str, obe))
        row = {
            "engine": e,
            "cls": cls.name,
            "input": d["DEFAULT_INPUT_DIALECT"],
            "output": d["DEFAULT_OUTPUT_DIALECT"],
            "execution": d["DEFAULT_EXECUTION_DIALECT"],
            "sanitize": san,
            "flags": flags,
            "ownCollect": None,
        }
        # an engine that overrides _collect with its own renormalisation (spark)
        own_collect = [n for n in cls.body if isinstance(n, ast.FunctionDef) and n.name == "_collect"]
        if own_collect and _normalize_string_calls(own_collect[0]):
            fr, to, marks, uses = _collect_pair(own_collect[0], obe + ".collect")
            if not uses:
                raise Untranslatable(obe + ".collect", "statements are not rendered with self._to_sql")
            row["ownCollect"] = (fr, to, marks)
        elif own_collect:
            # must delegate to the base implementation
            if not any(isinstance(n, ast.Call) and ast.unparse(n.func) == "super()._collect" for n in ast.walk(own_collect[0])):
                raise Untranslatable(obe + ".collect", "overridden without delegating to super()._collect")
        for nm in ("_to_sql", "_sanitize_column_name", "_normalize_string"):
            if any(isinstance(n, ast.FunctionDef) and n.name == nm for n in cls.body):
                raise Untranslatable(obe, f"{cls.name} overrides {nm}")
        engines.append(row)

    return {
        "baseSanitize": bsan["SANITIZE_COLUMN_NAMES"],
        "baseFlags": sorted(bflags.items()),
        "baseDefaults": {DEFAULT_ATTR[k]: v for k, v in bdef.items()},
        "replacements": reps,
        "sanitizeGuarded": guarded,
        "sessionInit": session_init,
        "builderInit": builder_init,
        "builderApply": builder_apply,
        "toSql": (ts_from, ts_to, ts_to_o),
        "collect": (c_from, c_to, c_marks),
        "mapKey": (mk_from, mk_to),
        "strToDialect": table,
        "normalizeOrder": order,
        "renderIn": render[0],
        "quoteIn": quote[0],
        "engines": engines,
        "flagsUsed": flags_used(repo),
        "roundPgCast": round_decision(repo),
    }


def lean_char(c: str) -> str:
    return f"Char.ofNat {ord(c)}"


def gen_engines(repo: str) -> str:
    x = extract(repo)

    def role(r: str) -> str:
        return "." + r

    def b(v: bool) -> str:
        return "true" if v else "false"

    def side(s: str) -> str:
        return ".from_" if s == "from_dialect" else ".to_"

    out = [HEADER, "namespace Sqlframe.Gen", ""]
    out.append("/-- the three dialects a session carries -/")
    out.append("inductive DialRole | input | output | execution deriving DecidableEq, Repr")
    out.append("/-- which argument of `normalize_string` a step uses -/")
    out.append("inductive NsSide | from_ | to_ deriving DecidableEq, Repr")
    out.append("")
    out.append("structure EngineRow where")
    out.append("  engine : String            -- package directory sqlframe/<engine>")
    out.append("  cls : String               -- the session class")
    out.append("  inputDialect : String      -- Builder.DEFAULT_INPUT_DIALECT (own or inherited)")
    out.append("  outputDialect : String")
    out.append("  executionDialect : String")
    out.append("  sanitize : Bool            -- SANITIZE_COLUMN_NAMES (own or inherited)")
    out.append("  flags : List (String × Bool) -- every `_is_<engine>` property with the value it returns on this class")
    out.append("  ownCollect : Option (DialRole × DialRole × Bool) -- own `_collect` renormalisation (from, to, marks case sensitive)")
    out.append("  deriving DecidableEq, Repr")
    out.append("")
    out.append("/-- `_BaseSession.SANITIZE_COLUMN_NAMES` -/")
    out.append(f"def baseSanitize : Bool := {b(x['baseSanitize'])}")
    out.append("/-- `_BaseSession._is_<engine>` defaults -/")
    out.append("def baseFlags : List (String × Bool) := [" + ", ".join(f"({lean_str(k)}, {b(v)})" for k, v in x["baseFlags"]) + "]")
    bd = x["baseDefaults"]
    out.append("/-- `_BaseSession.Builder.DEFAULT_{INPUT,OUTPUT,EXECUTION}_DIALECT` -/")
    out.append(f"def baseDefault : DialRole → String\n  | .input => {lean_str(bd['input'])}\n  | .output => {lean_str(bd['output'])}\n  | .execution => {lean_str(bd['execution'])}")
    out.append("")
    out.append("/-- every sqlframe/<engine>/session.py -/")
    out.append("def engines : List EngineRow := [")
    rows = []
    for e in x["engines"]:
        oc = "none" if e["ownCollect"] is None else f"some ({role(e['ownCollect'][0])}, {role(e['ownCollect'][1])}, {b(e['ownCollect'][2])})"
        fl = "[" + ", ".join(f"({lean_str(k)}, {b(v)})" for k, v in e["flags"]) + "]"
        rows.append(
            f"  {{ engine := {lean_str(e['engine'])}, cls := {lean_str(e['cls'])}, inputDialect := {lean_str(e['input'])}, outputDialect := {lean_str(e['output'])},\n"
            f"    executionDialect := {lean_str(e['execution'])}, sanitize := {b(e['sanitize'])},\n    flags := {fl},\n    ownCollect := {oc} }}"
        )
    out.append(",\n".join(rows) + "]")
    out.append("")
    out.append("/-- `_sanitize_column_name`: the chain `name.replace(a, b).replace(c, d)…`, in application order -/")
    out.append("def sanitizeReplacements : List (Char × Char) := [" + ", ".join(f"({lean_char(a)}, {lean_char(c)})" for a, c in x["replacements"]) + "]")
    out.append("/-- the same chain as strings (for the check's comparison with the running code) -/")
    out.append("def sanitizeReplacementsText : List (String × String) := [" + ", ".join(f"({lean_str(a)}, {lean_str(c)})" for a, c in x["replacements"]) + "]")
    out.append("/-- the chain is applied only `if self.SANITIZE_COLUMN_NAMES`, otherwise the name is returned unchanged -/")
    out.append(f"def sanitizeGuarded : Bool := {b(x['sanitizeGuarded'])}")
    out.append("")

    def pairs(name: str, doc: str, ps: t.List[t.Tuple[str, str]]) -> None:
        out.append(f"/-- {doc} -/")
        out.append(f"def {name} : List (DialRole × DialRole) := [" + ", ".join(f"({role(a)}, {role(c)})" for a, c in ps) + "]")

    pairs("sessionInit", "`_BaseSession.__init__`: (session attribute, builder default it is read from)", x["sessionInit"])
    pairs("builderInit", "`Builder.__init__`: (builder attribute, builder default)", x["builderInit"])
    pairs("builderApply", "`Builder._set_session_properties`: (session attribute, builder attribute)", x["builderApply"])
    out.append("")
    out.append("/-- `_to_sql`: normalize_string(from_dialect = ·, to_dialect = [dialect or] ·) -/")
    out.append(f"def toSqlPair : DialRole × DialRole := ({role(x['toSql'][0])}, {role(x['toSql'][1])})")
    out.append("/-- `_to_sql(dialect=X)` renders into X when given (that is what `df.sql(dialect=X)` uses) -/")
    out.append(f"def toSqlTakesOverride : Bool := {b(x['toSql'][2])}")
    out.append("/-- `_collect`: the reported column names are renormalised normalize_string(from_dialect = ·, to_dialect = ·) -/")
    out.append(f"def collectRenormPair : DialRole × DialRole := ({role(x['collect'][0])}, {role(x['collect'][1])})")
    out.append("/-- `_collect` marks the reported names `case_sensitive` before renormalising -/")
    out.append(f"def collectMarksCaseSensitive : Bool := {b(x['collect'][2])}")
    out.append("/-- `_to_value`: keys of map values -/")
    out.append(f"def mapKeyRenormPair : DialRole × DialRole := ({role(x['mapKey'][0])}, {role(x['mapKey'][1])})")
    out.append("")
    out.append("/-- util.normalize_string: what the symbolic dialect names stand for -/")
    out.append("def strToDialect : List (String × DialRole) := [" + ", ".join(f"({lean_str(k)}, {role(v)})" for k, v in x["strToDialect"]) + "]")
    out.append("/-- util.normalize_string on an expression: the two normalize_identifiers passes, in order -/")
    out.append("def normalizeOrder : List NsSide := [" + ", ".join(side(s) for s in x["normalizeOrder"]) + "]")
    out.append("/-- the dialect the text is generated in / identifiers are quoted for -/")
    out.append(f"def renderIn : NsSide := {side(x['renderIn'])}")
    out.append(f"def quoteIn : NsSide := {side(x['quoteIn'])}")
    out.append("")
    out.append("/-- the `_is_<engine>` names the function dispatch under sqlframe/base refers to -/")
    out.append("def flagsUsed : List String := [" + ", ".join(lean_str(f) for f in x["flagsUsed"]) + "]")
    out.append("")
    out.append("/-- functions.round on a Postgres session: the operand is cast to NUMERIC when no scale is given / when a scale is given -/")
    out.append(f"def roundPgCastNoScale : Bool := {b(x['roundPgCast'][0])}")
    out.append(f"def roundPgCastWithScale : Bool := {b(x['roundPgCast'][1])}")
    out.append("")
    out.append("end Sqlframe.Gen")
    return "\n".join(out) + "\n"


GENERATORS = {"Engines": gen_engines}
