"""
exprs.py — typed expression / table generators shared by the DataFrame-level checks, with encoders to
(a) the Lean driver's JSON (`deriving FromJson` shape) and (b) real sqlframe Columns.

Expression trees are plain tuples:
  ("col", name) ("lit", value) ("bin", op, a, b) ("not", a) ("neg", a) ("isNull", a) ("ite", c, t, e)
"""
from __future__ import annotations

import random
import typing as t

from vlib import lval

INT_POOL = [None, 0, 1, 2, 3, -1, 5]
STR_POOL = [None, "", "a", "b", "ab"]

ARITH = ["add", "sub", "mul"]
CMP = ["lt", "le", "gt", "ge", "eq", "ne"]


def to_lean(e: tuple) -> t.Any:
    k = e[0]
    if k == "col":
        return {"col": {"n": e[1]}}
    if k == "lit":
        return {"lit": {"v": lval(e[1])}}
    if k == "bin":
        return {"bin": {"op": e[1], "a": to_lean(e[2]), "b": to_lean(e[3])}}
    if k in ("not", "neg", "isNull"):
        return {k: {"a": to_lean(e[1])}}
    if k == "ite":
        return {"ite": {"c": to_lean(e[1]), "t": to_lean(e[2]), "e": to_lean(e[3])}}
    raise ValueError(e)


def to_column(e: tuple, F: t.Any) -> t.Any:
    k = e[0]
    if k == "col":
        return F.col(e[1])
    if k == "lit":
        return F.lit(e[1])
    if k == "bin":
        a, b = to_column(e[2], F), to_column(e[3], F)
        op = e[1]
        if op == "add":
            return a + b
        if op == "sub":
            return a - b
        if op == "mul":
            return a * b
        if op == "lt":
            return a < b
        if op == "le":
            return a <= b
        if op == "gt":
            return a > b
        if op == "ge":
            return a >= b
        if op == "eq":
            return a == b
        if op == "ne":
            return a != b
        if op == "and":
            return a & b
        if op == "or":
            return a | b
        if op == "nseq":
            return a.eqNullSafe(b)
        raise ValueError(op)
    if k == "not":
        return ~to_column(e[1], F)
    if k == "neg":
        return -to_column(e[1], F)
    if k == "isNull":
        return to_column(e[1], F).isNull()
    if k == "ite":
        return F.when(to_column(e[1], F), to_column(e[2], F)).otherwise(to_column(e[3], F))
    raise ValueError(e)


def show(e: tuple) -> str:
    k = e[0]
    if k == "col":
        return f"col({e[1]!r})"
    if k == "lit":
        return f"lit({e[1]!r})"
    if k == "bin":
        sym = {"add": "+", "sub": "-", "mul": "*", "lt": "<", "le": "<=", "gt": ">", "ge": ">=", "eq": "==", "ne": "!=", "and": "&", "or": "|", "nseq": "<=>"}[e[1]]
        return f"({show(e[2])} {sym} {show(e[3])})"
    if k == "not":
        return f"~{show(e[1])}"
    if k == "neg":
        return f"-{show(e[1])}"
    if k == "isNull":
        return f"{show(e[1])}.isNull()"
    if k == "ite":
        return f"when({show(e[1])}, {show(e[2])}).otherwise({show(e[3])})"
    return str(e)


class Gen:
    """typed generator over a schema {name: 'int'|'str'}"""

    def __init__(self, rng: random.Random, schema: t.Dict[str, str]):
        self.rng = rng
        self.schema = schema

    def cols(self, ty: str) -> t.List[str]:
        return [c for c, k in self.schema.items() if k == ty]

    def int_expr(self, depth: int) -> tuple:
        r = self.rng
        ic = self.cols("int")
        if depth <= 0 or r.random() < 0.35:
            if ic and r.random() < 0.7:
                return ("col", r.choice(ic))
            return ("lit", r.choice([0, 1, 2, 3, -1]))
        c = r.random()
        if c < 0.6:
            return ("bin", r.choice(ARITH), self.int_expr(depth - 1), self.int_expr(depth - 1))
        if c < 0.7 and ic:
            return ("neg", ("col", r.choice(ic)))
        return ("ite", self.bool_expr(depth - 1), self.int_expr(depth - 1), self.int_expr(depth - 1))

    def str_expr(self, depth: int) -> tuple:
        r = self.rng
        sc = self.cols("str")
        if sc and r.random() < 0.7:
            return ("col", r.choice(sc))
        return ("lit", r.choice(["", "a", "b"]))

    def bool_expr(self, depth: int) -> tuple:
        r = self.rng
        c = r.random()
        if depth <= 0 or c < 0.5:
            if self.cols("str") and r.random() < 0.25:
                return ("bin", r.choice(["eq", "ne", "lt"]), self.str_expr(0), self.str_expr(0))
            return ("bin", r.choice(CMP), self.int_expr(max(depth - 1, 0)), self.int_expr(0))
        if c < 0.65:
            any_col = r.choice(list(self.schema))
            return ("isNull", ("col", any_col))
        if c < 0.85:
            return ("bin", r.choice(["and", "or"]), self.bool_expr(depth - 1), self.bool_expr(depth - 1))
        return ("not", self.bool_expr(depth - 1))

    def any_expr(self, depth: int) -> t.Tuple[tuple, str]:
        c = self.rng.random()
        if c < 0.6:
            return self.int_expr(depth), "int"
        if c < 0.8 and self.cols("str"):
            return self.str_expr(depth), "str"
        return self.int_expr(depth), "int"


def gen_table(rng: random.Random, schema: t.Dict[str, str], max_rows: int = 6) -> t.List[t.List[t.Any]]:
    n = rng.choice([0, 1, 2, 3, 4, 5, max_rows, max_rows])
    rows = []
    for _ in range(n):
        if rows and rng.random() < 0.25:
            rows.append(list(rng.choice(rows)))  # duplicates
            continue
        rows.append([rng.choice(INT_POOL) if k == "int" else rng.choice(STR_POOL) for k in schema.values()])
    return rows


def table_to_lean(cols: t.List[str], rows: t.List[t.List[t.Any]]) -> t.Any:
    return {"cols": cols, "rows": [[lval(v) for v in r] for r in rows]}


def make_df(session: t.Any, schema: t.Dict[str, str], rows: t.List[t.List[t.Any]]) -> t.Any:
    ddl = ", ".join(f"{c} {'bigint' if k == 'int' else 'string'}" for c, k in schema.items())
    if not rows:
        # createDataFrame cannot build an empty frame from no data; filter a one-row frame instead
        dummy = [[0 if k == "int" else "" for k in schema.values()]]
        df = session.createDataFrame(dummy, schema=ddl)
        from sqlframe.duckdb import functions as F

        return df.where(F.lit(1) == F.lit(0))
    return session.createDataFrame([tuple(r) for r in rows], schema=ddl)
