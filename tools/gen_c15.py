"""
gen_c15.py — translator part for C15 (table update / delete):  Gen/Dml.lean

Extracted from /repo's working tree with Python `ast` (sqlframe is never imported):

  sqlframe/base/mixins/table_mixins.py
      _BaseTableMixins._ensure_where_condition      -> defaultPred, predStringParsed, predDialect (which dialect
                                                       reads a SQL-string predicate), predListAnd,
                                                       predMatches / predTo / predElseRaises, predAliasStripped
      UpdateSupportMixin._ensure_and_normalize_update_set -> rhsMatches / rhsTo / rhsElseRaises, keyIsBareName
      UpdateSupportMixin.update / DeleteSupportMixin.delete -> updateTarget / deleteTarget, *UsesCondition, *BuildExecutes
  sqlframe/base/table.py  LazyExpression              -> lazyCtorExecutes, lazyExecuteRuns
  sqlframe/base/session.py / sqlframe/duckdb/session.py  Builder.DEFAULT_INPUT_DIALECT / DEFAULT_OUTPUT_DIALECT
                                                      -> sessionInputDefault, sessionOutputDefault

Column references are classified by their table qualifier:
  none  : no qualifier (`F.col('k')`)
  cte   : `self.expression.args["from"].this.alias_or_name`  — the name of the CTE `ensure_cte` wrapped the
          table in; what `table['k']` carries after normalisation
  phys  : `self.expression.ctes[0].this.args["from"].this.alias_or_name` — the physical table
  sub   : the table a subquery inside the predicate selects from (`o.k` inside `… IN (SELECT … FROM o …)`);
          no loop of the builder can name it, so it is never re-targeted
"""
from __future__ import annotations

import ast
import typing as t

from translate import HEADER, Untranslatable, find_class, find_func, lean_str, parse

OB = "Gen.Dml"
CTE = "self.expression.args['from'].this.alias_or_name"
PHYS = "self.expression.ctes[0].this.args['from'].this.alias_or_name"
PHYS_TABLE = "self.expression.ctes[0].this.args['from'].this"


def _u(n: ast.AST) -> str:
    return ast.unparse(n)


def _strip_doc(body: t.Sequence[ast.stmt]) -> t.List[ast.stmt]:
    return [s for s in body if not (isinstance(s, ast.Expr) and isinstance(s.value, ast.Constant))]


def _qual_of(expr: ast.expr, env: t.Dict[str, str], ob: str) -> str:
    s = _u(expr)
    if isinstance(expr, ast.Name) and expr.id in env:
        return env[expr.id]
    if s == CTE:
        return "Qual.cte"
    if s == PHYS:
        return "Qual.phys"
    raise Untranslatable(ob, f"unknown qualifier source {s!r}")


def _loop(loop: ast.For, env: t.Dict[str, str], ob: str) -> t.Tuple[t.Dict[str, bool], str, bool]:
    """for col_expr in <x>.find_all(exp.Column): if <test>: col_expr.set('table', exp.to_identifier(<name>)) [else: raise]"""
    if not (isinstance(loop.target, ast.Name) and loop.target.id == "col_expr" and _u(loop.iter).endswith(".find_all(exp.Column)")):
        raise Untranslatable(ob, f"unsupported loop {_u(loop)[:60]!r}")
    if len(loop.body) != 1 or not isinstance(loop.body[0], ast.If) or loop.orelse:
        raise Untranslatable(ob, "loop body is not a single if")
    br = loop.body[0]
    matches = {"none": False, "cte": False, "phys": False}
    tests = br.test.values if isinstance(br.test, ast.BoolOp) and isinstance(br.test.op, ast.Or) else [br.test]
    for tst in tests:
        if _u(tst) == "not col_expr.table":
            matches["none"] = True
        elif isinstance(tst, ast.Compare) and len(tst.ops) == 1 and isinstance(tst.ops[0], ast.Eq) and _u(tst.left) == "col_expr.table":
            q = _qual_of(tst.comparators[0], env, ob)
            matches[q.split(".")[1]] = True
        else:
            raise Untranslatable(ob, f"unsupported qualifier test {_u(tst)!r}")
    if len(br.body) != 1:
        raise Untranslatable(ob, "re-qualification branch has more than one statement")
    call = br.body[0]
    if not (
        isinstance(call, ast.Expr)
        and isinstance(call.value, ast.Call)
        and _u(call.value.func) == "col_expr.set"
        and len(call.value.args) == 2
        and _u(call.value.args[0]) == "'table'"
        and isinstance(call.value.args[1], ast.Call)
        and _u(call.value.args[1].func) == "exp.to_identifier"
        and len(call.value.args[1].args) == 1
    ):
        raise Untranslatable(ob, f"unsupported re-qualification {_u(call)[:70]!r}")
    to = _qual_of(call.value.args[1].args[0], env, ob)
    else_raises = False
    if br.orelse:
        if len(br.orelse) == 1 and isinstance(br.orelse[0], ast.Raise):
            else_raises = True
        else:
            raise Untranslatable(ob, "unsupported else branch in the re-qualification loop")
    return matches, to, else_raises


# sqlglot dialect names the model has lexical facts for (Impl/C15Dml.lean `lexOf`); any other name is untranslatable
KNOWN_DIALECTS = ["", "spark", "spark2", "databricks", "hive", "duckdb", "postgres", "mysql", "bigquery", "snowflake", "redshift", "tsql", "sqlite", "trino", "presto", "clickhouse", "oracle", "doris", "starrocks"]
PARSERS = ("sqlglot.parse_one", "parse_one", "sqlglot.maybe_parse", "maybe_parse", "exp.maybe_parse", "exp.condition")


def _dialect_of(v: ast.expr, ob: str) -> str:
    s = _u(v)
    if s == "self.session.input_dialect":
        return "Dialect.sessionInput"
    if s == "self.session.output_dialect":
        return "Dialect.sessionOutput"
    if isinstance(v, ast.Constant) and v.value is None:
        return "Dialect.generic"
    if isinstance(v, ast.Constant) and isinstance(v.value, str):
        name = v.value.lower()
        if name not in KNOWN_DIALECTS:
            raise Untranslatable(ob, f"a string predicate is parsed with the unknown dialect {v.value!r}")
        return "Dialect.generic" if name == "" else f'Dialect.named {lean_str(name)}'
    raise Untranslatable(ob, f"a string predicate is parsed with the dialect {s!r}")


def _parse_call(body: t.Sequence[ast.stmt], ob: str) -> str:
    """the body of `if isinstance(where, str):` must be exactly `where = <parser>(where[, dialect=<d>])`;
    returns the Lean term of the dialect that reads the text (no dialect argument: sqlglot's generic dialect)"""
    if len(body) != 1 or not (isinstance(body[0], ast.Assign) and len(body[0].targets) == 1 and _u(body[0].targets[0]) == "where"):
        raise Untranslatable(ob, "unsupported handling of a string predicate (not a single `where = …`)")
    call = body[0].value
    if not (isinstance(call, ast.Call) and _u(call.func) in PARSERS):
        raise Untranslatable(ob, f"a string predicate is read by {_u(call)[:60]!r}")
    if len(call.args) < 1 or _u(call.args[0]) != "where" or len(call.args) > 2:
        raise Untranslatable(ob, f"unsupported arguments of the parser call {_u(call)[:60]!r}")
    f = _u(call.func)
    dialect = None
    if len(call.args) == 2:
        # second positional parameter: parse_one(sql, read) ; maybe_parse(sql, into) ; condition(expr, dialect)
        if f.endswith("parse_one") or f == "exp.condition":
            dialect = _dialect_of(call.args[1], ob)
        else:
            raise Untranslatable(ob, f"unsupported positional argument in {_u(call)[:60]!r}")
    for kw in call.keywords:
        if kw.arg in ("dialect", "read") and dialect is None and (kw.arg == "dialect" or f.endswith("parse_one")):
            dialect = _dialect_of(kw.value, ob)
        else:
            raise Untranslatable(ob, f"unsupported keyword {kw.arg!r} in the parser call")
    return dialect or "Dialect.generic"


def _gen_session_dialects(repo: str) -> t.List[str]:
    """Builder.DEFAULT_INPUT_DIALECT / DEFAULT_OUTPUT_DIALECT of the base session, overridden by the DuckDB session's Builder"""
    ob = OB + ".sessionDialects"

    def consts(cls: ast.ClassDef) -> t.Dict[str, str]:
        b = next((n for n in cls.body if isinstance(n, ast.ClassDef) and n.name == "Builder"), None)
        out: t.Dict[str, str] = {}
        if b is None:
            return out
        for st in b.body:
            if isinstance(st, ast.Assign) and len(st.targets) == 1 and isinstance(st.targets[0], ast.Name) and st.targets[0].id in ("DEFAULT_INPUT_DIALECT", "DEFAULT_OUTPUT_DIALECT"):
                if not (isinstance(st.value, ast.Constant) and isinstance(st.value.value, str)):
                    raise Untranslatable(ob, f"{st.targets[0].id} is {_u(st.value)!r}")
                out[st.targets[0].id] = st.value.value.lower()
        return out

    base = consts(find_class(parse(repo, "sqlframe/base/session.py"), "_BaseSession"))
    duck = consts(find_class(parse(repo, "sqlframe/duckdb/session.py"), "DuckDBSession"))
    vals = dict(base, **duck)
    for k in ("DEFAULT_INPUT_DIALECT", "DEFAULT_OUTPUT_DIALECT"):
        if k not in vals:
            raise Untranslatable(ob, f"{k} not found")
        if vals[k] not in KNOWN_DIALECTS:
            raise Untranslatable(ob, f"{k} is the unknown dialect {vals[k]!r}")
    # the builder must hand the defaults to the session unchanged
    bcls = next(n for n in find_class(parse(repo, "sqlframe/base/session.py"), "_BaseSession").body if isinstance(n, ast.ClassDef) and n.name == "Builder")
    init = _u(find_func(bcls.body, "__init__"))
    if "self.input_dialect = self.DEFAULT_INPUT_DIALECT" not in init or "self.output_dialect = self.DEFAULT_OUTPUT_DIALECT" not in init:
        raise Untranslatable(ob, "Builder.__init__ does not start from the DEFAULT_* dialects")
    return [
        "/-- the dialect a DuckDB session reads SQL text in unless configured otherwise (Builder.DEFAULT_INPUT_DIALECT) -/",
        f"def sessionInputDefault : String := {lean_str(vals['DEFAULT_INPUT_DIALECT'])}",
        f"def sessionOutputDefault : String := {lean_str(vals['DEFAULT_OUTPUT_DIALECT'])}",
    ]


def _emit_match(name: str, doc: str, matches: t.Dict[str, bool]) -> t.List[str]:
    out = [f"/-- {doc} -/", f"def {name} : Qual → Bool"]
    for q in ("none", "cte", "phys"):
        out.append(f"  | .{q} => {str(matches[q]).lower()}")
    out.append("  | .sub => false")
    out.append("  | .other => false")
    return out


def _gen_where(cls: ast.ClassDef) -> t.List[str]:
    ob = OB + ".ensureWhere"
    fn = find_func(cls.body, "_ensure_where_condition")
    body = _strip_doc(fn.body)
    env: t.Dict[str, str] = {}
    default = None
    parsed = False
    dialect = None
    list_and = False
    loop_res = None
    alias_stripped = False
    returned = False

    def else_branch(stmts: t.Sequence[ast.stmt]) -> None:
        nonlocal parsed, list_and, loop_res, alias_stripped, dialect
        seen_norm = False
        seen_cond = False
        for st in stmts:
            s = _u(st)
            if isinstance(st, ast.If) and _u(st.test) == "isinstance(where, str)":
                if seen_norm or st.orelse:
                    raise Untranslatable(ob, "string branch after normalisation")
                dialect = _parse_call(_strip_doc(st.body), ob)
                parsed = True
            elif s == "condition_list = self._ensure_and_normalize_cols(where, self.expression)":
                seen_norm = True
            elif isinstance(st, ast.If) and _u(st.test) == "len(condition_list) > 1":
                if "functools.reduce(lambda x, y: x & y, condition_list)" in s and not st.orelse:
                    list_and = True
                else:
                    raise Untranslatable(ob, "a list of predicates is not combined with &")
            elif isinstance(st, ast.For):
                if loop_res is not None or not seen_norm or seen_cond:
                    raise Untranslatable(ob, "unexpected second loop / loop placement")
                if not _u(st.iter).startswith("condition_list[0].expression."):
                    raise Untranslatable(ob, "the loop does not walk the predicate")
                loop_res = _loop(st, env, ob)
            elif s == "condition = condition_list[0].expression":
                seen_cond = True
            elif isinstance(st, ast.If) and _u(st.test) == "isinstance(condition, exp.Alias)":
                if len(st.body) == 1 and _u(st.body[0]) == "condition = condition.this" and not st.orelse and seen_cond:
                    alias_stripped = True
                else:
                    raise Untranslatable(ob, "unsupported alias handling")
            else:
                raise Untranslatable(ob, f"unsupported statement {s[:70]!r}")
        if not (seen_norm and seen_cond):
            raise Untranslatable(ob, "predicate is not normalised / not taken from condition_list[0]")

    for st in body:
        s = _u(st)
        if isinstance(st, ast.Assign) and isinstance(st.targets[0], ast.Name) and _u(st.value) in (CTE, PHYS):
            env[st.targets[0].id] = "Qual.cte" if _u(st.value) == CTE else "Qual.phys"
        elif isinstance(st, ast.If) and _u(st.test) == "where is None":
            for b in st.body:
                if isinstance(b, (ast.AnnAssign, ast.Assign)) and _u(b.target if isinstance(b, ast.AnnAssign) else b.targets[0]) == "condition":
                    v = b.value
                    if isinstance(v, ast.Call) and _u(v.func) == "exp.Boolean" and len(v.keywords) == 1 and v.keywords[0].arg == "this" and isinstance(v.keywords[0].value, ast.Constant) and isinstance(v.keywords[0].value.value, bool):
                        default = v.keywords[0].value.value
                    else:
                        raise Untranslatable(ob, f"default predicate is {_u(v)!r}")
                elif isinstance(b, ast.Expr) and _u(b).startswith("logger."):
                    continue
                else:
                    raise Untranslatable(ob, f"unsupported statement in the default branch {_u(b)[:60]!r}")
            else_branch(st.orelse)
        elif isinstance(st, ast.Return) and _u(st.value) == "condition":
            returned = True
        else:
            raise Untranslatable(ob, f"unsupported statement {s[:70]!r}")
    if default is None or not returned:
        raise Untranslatable(ob, "no default predicate / no return")
    if loop_res is None:
        loop_res = ({"none": False, "cte": False, "phys": False}, "Qual.other", False)
    matches, to, else_raises = loop_res
    out = []
    out.append("/-- predicate used when `where is None` -/")
    out.append(f"def defaultPred : Bool := {str(default).lower()}")
    out.append("/-- a `str` predicate is parsed as SQL (`isinstance(where, str)` … `parse_one`) -/")
    out.append(f"def predStringParsed : Bool := {str(parsed).lower()}")
    out.append("/-- the dialect whose lexer / parser reads a `str` predicate -/")
    out.append(f"def predDialect : Dialect := {dialect or 'Dialect.generic'}")
    out.append("/-- a list of predicates is folded with `&` -/")
    out.append(f"def predListAnd : Bool := {str(list_and).lower()}")
    out += _emit_match("predMatches", "qualifiers the predicate loop re-targets", matches)
    out.append(f"def predTo : Qual := {to}")
    out.append(f"def predElseRaises : Bool := {str(else_raises).lower()}")
    out.append("/-- `if isinstance(condition, exp.Alias): condition = condition.this` -/")
    out.append(f"def predAliasStripped : Bool := {str(alias_stripped).lower()}")
    return out


def _gen_update_set(cls: ast.ClassDef) -> t.List[str]:
    ob = OB + ".updateSet"
    fn = find_func(cls.body, "_ensure_and_normalize_update_set")
    body = _strip_doc(fn.body)
    env: t.Dict[str, str] = {}
    outer = None
    fresh_dict = False
    if [a.arg for a in fn.args.args] != ["self", "set_"] or fn.args.defaults or fn.args.kwonlyargs:
        raise Untranslatable(ob, f"unexpected parameters {[a.arg for a in fn.args.args]} (the assignment map must be built from set_ alone)")
    for st in body:
        if isinstance(st, ast.Assign) and isinstance(st.targets[0], ast.Name) and _u(st.value) in (CTE, PHYS):
            env[st.targets[0].id] = "Qual.cte" if _u(st.value) == CTE else "Qual.phys"
        elif _u(st) == "update_set = {}":
            fresh_dict = True
        elif isinstance(st, ast.For) and _u(st.target) == "(key, val)" and _u(st.iter) == "set_.items()":
            outer = st
        elif isinstance(st, ast.Return) and _u(st.value) == "update_set":
            continue
        else:
            raise Untranslatable(ob, f"unsupported statement {_u(st)[:70]!r}")
    if outer is None:
        raise Untranslatable(ob, "no loop over set_.items()")
    if not fresh_dict:
        raise Untranslatable(ob, "the assignment map does not start from a fresh `update_set = {}`")
    loop_res = None
    key_bare = False
    stores_val = False
    normalises_val = False
    rhs_alias_stripped = False
    for st in outer.body:
        s = _u(st)
        if s in ("key_column: Column = self._ensure_and_normalize_col(key)", "key_expr = list(key_column.expression.find_all(exp.Column))"):
            continue
        if isinstance(st, ast.If) and _u(st.test) == "len(key_expr) > 1" and len(st.body) == 1 and isinstance(st.body[0], ast.Raise):
            continue
        if s == "key = key_expr[0].alias_or_name":
            key_bare = True
            continue
        if s == "val_column: Column = self._ensure_and_normalize_col(val)":
            normalises_val = True
            continue
        if isinstance(st, ast.For):
            if loop_res is not None or not _u(st.iter).startswith("val_column.expression."):
                raise Untranslatable(ob, "unexpected loop over assignment values")
            loop_res = _loop(st, env, ob)
            continue
        if isinstance(st, ast.If) and _u(st.test) == "isinstance(val_column.expression, exp.Alias)":
            if len(st.body) == 1 and _u(st.body[0]) == "val_column.expression = val_column.expression.this" and not st.orelse and not stores_val:
                rhs_alias_stripped = True
                continue
            raise Untranslatable(ob, "unsupported alias handling of an assignment value")
        if s == "update_set[key] = val_column.expression":
            stores_val = True
            continue
        raise Untranslatable(ob, f"unsupported statement {s[:70]!r}")
    if not (key_bare and stores_val and normalises_val):
        raise Untranslatable(ob, "assignment shape not recognised (key name / normalised value / store)")
    if loop_res is None:
        loop_res = ({"none": False, "cte": False, "phys": False}, "Qual.other", False)
    matches, to, else_raises = loop_res
    out = _emit_match("rhsMatches", "qualifiers the assignment-value loop re-targets", matches)
    out.append(f"def rhsTo : Qual := {to}")
    out.append("/-- a reference the loop does not re-target raises ValueError -/")
    out.append(f"def rhsElseRaises : Bool := {str(else_raises).lower()}")
    out.append("/-- an alias on an assignment value (explicit, or the automatic one of `F.when`) is removed -/")
    out.append(f"def rhsAliasStripped : Bool := {str(rhs_alias_stripped).lower()}")
    return out


def _gen_stmt(cls: ast.ClassDef, fname: str, ctor: str, prefix: str) -> t.List[str]:
    ob = f"{OB}.{fname}"
    fn = find_func(cls.body, fname)
    if not any(_u(d) == "ensure_cte()" for d in fn.decorator_list):
        raise Untranslatable(ob, "not decorated with @ensure_cte()")
    body = _strip_doc(fn.body)
    env: t.Dict[str, str] = {}
    target = None
    uses_cond = False
    returns_lazy = False
    var = None
    for st in body:
        s = _u(st)
        if isinstance(st, ast.Assign) and isinstance(st.targets[0], ast.Name) and _u(st.value) == PHYS_TABLE:
            env[st.targets[0].id] = "Qual.phys"
        elif s == "condition = self._ensure_where_condition(where)":
            uses_cond = True
        elif s == "update_set = self._ensure_and_normalize_update_set(set_)":
            continue
        elif isinstance(st, ast.Assign) and isinstance(st.value, ast.Call) and _u(st.value.func) == ctor:
            var = _u(st.targets[0])
            kw = {k.arg: k.value for k in st.value.keywords}
            if "this" not in kw or "where" not in kw:
                raise Untranslatable(ob, f"{ctor} without this= / where=")
            if isinstance(kw["this"], ast.Name) and kw["this"].id in env:
                target = env[kw["this"].id]
            else:
                raise Untranslatable(ob, f"{ctor} target is {_u(kw['this'])!r}")
            if _u(kw["where"]) != "exp.Where(this=condition)" or not uses_cond:
                raise Untranslatable(ob, f"{ctor} where= is {_u(kw['where'])!r}")
            if ctor == "exp.Update":
                if "expressions" not in kw or _u(kw["expressions"]) != "[exp.EQ(this=key, expression=val) for key, val in update_set.items()]":
                    raise Untranslatable(ob, "exp.Update assignments are not key = val over update_set")
        elif isinstance(st, ast.Return) and var and s == f"return LazyExpression({var}, self.session)":
            returns_lazy = True
        else:
            raise Untranslatable(ob, f"unsupported statement {s[:70]!r}")
    if target is None or not returns_lazy:
        raise Untranslatable(ob, "statement is not built on the physical table / not returned lazily")
    executes = any(isinstance(n, ast.Call) and isinstance(n.func, ast.Attribute) and n.func.attr in ("execute", "_collect", "collect", "_execute") for n in ast.walk(fn))
    return [
        f"/-- `{ctor}(this=…)`: the table the statement is issued on -/",
        f"def {prefix}Target : Qual := {target}",
        f"/-- building the LazyExpression runs nothing -/",
        f"def {prefix}BuildExecutes : Bool := {str(executes).lower()}",
    ]


def _gen_lazy(repo: str) -> t.List[str]:
    ob = OB + ".lazy"
    cls = find_class(parse(repo, "sqlframe/base/table.py"), "LazyExpression")
    init = find_func(cls.body, "__init__")
    for st in _strip_doc(init.body):
        if not (isinstance(st, ast.Assign) and _u(st.targets[0]) in ("self._expression", "self._session") and isinstance(st.value, ast.Name)):
            raise Untranslatable(ob, f"__init__ does more than store: {_u(st)[:60]!r}")
    ex = _strip_doc(find_func(cls.body, "execute").body)
    runs = len(ex) == 1 and _u(ex[0]) == "return self._session._collect(self._expression)"
    if not runs:
        raise Untranslatable(ob, f"execute is {' ; '.join(_u(s) for s in ex)[:80]!r}")
    return [
        "/-- `LazyExpression.__init__` only stores the statement -/",
        "def lazyCtorExecutes : Bool := false",
        "/-- `execute()` sends exactly the stored statement to the engine -/",
        "def lazyExecuteRuns : Bool := true",
    ]


def gen_dml(repo: str) -> str:
    mod = parse(repo, "sqlframe/base/mixins/table_mixins.py")
    base = find_class(mod, "_BaseTableMixins")
    upd = find_class(mod, "UpdateSupportMixin")
    dele = find_class(mod, "DeleteSupportMixin")
    # ensure_cte wraps only when the handle has no CTE yet, and keeps the handle class
    ens = find_func(mod.body, "ensure_cte")
    etxt = ast.unparse(ens)
    if "len(self.expression.ctes) > 0" not in etxt or "self._convert_leaf_to_cte()" not in etxt:
        raise Untranslatable(OB + ".ensureCte", "ensure_cte does not wrap a bare table in a CTE")
    out = [HEADER, "set_option linter.unusedVariables false", "namespace Sqlframe.Gen.Dml", ""]
    out.append("/-- table qualifier of a column reference -/")
    out.append("inductive Qual")
    out.append("  | none    -- unqualified: F.col('k')")
    out.append("  | cte     -- the CTE ensure_cte wrapped the table in: table['k']")
    out.append("  | phys    -- the physical table")
    out.append("  | sub     -- the table of an enclosing subquery's FROM")
    out.append("  | other")
    out.append("  deriving DecidableEq, Repr")
    out.append("")
    out.append("/-- which sqlglot dialect reads a piece of SQL text -/")
    out.append("inductive Dialect")
    out.append("  | sessionInput            -- self.session.input_dialect")
    out.append("  | sessionOutput           -- self.session.output_dialect")
    out.append("  | generic                 -- no dialect argument: sqlglot's default dialect")
    out.append("  | named (s : String)      -- a constant dialect name")
    out.append("  deriving DecidableEq, Repr")
    out.append("")
    out += _gen_session_dialects(repo)
    out.append("")
    out += _gen_where(base)
    out.append("")
    out += _gen_update_set(upd)
    out.append("")
    out += _gen_stmt(upd, "update", "exp.Update", "update")
    out += _gen_stmt(dele, "delete", "exp.Delete", "delete")
    out.append("")
    out += _gen_lazy(repo)
    out.append("")
    out.append("end Sqlframe.Gen.Dml")
    return "\n".join(out) + "\n"


GENERATORS = {"Dml": gen_dml}
