"""
vlib.py — shared machinery of the check driver: translate, Lean build + audit, line-protocol driver,
violation / known-finding reporting, evidence files.  Runs under /venv/bin/python (sqlframe's venv).
"""
from __future__ import annotations

import fcntl
import hashlib
import json
import os
import random
import re
import subprocess
import sys
import time
import typing as t

VERIF = os.path.dirname(os.path.dirname(os.path.abspath(__file__)))
REPO = os.environ.get("VERIF_REPO", "/repo")
if REPO not in sys.path:
    sys.path.insert(0, REPO)  # `import sqlframe` must resolve to the tree under test, before the editable install
# VERIF_LEAN_DIR: a private copy of lean/ (Gen + build output) so that checks against different trees can run at once;
# VERIF_OUT: where replays/ and evidence_other_tree/ of such a run go
LEAN_DIR = os.environ.get("VERIF_LEAN_DIR") or os.path.join(VERIF, "lean")
OUT_DIR = os.environ.get("VERIF_OUT") or VERIF
GEN_DIR = os.path.join(LEAN_DIR, "SqlframeModel", "Gen")
ALLOWED_AXIOMS = {"propext", "Classical.choice", "Quot.sound"}
FORBIDDEN = re.compile(r"\b(sorry|admit|native_decide|bv_decide|implemented_by)\b|^\s*axiom\s|unsafe\s|maxHeartbeats\s+0")

TRUSTED_BASE = [
    "Lean 4.33 kernel (thorough tier: leanchecker re-check of the .olean files)",
    "axioms allowed in property theorems: propext, Classical.choice, Quot.sound (audited by #print axioms each run)",
    "tools/translate.py (Python ast -> Gen/*.lean), exercised against the running code",
    "the correspondence harness (generators, canonicalisation, Lean JSON driver)",
    "Core/*.lean as the assumed meaning of the engine's SQL (validated against DuckDB 1.2.2 by the same stream)",
]


def log(*a: t.Any) -> None:
    print(*a, file=sys.stderr, flush=True)


class Ctx:
    """one run of one check"""

    def __init__(self, prop: str, tier: str, seed: int):
        self.prop = prop
        self.tier = tier
        self.seed = seed
        self.rng = random.Random(f"{prop}:{seed}")
        self.t0 = time.time()
        self.violations: t.List[t.Dict[str, t.Any]] = []
        self.known_hits: t.List[str] = []
        self.broken: t.List[str] = []  # names of proof obligations / correspondence streams that broke
        self.cov: t.Dict[str, t.Any] = {}
        self.assumptions: t.List[str] = []
        self.replay_n = 0

    @property
    def thorough(self) -> bool:
        return self.tier == "thorough"

    def elapsed(self) -> float:
        return time.time() - self.t0


# ------------------------------------------------------------------------------------------------
# translate + build + audit
# ------------------------------------------------------------------------------------------------


class lean_lock:
    """exclusive while Gen/ is rewritten and modules rebuilt; shared while a driver reads the .olean files"""

    def __init__(self, shared: bool = False):
        self.shared = shared

    def __enter__(self):
        os.makedirs(LEAN_DIR, exist_ok=True)
        self.f = open(os.path.join(LEAN_DIR, ".lock"), "a")
        fcntl.flock(self.f, fcntl.LOCK_SH if self.shared else fcntl.LOCK_EX)
        return self

    def __exit__(self, *a):
        fcntl.flock(self.f, fcntl.LOCK_UN)
        self.f.close()


def translate(only: t.Optional[t.List[str]] = None) -> t.Dict[str, t.Dict[str, t.Any]]:
    sys.path.insert(0, os.path.join(VERIF, "tools"))
    import importlib

    tr = importlib.import_module("translate")
    return tr.run(REPO, GEN_DIR, only)


def lake_build(targets: t.List[str], timeout: int = 1500) -> t.Tuple[bool, str]:
    cmd = ["lake", "build"] + targets
    p = subprocess.run(cmd, cwd=LEAN_DIR, capture_output=True, text=True, timeout=timeout)
    return p.returncode == 0, (p.stdout + p.stderr)


def props_index() -> t.Dict[str, t.Any]:
    """property -> {"theorems": [...]}; one file per property under lean/props_index.d/"""
    idx: t.Dict[str, t.Any] = {}
    d = os.path.join(LEAN_DIR, "props_index.d")
    for fn in sorted(os.listdir(d)):
        if fn.endswith(".json"):
            idx[fn[:-5]] = json.load(open(os.path.join(d, fn)))
    return idx


def audit_source(files: t.List[str]) -> t.List[str]:
    """grep the proof sources for forbidden constructs (outside comments)"""
    bad = []
    for rel in files:
        path = os.path.join(LEAN_DIR, rel)
        if not os.path.exists(path):
            bad.append(f"{rel}: missing")
            continue
        src = open(path, encoding="utf-8").read()
        src = re.sub(r"/-.*?-/", lambda m: "\n" * m.group(0).count("\n"), src, flags=re.S)
        for i, line in enumerate(src.split("\n"), 1):
            code = line.split("--")[0]
            if FORBIDDEN.search(code):
                bad.append(f"{rel}:{i}: {line.strip()[:80]}")
    return bad


def audit_axioms(module: str, theorems: t.List[str]) -> t.Tuple[t.Dict[str, t.List[str]], t.List[str]]:
    """run `#print axioms` for each theorem; returns (axioms per theorem, problems)"""
    src = f"import {module}\n" + "".join(f"#print axioms {th}\n" for th in theorems)
    tmp = os.path.join(LEAN_DIR, ".lake", f"audit_{module.replace('.', '_')}_{os.getpid()}.lean")
    os.makedirs(os.path.dirname(tmp), exist_ok=True)
    with open(tmp, "w") as f:
        f.write(src)
    try:
        p = subprocess.run(["lake", "env", "lean", tmp], cwd=LEAN_DIR, capture_output=True, text=True, timeout=900)
    finally:
        try:
            os.remove(tmp)
        except OSError:
            pass
    out = p.stdout + p.stderr
    axioms: t.Dict[str, t.List[str]] = {}
    problems: t.List[str] = []
    for m in re.finditer(r"'([^']+)' depends on axioms: \[([^\]]*)\]", out, flags=re.S):
        axioms[m.group(1)] = [a.strip() for a in m.group(2).replace("\n", " ").split(",") if a.strip()]
    for m in re.finditer(r"'([^']+)' does not depend on any axioms", out):
        axioms[m.group(1)] = []
    for th in theorems:
        full = [k for k in axioms if k == th or k.endswith("." + th)]
        if not full:
            problems.append(f"theorem {th} not found or not checked")
            continue
        extra = set(axioms[full[0]]) - ALLOWED_AXIOMS
        if extra:
            problems.append(f"theorem {th} depends on {sorted(extra)}")
    if p.returncode != 0 and not problems:
        problems.append("audit failed: " + out[-400:])
    return axioms, problems


def prove(ctx: Ctx, modules: t.List[str], gen_needed: t.List[str], theorems: t.List[str], sources: t.List[str]) -> None:
    """translate, rebuild, audit; records broken obligations in ctx.broken; fills ctx.cov proof keys"""
    # the driver imports the property's codec: it is rebuilt with the model even when a check does not list it
    codec = f"SqlframeModel.Codec.{ctx.prop}"
    if codec not in modules and os.path.exists(os.path.join(LEAN_DIR, "SqlframeModel", "Codec", ctx.prop + ".lean")):
        modules = [codec] + list(modules)
    with lean_lock():
        # regenerate only what this property depends on (other properties' Gen modules are left alone, so that
        # checks pointed at different trees do not invalidate each other's compiled modules)
        status = translate(gen_needed or None)
        for g in gen_needed:
            st = status.get(g)
            if not st or not st["ok"]:
                ctx.broken.append(f"Gen.{g} untranslatable: {st['reason'] if st else 'no generator'}")
        t0 = time.time()
        ok, out = lake_build(modules)
        build_s = time.time() - t0
        if not ok:
            # name the first failing theorem / module
            errs = re.findall(r"error: ([^\n]+)", out)
            ctx.broken.append("lake build failed: " + "; ".join(errs[:3])[:400])
            log(out[-3000:])
        src_bad = audit_source(sources)
        for b in src_bad:
            ctx.broken.append("forbidden construct: " + b)
        axioms: t.Dict[str, t.List[str]] = {}
        discharged = 0
        if ok:
            for mod in modules:
                ths = [th for th in theorems]
            axioms, problems = audit_axioms(modules[-1], theorems)
            for pb in problems:
                ctx.broken.append(pb)
            discharged = len(theorems) - len([p for p in problems if p.startswith("theorem")])
        if ctx.thorough and ok:
            p = subprocess.run(["lake", "env", "leanchecker"] + modules, cwd=LEAN_DIR, capture_output=True, text=True, timeout=3000)
            ctx.cov["leanchecker"] = "ok" if p.returncode == 0 else ("failed: " + (p.stdout + p.stderr)[-300:])
            if p.returncode != 0:
                ctx.broken.append("leanchecker rejected the compiled modules")
    ctx.cov["obligations"] = len(theorems)
    ctx.cov["discharged"] = discharged
    ctx.cov["theorems"] = theorems
    ctx.cov["axioms"] = {k: v for k, v in axioms.items()}
    ctx.cov["checker_cmd"] = "cd lean && python3 ../tools/translate.py && lake build " + " ".join(modules) + " && lake env lean <#print axioms audit>" + (" && lake env leanchecker " + " ".join(modules) if ctx.thorough else "")
    ctx.cov["gen_digest"] = {g: status.get(g, {}).get("sha", "") for g in gen_needed}
    ctx.cov["lean_build_s"] = round(build_s, 1)


# ------------------------------------------------------------------------------------------------
# line-protocol driver
# ------------------------------------------------------------------------------------------------


def run_driver(name: str, cases: t.List[t.Dict[str, t.Any]], timeout: int = 1200) -> t.List[t.Dict[str, t.Any]]:
    """pipe the cases (one JSON object per line) through lean/Driver/<name>.lean"""
    if not cases:
        return []
    inp = "\n".join(json.dumps(c, separators=(",", ":")) for c in cases) + "\n"
    for attempt in range(3):
        # no lock here: readers would starve the builders; a driver that loads modules while they are being
        # replaced fails and is simply retried
        p = subprocess.run(
            ["lake", "env", "lean", "--run", f"Driver/{name}.lean"],
            cwd=LEAN_DIR,
            input=inp,
            capture_output=True,
            text=True,
            timeout=timeout,
        )
        if p.returncode == 0:
            break
        time.sleep(2)  # a concurrent build may have been replacing the compiled modules
    if p.returncode != 0:
        raise RuntimeError(f"driver {name} failed (exit {p.returncode}): {(p.stderr or p.stdout)[-2000:]}")
    outs = [json.loads(l) for l in p.stdout.split("\n") if l.strip()]
    if len(outs) != len(cases):
        raise RuntimeError(f"driver {name}: {len(cases)} cases in, {len(outs)} lines out; stderr={p.stderr[-500:]}")
    return outs


# Lean `deriving ToJson/FromJson` encodings ------------------------------------------------------


def lval(v: t.Any) -> t.Any:
    if v is None:
        return "null"
    if isinstance(v, bool):
        return {"bool": {"b": v}}
    if isinstance(v, int):
        return {"int": {"i": v}}
    if isinstance(v, str):
        return {"str": {"s": v}}
    raise TypeError(f"unsupported value {v!r}")


def plain(v: t.Any) -> t.Any:
    """python value -> the driver's plain output encoding"""
    if v is None or isinstance(v, (bool, int)):
        return v
    if isinstance(v, str):
        return {"s": v}
    raise TypeError(f"unsupported value {v!r}")


def bag(rows: t.Iterable[t.Iterable[t.Any]]) -> t.List[str]:
    return sorted(json.dumps(list(r), sort_keys=True) for r in rows)


# ------------------------------------------------------------------------------------------------
# reporting
# ------------------------------------------------------------------------------------------------


def known_findings(prop: str) -> t.List[t.Dict[str, t.Any]]:
    path = os.path.join(VERIF, "known_findings.json")
    if not os.path.exists(path):
        return []
    data = json.load(open(path))
    return [e for e in data.get("findings", []) if e.get("property") == prop and e.get("status") == "open"]


def report_known(ctx: Ctx, entry: t.Dict[str, t.Any], what: str) -> None:
    line = f"KNOWN-FINDING: property={ctx.prop} {entry['id']}: {what}"
    if line not in ctx.known_hits:
        ctx.known_hits.append(line)
        print(line, flush=True)


def report_violation(ctx: Ctx, replay: t.Dict[str, t.Any], no_input: bool = False) -> str:
    d = os.path.join(OUT_DIR, "replays", ctx.prop)
    os.makedirs(d, exist_ok=True)
    ctx.replay_n += 1
    path = os.path.join(d, f"{ctx.seed}-{ctx.replay_n}.json")
    replay = dict(replay)
    replay.setdefault("property", ctx.prop)
    replay.setdefault("seed", ctx.seed)
    replay.setdefault("tier", ctx.tier)
    if no_input:
        replay["no_failing_input_found"] = True
    with open(path, "w") as f:
        json.dump(replay, f, indent=1, default=str)
    rel = os.path.relpath(path, OUT_DIR)
    line = f"VIOLATION property={ctx.prop} replay={rel}" + (" no-failing-input-found" if no_input else "")
    print(line, flush=True)
    ctx.violations.append({"replay": rel, "no_input": no_input})
    return rel


def write_evidence(ctx: Ctx, level: str = "proof") -> None:
    cov = dict(ctx.cov)
    cov.setdefault("trusted_base", TRUSTED_BASE)
    cov.setdefault("samples", [])
    ev = {
        "property_id": ctx.prop,
        "tier": ctx.tier,
        "seed": ctx.seed,
        "level": level,
        "coverage": cov,
        "assumptions": ctx.assumptions,
        "wall_s": round(ctx.elapsed(), 2),
        "violations": len(ctx.violations),
        "known_findings_reported": ctx.known_hits,
        "broken_obligations": ctx.broken,
    }
    # evidence describes runs against /repo itself; a run pointed at another tree (mutation experiments)
    # must not overwrite it
    d = os.path.join(VERIF, "evidence") if os.path.realpath(REPO) == "/repo" else os.path.join(OUT_DIR, "evidence_other_tree")
    os.makedirs(d, exist_ok=True)
    tmp = os.path.join(d, f".{ctx.prop}.json.tmp")
    with open(tmp, "w") as f:
        json.dump(ev, f, indent=1, default=str)
    os.replace(tmp, os.path.join(d, f"{ctx.prop}.json"))


# ------------------------------------------------------------------------------------------------
# the real implementation
# ------------------------------------------------------------------------------------------------


def fresh_duckdb_session():
    """a DuckDBSession on a private in-memory database (the session class is a singleton: reset it)"""
    if REPO not in sys.path:
        sys.path.insert(0, REPO)
    import duckdb
    from sqlframe.base.session import _BaseSession
    from sqlframe.duckdb import DuckDBSession

    for cls in list(_BaseSession.__subclasses__()) + [_BaseSession]:
        if "_instance" in cls.__dict__:
            try:
                delattr(cls, "_instance")
            except Exception:
                pass
    _BaseSession._instance = None  # type: ignore
    conn = duckdb.connect(":memory:")
    return DuckDBSession(conn=conn)


def digest(obj: t.Any) -> str:
    return hashlib.sha256(json.dumps(obj, sort_keys=True, default=str).encode()).hexdigest()[:12]


# ------------------------------------------------------------------------------------------------
# sharded execution of the implementation side
# ------------------------------------------------------------------------------------------------


def _worker_call(args):
    fn, item = args
    return fn(item)


def parallel_map(fn: t.Callable[[t.Any], t.Any], items: t.List[t.Any], workers: int = 0) -> t.List[t.Any]:
    """order-preserving map over forked worker processes (each builds its own session lazily)"""
    if workers == 0:
        workers = min(int(os.environ.get("VERIF_WORKERS", "8")), os.cpu_count() or 1)
    if workers <= 1 or len(items) < 16:
        return [fn(x) for x in items]
    import multiprocessing as mp

    ctxmp = mp.get_context("fork")
    with ctxmp.Pool(workers) as pool:
        return pool.map(fn, items, chunksize=max(1, len(items) // (workers * 4)))
