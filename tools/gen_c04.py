"""
gen_c04.py — translator part for C04 (immutability / purity / laziness) -> Gen/Purity.lean

* where `_update_display_name_mapping` is applied in select / agg / withColumns / withColumnRenamed:
  on the receiver (`self.`) or on a DataFrame obtained from `self.copy(...)`
* whether `_ensure_and_normalize_cols` / `_ensure_and_normalize_col` hand *copies* of the caller's Column
  objects to `normalize` (which rewrites identifiers in place)
* whether `copy()` builds a new object via `object_to_dict`, and whether GroupedData keeps a private copy
* a static call-graph table: which public BaseDataFrame methods can reach the engine
  (`session._collect`, `session._fetchdf`, `session._execute`, `_typed_columns`, catalog calls)
"""
from __future__ import annotations

import ast
import typing as t

from translate import HEADER, Untranslatable, find_class, find_func, lean_str, parse


def _copy_locals(fn: ast.FunctionDef) -> t.Set[str]:
    """local names bound to `self.copy(...)`"""
    out = set()
    for n in ast.walk(fn):
        if isinstance(n, ast.Assign) and len(n.targets) == 1 and isinstance(n.targets[0], ast.Name):
            v = n.value
            if isinstance(v, ast.Call) and isinstance(v.func, ast.Attribute) and v.func.attr == "copy" and ast.unparse(v.func.value) == "self":
                out.add(n.targets[0].id)
    return out


def _display_target(fn: ast.FunctionDef) -> str:
    ob = f"Gen.Purity.display.{fn.name}"
    copies = _copy_locals(fn)
    targets = set()
    for n in ast.walk(fn):
        if isinstance(n, ast.Call) and isinstance(n.func, ast.Attribute) and n.func.attr == "_update_display_name_mapping":
            recv = ast.unparse(n.func.value)
            if recv == "self":
                targets.add("onSelf")
            elif recv in copies:
                targets.add("onCopy")
            else:
                raise Untranslatable(ob, f"display names recorded on unknown object {recv!r}")
    if not targets:
        return "never"
    if len(targets) > 1:
        return "onSelf"  # any write to the receiver counts
    return targets.pop()


def _normalize_copies(fn: ast.FunctionDef) -> bool:
    """is the value handed to normalize(...) built from `.copy()` of the caller's columns?"""
    ob = f"Gen.Purity.normalize.{fn.name}"
    calls = [n for n in ast.walk(fn) if isinstance(n, ast.Call) and isinstance(n.func, ast.Name) and n.func.id == "normalize"]
    if len(calls) != 1 or len(calls[0].args) < 3:
        raise Untranslatable(ob, "expected one normalize(session, expression, cols) call")
    arg = calls[0].args[2]
    if not isinstance(arg, ast.Name):
        raise Untranslatable(ob, "normalize's third argument is not a local name")
    name = arg.id
    # the last assignment to that name before the call
    assigns = [n for n in ast.walk(fn) if isinstance(n, ast.Assign) and any(isinstance(tg, ast.Name) and tg.id == name for tg in n.targets) and n.lineno < calls[0].lineno]
    if not assigns:
        return False  # the parameter itself is normalised
    last = max(assigns, key=lambda n: n.lineno)
    src = ast.unparse(last.value)
    return ".copy()" in src


def _reach_table(cls: ast.ClassDef, extra: t.List[ast.ClassDef]) -> t.Dict[str, bool]:
    """public method -> can it reach the engine (transitively through self.<method> calls)?"""
    methods: t.Dict[str, ast.FunctionDef] = {}
    for c in [cls] + extra:
        for st in c.body:
            if isinstance(st, ast.FunctionDef) and not any(
                (isinstance(d, ast.Attribute) and d.attr == "overload") or (isinstance(d, ast.Name) and d.id == "overload") for d in st.decorator_list
            ):
                methods[st.name] = st
    aliases: t.Dict[str, str] = {}
    for st in cls.body:
        if isinstance(st, ast.Assign) and isinstance(st.targets[0], ast.Name) and isinstance(st.value, ast.Name) and st.value.id in methods:
            aliases[st.targets[0].id] = st.value.id
    SINKS = {"_collect", "_fetchdf", "_execute", "_fetch_rows"}
    direct: t.Dict[str, bool] = {}
    edges: t.Dict[str, t.Set[str]] = {}
    for name, fn in methods.items():
        d = False
        e: t.Set[str] = set()
        for n in ast.walk(fn):
            if isinstance(n, ast.Attribute):
                base = ast.unparse(n.value)
                if n.attr in SINKS and base in ("self.session", "df.session", "self._df.session"):
                    d = True
                if base.endswith("session.catalog") and n.attr not in ("add_table", "_schema"):
                    d = True
                # over-approximation: any attribute named like a method of the class is a possible call
                # (chained calls such as `self.select(...).head()` have no syntactic receiver)
                if n.attr in methods:
                    e.add(n.attr)
                elif n.attr in aliases:
                    e.add(aliases[n.attr])
            if isinstance(n, ast.Name) and n.id == "read_sql_query":
                d = True
        direct[name] = d
        edges[name] = e
    reach = dict(direct)
    changed = True
    while changed:
        changed = False
        for m in methods:
            if not reach[m] and any(reach.get(x, False) for x in edges[m]):
                reach[m] = True
                changed = True
    out = {m: reach[m] for m in methods if not m.startswith("_")}
    for a, m in aliases.items():
        if not a.startswith("_"):
            out[a] = reach[m]
    return out


def _mutable_defaults(mods: t.List[ast.Module]) -> t.List[str]:
    """constructors whose parameter default is one shared mutable object ({} / [] / set() / dict() / list())"""
    bad = []
    for mod in mods:
        for cls in [n for n in ast.walk(mod) if isinstance(n, ast.ClassDef)]:
            for fn in cls.body:
                if isinstance(fn, ast.FunctionDef) and fn.name == "__init__":
                    a = fn.args
                    for d in list(a.defaults) + [x for x in a.kw_defaults if x is not None]:
                        if isinstance(d, (ast.Dict, ast.List, ast.Set, ast.ListComp, ast.DictComp, ast.SetComp)) or (
                            isinstance(d, ast.Call) and isinstance(d.func, ast.Name) and d.func.id in ("dict", "list", "set", "defaultdict")
                        ):
                            bad.append(f"{cls.name}.__init__")
    return bad


def _add_ctes_owns_expression(df: ast.ClassDef) -> bool:
    """`_add_ctes_to_expression` appends to the WITH clause of the expression it is given: it must work on a copy,
    or no caller may hand it a DataFrame's own expression"""
    fn = find_func(df.body, "_add_ctes_to_expression")
    first = [st for st in fn.body if not (isinstance(st, ast.Expr) and isinstance(st.value, ast.Constant))][0]
    if ast.unparse(first) == "expression = expression.copy()":
        return True
    for n in ast.walk(df):
        if isinstance(n, ast.Call) and isinstance(n.func, ast.Attribute) and n.func.attr == "_add_ctes_to_expression" and n.args:
            a = ast.unparse(n.args[0])
            if a.endswith(".expression"):
                return False
    return True


def gen_purity(repo: str) -> str:
    mod = parse(repo, "sqlframe/base/dataframe.py")
    df = find_class(mod, "BaseDataFrame")
    gd = find_class(parse(repo, "sqlframe/base/group.py"), "_BaseGroupedData")
    duck = find_class(parse(repo, "sqlframe/duckdb/dataframe.py"), "DuckDBDataFrame")
    mixin = find_class(parse(repo, "sqlframe/base/mixins/dataframe_mixins.py"), "TypedColumnsFromTempViewMixin")
    out = [HEADER, "namespace Sqlframe.Gen", ""]
    out.append("inductive DisplayTarget | onSelf | onCopy | never deriving DecidableEq, Repr")
    out.append("/-- on which object each method records the user's column spelling -/")
    for m in ("select", "agg", "withColumns", "withColumnRenamed"):
        out.append(f"def display_{m} : DisplayTarget := .{_display_target(find_func(df.body, m))}")
    out.append("")
    out.append("/-- are the caller's Column objects copied before `normalize` rewrites identifiers in place? -/")
    out.append(f"def normalizeColsCopies : Bool := {str(_normalize_copies(find_func(df.body, '_ensure_and_normalize_cols'))).lower()}")
    out.append(f"def normalizeColCopies : Bool := {str(_normalize_copies(find_func(df.body, '_ensure_and_normalize_col'))).lower()}")
    cp = find_func(df.body, "copy")
    ret = ast.unparse(cp.body[-1])
    out.append("/-- `copy()` builds a new object from `object_to_dict(self, **kwargs)` -/")
    out.append(f"def copyIsFresh : Bool := {str(ret == 'return self.__class__(**object_to_dict(self, **kwargs))').lower()}")
    init = find_func(gd.body, "__init__")
    priv = any(ast.unparse(s) == "self._df = df.copy()" for s in init.body)
    out.append("/-- GroupedData keeps a private copy of the DataFrame it was created from -/")
    out.append(f"def groupKeepsCopy : Bool := {str(priv).lower()}")
    bad = _mutable_defaults([mod, parse(repo, "sqlframe/base/group.py"), parse(repo, "sqlframe/base/column.py")])
    out.append("/-- no constructor takes one shared mutable object as a parameter default -/")
    out.append(f"def constructorsOwnTheirState : Bool := {str(not bad).lower()}" + (f"  -- {', '.join(bad)}" if bad else ""))
    out.append("/-- `_add_ctes_to_expression` never appends to a DataFrame's own WITH clause -/")
    out.append(f"def addCtesOwnsExpression : Bool := {str(_add_ctes_owns_expression(df)).lower()}")
    out.append("")
    reach = _reach_table(df, [duck, mixin])
    out.append("/-- static call graph: can this public method reach the engine? -/")
    out.append("def reachesEngine : List (String × Bool) := [")
    out.append(",\n".join(f"  ({lean_str(k)}, {str(v).lower()})" for k, v in sorted(reach.items())))
    out.append("]")
    out.append("")
    out.append("end Sqlframe.Gen")
    return "\n".join(out) + "\n"


GENERATORS = {"Purity": gen_purity}
