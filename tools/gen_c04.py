"""
gen_c04.py — translator part for C04 (immutability / purity / laziness) -> Gen/Purity.lean

* where `_update_display_name_mapping` is applied in select / agg / withColumns / withColumnRenamed:
  on the receiver (`self.`) or on a DataFrame obtained from `self.copy(...)`
* whether `_ensure_and_normalize_cols` / `_ensure_and_normalize_col` hand *copies* of the caller's Column
  objects to `normalize` (which rewrites identifiers in place)
* whether `copy()` builds a new object via `object_to_dict`, and whether GroupedData keeps a private copy
* a static call-graph table: which public BaseDataFrame methods can reach the engine
  (`session._collect`, `session._fetchdf`, `session._execute`, `_typed_columns`, catalog calls)
"""
from __future__ import annotations

import ast
import typing as t

import os
import sys

sys.path.insert(0, os.path.dirname(os.path.abspath(__file__)))

import c04_alias  # noqa: E402
from translate import HEADER, Untranslatable, find_class, find_func, lean_str, parse  # noqa: E402


def _copy_locals(fn: ast.FunctionDef) -> t.Set[str]:
    """local names bound to `self.copy(...)`"""
    out = set()
    for n in ast.walk(fn):
        if isinstance(n, ast.Assign) and len(n.targets) == 1 and isinstance(n.targets[0], ast.Name):
            v = n.value
            if isinstance(v, ast.Call) and isinstance(v.func, ast.Attribute) and v.func.attr == "copy" and ast.unparse(v.func.value) == "self":
                out.add(n.targets[0].id)
    return out


def _display_target(fn: ast.FunctionDef) -> str:
    ob = f"Gen.Purity.display.{fn.name}"
    copies = _copy_locals(fn)
    targets = set()
    for n in ast.walk(fn):
        if isinstance(n, ast.Call) and isinstance(n.func, ast.Attribute) and n.func.attr == "_update_display_name_mapping":
            recv = ast.unparse(n.func.value)
            if recv == "self":
                targets.add("onSelf")
            elif recv in copies:
                targets.add("onCopy")
            else:
                raise Untranslatable(ob, f"display names recorded on unknown object {recv!r}")
    if not targets:
        return "never"
    if len(targets) > 1:
        return "onSelf"  # any write to the receiver counts
    return targets.pop()


def _normalize_copies(fn: ast.FunctionDef) -> bool:
    """is the value handed to normalize(...) built from `.copy()` of the caller's columns?"""
    ob = f"Gen.Purity.normalize.{fn.name}"
    calls = [n for n in ast.walk(fn) if isinstance(n, ast.Call) and isinstance(n.func, ast.Name) and n.func.id == "normalize"]
    if len(calls) != 1 or len(calls[0].args) < 3:
        raise Untranslatable(ob, "expected one normalize(session, expression, cols) call")
    arg = calls[0].args[2]
    if not isinstance(arg, ast.Name):
        raise Untranslatable(ob, "normalize's third argument is not a local name")
    name = arg.id
    # the last assignment to that name before the call
    assigns = [n for n in ast.walk(fn) if isinstance(n, ast.Assign) and any(isinstance(tg, ast.Name) and tg.id == name for tg in n.targets) and n.lineno < calls[0].lineno]
    if not assigns:
        return False  # the parameter itself is normalised
    last = max(assigns, key=lambda n: n.lineno)
    src = ast.unparse(last.value)
    return ".copy()" in src


def _reach_table(cls: ast.ClassDef, extra: t.List[ast.ClassDef]) -> t.Dict[str, bool]:
    """public method -> can it reach the engine (transitively through self.<method> calls)?"""
    methods: t.Dict[str, ast.FunctionDef] = {}
    for c in [cls] + extra:
        for st in c.body:
            if isinstance(st, ast.FunctionDef) and not any(
                (isinstance(d, ast.Attribute) and d.attr == "overload") or (isinstance(d, ast.Name) and d.id == "overload") for d in st.decorator_list
            ):
                methods[st.name] = st
    aliases: t.Dict[str, str] = {}
    for st in cls.body:
        if isinstance(st, ast.Assign) and isinstance(st.targets[0], ast.Name) and isinstance(st.value, ast.Name) and st.value.id in methods:
            aliases[st.targets[0].id] = st.value.id
    SINKS = {"_collect", "_fetchdf", "_execute", "_fetch_rows"}
    direct: t.Dict[str, bool] = {}
    edges: t.Dict[str, t.Set[str]] = {}
    for name, fn in methods.items():
        d = False
        e: t.Set[str] = set()
        for n in ast.walk(fn):
            if isinstance(n, ast.Attribute):
                base = ast.unparse(n.value)
                if n.attr in SINKS and base in ("self.session", "df.session", "self._df.session"):
                    d = True
                if base.endswith("session.catalog") and n.attr not in ("add_table", "_schema"):
                    d = True
                # over-approximation: any attribute named like a method of the class is a possible call
                # (chained calls such as `self.select(...).head()` have no syntactic receiver)
                if n.attr in methods:
                    e.add(n.attr)
                elif n.attr in aliases:
                    e.add(aliases[n.attr])
            if isinstance(n, ast.Name) and n.id == "read_sql_query":
                d = True
        direct[name] = d
        edges[name] = e
    reach = dict(direct)
    changed = True
    while changed:
        changed = False
        for m in methods:
            if not reach[m] and any(reach.get(x, False) for x in edges[m]):
                reach[m] = True
                changed = True
    out = {m: reach[m] for m in methods if not m.startswith("_")}
    for a, m in aliases.items():
        if not a.startswith("_"):
            out[a] = reach[m]
    return out


def _mutable_defaults(mods: t.List[ast.Module]) -> t.List[str]:
    """constructors whose parameter default is one shared mutable object ({} / [] / set() / dict() / list())"""
    bad = []
    for mod in mods:
        for cls in [n for n in ast.walk(mod) if isinstance(n, ast.ClassDef)]:
            for fn in cls.body:
                if isinstance(fn, ast.FunctionDef) and fn.name == "__init__":
                    a = fn.args
                    for d in list(a.defaults) + [x for x in a.kw_defaults if x is not None]:
                        if isinstance(d, (ast.Dict, ast.List, ast.Set, ast.ListComp, ast.DictComp, ast.SetComp)) or (
                            isinstance(d, ast.Call) and isinstance(d.func, ast.Name) and d.func.id in ("dict", "list", "set", "defaultdict")
                        ):
                            bad.append(f"{cls.name}.__init__")
    return bad


def _add_ctes_owns_expression(df: ast.ClassDef) -> bool:
    """`_add_ctes_to_expression` appends to the WITH clause of the expression it is given: it must work on a copy,
    or no caller may hand it a DataFrame's own expression"""
    fn = find_func(df.body, "_add_ctes_to_expression")
    first = [st for st in fn.body if not (isinstance(st, ast.Expr) and isinstance(st.value, ast.Constant))][0]
    if ast.unparse(first) == "expression = expression.copy()":
        return True
    for n in ast.walk(df):
        if isinstance(n, ast.Call) and isinstance(n.func, ast.Attribute) and n.func.attr == "_add_ctes_to_expression" and n.args:
            a = ast.unparse(n.args[0])
            if a.endswith(".expression"):
                return False
    return True


def gen_purity(repo: str) -> str:
    mod = parse(repo, "sqlframe/base/dataframe.py")
    df = find_class(mod, "BaseDataFrame")
    gd = find_class(parse(repo, "sqlframe/base/group.py"), "_BaseGroupedData")
    duck = find_class(parse(repo, "sqlframe/duckdb/dataframe.py"), "DuckDBDataFrame")
    mixin = find_class(parse(repo, "sqlframe/base/mixins/dataframe_mixins.py"), "TypedColumnsFromTempViewMixin")
    out = [HEADER, "namespace Sqlframe.Gen", ""]
    out.append("inductive DisplayTarget | onSelf | onCopy | never deriving DecidableEq, Repr")
    out.append("/-- on which object each method records the user's column spelling -/")
    for m in ("select", "agg", "withColumns", "withColumnRenamed"):
        out.append(f"def display_{m} : DisplayTarget := .{_display_target(find_func(df.body, m))}")
    out.append("")
    out.append("/-- are the caller's Column objects copied before `normalize` rewrites identifiers in place? -/")
    out.append(f"def normalizeColsCopies : Bool := {str(_normalize_copies(find_func(df.body, '_ensure_and_normalize_cols'))).lower()}")
    out.append(f"def normalizeColCopies : Bool := {str(_normalize_copies(find_func(df.body, '_ensure_and_normalize_col'))).lower()}")
    cp = find_func(df.body, "copy")
    ret = ast.unparse(cp.body[-1])
    out.append("/-- `copy()` builds a new object from `object_to_dict(self, **kwargs)` -/")
    out.append(f"def copyIsFresh : Bool := {str(ret == 'return self.__class__(**object_to_dict(self, **kwargs))').lower()}")
    init = find_func(gd.body, "__init__")
    priv = any(ast.unparse(s) == "self._df = df.copy()" for s in init.body)
    out.append("/-- GroupedData keeps a private copy of the DataFrame it was created from -/")
    out.append(f"def groupKeepsCopy : Bool := {str(priv).lower()}")
    bad = _mutable_defaults([mod, parse(repo, "sqlframe/base/group.py"), parse(repo, "sqlframe/base/column.py")])
    out.append("/-- no constructor takes one shared mutable object as a parameter default -/")
    out.append(f"def constructorsOwnTheirState : Bool := {str(not bad).lower()}" + (f"  -- {', '.join(bad)}" if bad else ""))
    out.append("/-- `_add_ctes_to_expression` never appends to a DataFrame's own WITH clause -/")
    out.append(f"def addCtesOwnsExpression : Bool := {str(_add_ctes_owns_expression(df)).lower()}")
    out.append("")
    reach = _reach_table(df, [duck, mixin])
    out.append("/-- static call graph: can this public method reach the engine? -/")
    out.append("def reachesEngine : List (String × Bool) := [")
    out.append(",\n".join(f"  ({lean_str(k)}, {str(v).lower()})" for k, v in sorted(reach.items())))
    out.append("]")
    out.append("")
    out.append("end Sqlframe.Gen")
    return "\n".join(out) + "\n"


# ------------------------------------------------------------------------------------------------
# hint resolution, `_hint`, `limit`: statement-by-statement
# ------------------------------------------------------------------------------------------------


def _target(name: str, selfname: str, copies: t.Set[str], ob: str) -> str:
    if name == selfname:
        return "onSelf"
    if name in copies:
        return "onCopy"
    raise Untranslatable(ob, f"neither the receiver nor its working copy: {name!r}")


def _resolve_decisions(fn: ast.FunctionDef) -> t.Dict[str, str]:
    """`_resolve_pending_hints`: on which object the partition-hint loop iterates, from whose list it removes, whose
    expression receives the hint clause, which object is returned"""
    ob = "Gen.Purity._resolve_pending_hints"
    body = [st for st in fn.body if not (isinstance(st, ast.Expr) and isinstance(st.value, ast.Constant))]
    if not body or not isinstance(body[0], ast.Assign) or len(body[0].targets) != 1 or not isinstance(body[0].targets[0], ast.Name):
        raise Untranslatable(ob, "expected `df = self.copy()` first")
    work = body[0].targets[0].id
    first = ast.unparse(body[0].value)
    copies: t.Set[str] = set()
    if first == "self.copy()":
        copies = {work}
    elif first != "self":
        raise Untranslatable(ob, f"working object built by {first}")
    tgt = lambda n: "onSelf" if (n == "self" or not copies) else _target(n, "self", copies, ob)  # noqa: E731
    out: t.Dict[str, str] = {}
    # early return
    if not (isinstance(body[1], ast.If) and ast.unparse(body[1].test) in ("not self.pending_hints", f"not {work}.pending_hints")
            and len(body[1].body) == 1 and isinstance(body[1].body[0], ast.Return) and isinstance(body[1].body[0].value, ast.Name) and not body[1].orelse):
        raise Untranslatable(ob, "expected `if not self.pending_hints: return df`")
    early = tgt(body[1].body[0].value.id)
    # expression = <X>.expression
    exprs = [st for st in body if isinstance(st, ast.Assign) and ast.unparse(st.targets[0]) == "expression"]
    if len(exprs) != 1 or not (isinstance(exprs[0].value, ast.Attribute) and exprs[0].value.attr == "expression" and isinstance(exprs[0].value.value, ast.Name)):
        raise Untranslatable(ob, "expected `expression = df.expression`")
    out["resolveAttachesTo"] = tgt(exprs[0].value.value.id)
    sets = [n for n in ast.walk(fn) if isinstance(n, ast.Call) and isinstance(n.func, ast.Attribute) and n.func.attr == "set" and n.args and isinstance(n.args[0], ast.Constant) and n.args[0].value == "hint"]
    if len(sets) != 1 or ast.unparse(sets[0].func.value) != "expression":
        raise Untranslatable(ob, "expected exactly one `expression.set('hint', …)`")
    # the partition-hint loop
    loops = [st for st in body if isinstance(st, ast.For) and isinstance(st.iter, ast.Attribute) and st.iter.attr == "pending_partition_hints"]
    if len(loops) != 1 or not isinstance(loops[0].iter.value, ast.Name) or not isinstance(loops[0].target, ast.Name):
        raise Untranslatable(ob, "expected one `for hint in <df>.pending_partition_hints` loop")
    lp = loops[0]
    hv = lp.target.id
    out["resolveIterates"] = tgt(lp.iter.value.id)
    stmts = [ast.unparse(x) for x in lp.body]
    rem = [x for x in lp.body if isinstance(x, ast.Expr) and isinstance(x.value, ast.Call) and isinstance(x.value.func, ast.Attribute) and x.value.func.attr == "remove"]
    if len(lp.body) != 2 or f"hint_expression.append('expressions', {hv})" not in stmts or len(rem) != 1:
        raise Untranslatable(ob, f"partition-hint loop body is {stmts}")
    rf = rem[0].value.func.value
    if not (isinstance(rf, ast.Attribute) and rf.attr == "pending_hints" and isinstance(rf.value, ast.Name) and ast.unparse(rem[0].value.args[0]) == hv):
        raise Untranslatable(ob, f"removal is {ast.unparse(rem[0])}")
    out["resolveRemovesFrom"] = tgt(rf.value.id)
    # the join-hint loop: which object's hints it walks, and whether it rewrites the hint node it found
    jl = [n for n in ast.walk(fn) if isinstance(n, ast.For) and isinstance(n.iter, ast.Attribute) and n.iter.attr == "pending_join_hints"]
    if len(jl) != 1 or not isinstance(jl[0].iter.value, ast.Name):
        raise Untranslatable(ob, "expected one `for hint in <df>.pending_join_hints` loop")
    out["resolveJoinIterates"] = tgt(jl[0].iter.value.id)
    node_sets = [n for n in ast.walk(jl[0]) if isinstance(n, ast.Call) and isinstance(n.func, ast.Attribute) and n.func.attr == "set"]
    out["resolveRewritesJoinHintNode"] = str(bool(node_sets)).lower()
    if not isinstance(body[-1], ast.Return) or not isinstance(body[-1].value, ast.Name):
        raise Untranslatable(ob, "expected `return df` last")
    out["resolveReturns"] = tgt(body[-1].value.id)
    if early != out["resolveReturns"]:
        raise Untranslatable(ob, "the early return and the final return hand back different objects")
    return out


def _hint_decisions(fn: ast.FunctionDef) -> str:
    """`_hint`: new_df = self.copy(); <X>.pending_hints.append(hint_expression); return new_df"""
    ob = "Gen.Purity._hint"
    copies = _copy_locals(fn)
    apps = [n for n in ast.walk(fn) if isinstance(n, ast.Call) and isinstance(n.func, ast.Attribute) and n.func.attr in ("append", "extend", "insert")
            and isinstance(n.func.value, ast.Attribute) and n.func.value.attr == "pending_hints"]
    if len(apps) != 1 or not isinstance(apps[0].func.value.value, ast.Name):
        raise Untranslatable(ob, "expected exactly one `<df>.pending_hints.append(…)`")
    ret = fn.body[-1]
    if not (isinstance(ret, ast.Return) and isinstance(ret.value, ast.Name) and ret.value.id in copies):
        raise Untranslatable(ob, "expected the copy to be returned")
    return _target(apps[0].func.value.value.id, "self", copies, ob)


def _limit_decisions(fn: ast.FunctionDef) -> t.Dict[str, str]:
    """`limit`: [if limit_exp := self.expression.args.get('limit'): num = min/max(num, int(limit_exp.expression.this))]
    return self.copy(expression=self.expression.limit(num))  — any other statement is not understood"""
    ob = "Gen.Purity.limit"
    body = [st for st in fn.body if not (isinstance(st, ast.Expr) and isinstance(st.value, ast.Constant))]
    reads = False
    for st in body[:-1]:
        ok = (isinstance(st, ast.If) and isinstance(st.test, ast.NamedExpr) and ast.unparse(st.test.value) == "self.expression.args.get('limit')"
              and not st.orelse and len(st.body) == 1 and isinstance(st.body[0], ast.Assign) and ast.unparse(st.body[0].targets[0]) == "num"
              and isinstance(st.body[0].value, ast.Call) and isinstance(st.body[0].value.func, ast.Name) and st.body[0].value.func.id in ("min", "max"))
        if not ok:
            raise Untranslatable(ob, f"statement not understood: {ast.unparse(st)[:100]}")
        reads = True
    ret = body[-1]
    if not (isinstance(ret, ast.Return) and isinstance(ret.value, ast.Call) and ast.unparse(ret.value.func) == "self.copy"
            and len(ret.value.keywords) == 1 and ret.value.keywords[0].arg == "expression" and not ret.value.args):
        raise Untranslatable(ob, f"result not understood: {ast.unparse(ret)[:100]}")
    b = ret.value.keywords[0].value
    if not (isinstance(b, ast.Call) and ast.unparse(b.func) == "self.expression.limit"):
        raise Untranslatable(ob, f"LIMIT not built by self.expression.limit(…): {ast.unparse(b)[:80]}")
    copies = not any(k.arg == "copy" and not (isinstance(k.value, ast.Constant) and k.value.value is True) for k in b.keywords)
    return {"limitReadsReceiverLimit": str(reads).lower(), "limitResultOnCopy": "true", "limitBuilderCopies": str(copies).lower()}


_PURITY0 = gen_purity


def gen_purity2(repo: str) -> str:
    text = _PURITY0(repo)
    df = find_class(parse(repo, "sqlframe/base/dataframe.py"), "BaseDataFrame")
    out = []
    out.append("inductive Target | onSelf | onCopy deriving DecidableEq, Repr")
    out.append("/-- `_resolve_pending_hints`: the object whose partition hints the loop walks / from whose `pending_hints` it removes /")
    out.append("    whose expression receives the hint clause / that is returned; whose join hints it walks, and whether it rewrites a hint node in place -/")
    r = _resolve_decisions(find_func(df.body, "_resolve_pending_hints"))
    for k in ("resolveIterates", "resolveRemovesFrom", "resolveAttachesTo", "resolveReturns", "resolveJoinIterates"):
        out.append(f"def {k} : Target := .{r[k]}")
    out.append(f"def resolveRewritesJoinHintNode : Bool := {r['resolveRewritesJoinHintNode']}")
    out.append("/-- `_hint`: the object whose `pending_hints` receives the new hint (the copy is what is returned) -/")
    out.append(f"def hintAppendsTo : Target := .{_hint_decisions(find_func(df.body, '_hint'))}")
    out.append("/-- `limit`: reads the LIMIT already present; returns `self.copy(expression=…)`; builds it with sqlglot's copying builder -/")
    for k, v in _limit_decisions(find_func(df.body, "limit")).items():
        out.append(f"def {k} : Bool := {v}")
    # copy(): does anything deep-copy the hint nodes?  object_to_dict copies each attribute with `v.copy()`: a list's copy is shallow
    out.append("/-- the hint nodes in `pending_hints` are shared between a DataFrame and its copies (`copy()` hands `object_to_dict`'s")
    out.append("    shallow `list.copy()` to the constructor, which stores it as it is) -/")
    out.append(f"def copySharesHintNodes : Bool := {str(_copy_shares_hint_nodes(df)).lower()}")
    # alias(): the loop that re-points join hints at the new sequence id
    al = find_func(df.body, "alias")
    al_sets = [n for n in ast.walk(al) if isinstance(n, ast.Call) and isinstance(n.func, ast.Attribute) and n.func.attr == "set"]
    al_loops = [n for n in ast.walk(al) if isinstance(n, ast.For) and isinstance(n.iter, ast.Attribute) and n.iter.attr == "pending_join_hints"]
    if len(al_loops) > 1 or (al_sets and not al_loops):
        raise Untranslatable("Gen.Purity.alias", "join-hint rewriting in alias() not understood")
    if al_loops:
        copies = _copy_locals(al)
        if not isinstance(al_loops[0].iter.value, ast.Name):
            raise Untranslatable("Gen.Purity.alias", "join-hint loop over an unknown object")
        where = _target(al_loops[0].iter.value.id, "self", copies, "Gen.Purity.alias")
        copied_nodes = any(isinstance(n, ast.Call) and isinstance(n.func, ast.Attribute) and n.func.attr == "copy" and "hint" in ast.unparse(n.func.value) for n in ast.walk(al))
    else:
        where, copied_nodes = "onCopy", True
    out.append("/-- `alias`: the DataFrame whose join hints are re-pointed at the new sequence id, and whether the hint node is rewritten in place -/")
    out.append(f"def aliasRepointsHintsOf : Target := .{where}")
    out.append(f"def aliasRewritesHintNode : Bool := {str(bool(al_sets) and not copied_nodes).lower()}")
    marker = "/-- static call graph"
    i = text.index(marker)
    return text[:i] + "\n".join(out) + "\n\n" + text[i:]


# ------------------------------------------------------------------------------------------------
# Gen/Writes.lean: which DataFrame-owned state each member can write in place (tools/c04_alias.py)
# ------------------------------------------------------------------------------------------------


def _public(name: str) -> bool:
    return not name.startswith("_") or name in ("__getitem__", "__getattr__", "__copy__")


def _copy_shares_hint_nodes(df: ast.ClassDef) -> bool:
    """`copy()` hands `object_to_dict`'s shallow `list.copy()` of `pending_hints` to the constructor, which stores the list it is
    given: the hint nodes are shared unless one of the two copies them"""
    cp = find_func(df.body, "copy")
    init = find_func(df.body, "__init__")
    deep_init = any("pending_hints" in ast.unparse(n) and ".copy()" in ast.unparse(n) for n in init.body if isinstance(n, ast.Assign))
    return "pending_hints" not in ast.unparse(cp) and not deep_init


def writes_table(repo: str) -> t.Dict[str, t.Any]:
    mod = parse(repo, "sqlframe/base/dataframe.py")
    df = find_class(mod, "BaseDataFrame")
    duck = find_class(parse(repo, "sqlframe/duckdb/dataframe.py"), "DuckDBDataFrame")
    mixin = find_class(parse(repo, "sqlframe/base/mixins/dataframe_mixins.py"), "TypedColumnsFromTempViewMixin")
    op = find_func(parse(repo, "sqlframe/base/operations.py").body, "operation")
    wrapper = find_func(find_func(op.body, "decorator").body, "wrapper")
    an = c04_alias.analyze_class([df, duck, mixin], wrapper, shares_hints=_copy_shares_hint_nodes(df))

    def locs(s: c04_alias.Summary) -> t.List[str]:
        return sorted({p if kind == "own" else f"{p}.hints" for (p, kind) in s.writes})

    table = {m: locs(an.pub[m]) for m in an.methods if _public(m)}
    for a, m in an.aliases.items():
        if _public(a):
            table[a] = table.get(m, locs(an.pub[m]))
    helpers = sorted(m for m in an.methods if not _public(m) and any(kind == "own" and p == an.methods[m].args.args[0].arg for (p, kind) in an.raw[m].writes if an.methods[m].args.args))
    returns = sorted(m for m in table if m in an.methods and any(k == "S" for k, _ in an.pub[m].ret))
    hint_sites = sorted({site.split(":")[0] for m in an.methods for (p, kind), sites in an.raw[m].writes.items() if kind == "hints" for site in sites if "->" not in site})
    sites = {m: {f"{p}{'' if kind == 'own' else '.hints'}": sorted(v)[:3] for (p, kind), v in an.pub[m].writes.items()} for m in an.methods if _public(m)}
    return {"table": table, "helpers": helpers, "returns": returns, "hint_sites": hint_sites, "sites": sites, "decorated": sorted(an.decorated)}


def gen_writes(repo: str) -> str:
    w = writes_table(repo)
    out = [HEADER, "namespace Sqlframe.Gen", ""]
    out.append("/-- for every public member of BaseDataFrame (through `operation.wrapper` where decorated): the state owned by a DataFrame or")
    out.append("    argument *passed in* that it can write in place — `self` / `<param>` = that object's own state, `<param>.hints` = a hint")
    out.append("    node shared by that DataFrame and its copies (static alias analysis, tools/c04_alias.py) -/")
    out.append("def receiverWrites : List (String × List String) := [")
    rows = []
    for k in sorted(w["table"]):
        v = w["table"][k]
        rows.append(f"  ({lean_str(k)}, [{', '.join(lean_str(x) for x in v)}])")
    out.append(",\n".join(rows))
    out.append("]")
    out.append("/-- private helpers that write their own receiver (constructor, display-name recorder): the table above shows that no")
    out.append("    public member reaches them on a DataFrame that was passed in -/")
    out.append(f"def selfWritingHelpers : List String := [{', '.join(lean_str(x) for x in w['helpers'])}]")
    out.append("/-- public members that can hand back the receiver object itself -/")
    out.append(f"def returnsReceiver : List String := [{', '.join(lean_str(x) for x in w['returns'])}]")
    out.append("/-- the methods that contain a write to a shared hint node -/")
    out.append(f"def hintNodeWriteSites : List String := [{', '.join(lean_str(x) for x in w['hint_sites'])}]")
    out.append("")
    out.append("end Sqlframe.Gen")
    return "\n".join(out) + "\n"


GENERATORS = {"Purity": gen_purity2, "Writes": gen_writes}
