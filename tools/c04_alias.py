"""
c04_alias.py — static alias analysis for C04 (used by tools/gen_c04.py -> Gen/Writes.lean).  Python `ast` only.

Question answered, for every method of BaseDataFrame (and for the public method = `operation.wrapper` around it):
which state *owned by a DataFrame that was passed in* (the receiver `self`, another DataFrame parameter, a caller's
column list) can the method write in place, and can it return the receiver itself?

Abstract values are sets of tokens (kind, param):
  S(p)   the DataFrame object passed as p itself
  C(p)   a DataFrame built by `p.copy(...)` (fresh object; by `object_to_dict` its `pending_hints` list is a *shallow*
         copy: the hint nodes are shared with p; every other attribute is a deep copy / immutable)
  O(p)   mutable state owned by p (its expression tree or a node of it, its display map, its lists; for a non-DataFrame
         parameter: the object itself or a part of it)
  OL(p)  a fresh container whose elements are O(p)
  PL(p)  p's own `pending_hints` list
  HL(p)  a fresh list whose elements are hint nodes of p
  H(p)   a hint node of p (shared by p and all its copies)
  {}     fresh / immutable / session-owned (the session's registries are C13/C18's business)
The analysis is flow-sensitive per function (strong updates on local names, union at joins, loops run twice) and
uses summaries (writes per parameter, tokens of the return value) for calls between methods, iterated to a fixed point.
Calls that leave the class are classified by explicit tables (mutators, alias-returning readers, sqlglot builders that
copy unless `copy=False`, pure functions); anything that receives DataFrame-owned state and is in no table raises
Untranslatable — never guessed.  Not tracked (stated in the manifest): a receiver-owned node *stored into* a fresh tree
(sqlglot then rewrites the node's parent pointer), element aliasing through `list()`/`copy()` of a list of columns.
"""
from __future__ import annotations

import ast
import typing as t

from translate import Untranslatable

Tok = t.Tuple[str, str]
Val = t.FrozenSet[Tok]
FRESH: Val = frozenset()

# methods of lists / dicts / sets / sqlglot nodes / Column that change the object they are called on
MUTATORS = {"set", "append", "extend", "insert", "remove", "pop", "clear", "update", "add", "discard", "setdefault", "sort", "reverse",
            "replace", "popitem", "set_table_name", "__setitem__", "__delitem__"}
# readers that hand out (parts of) the object they are called on
ALIAS_RET = {"get", "find", "find_all", "find_ancestor", "walk", "bfs", "dfs", "assert_is", "unnest", "unalias", "items", "values", "keys",
             "flatten", "iter_expressions", "root", "unnest_operands"}
# sqlglot builders (copy=True unless told otherwise) and readers returning new / immutable values
FRESH_RET = {"copy", "sql", "select", "where", "limit", "order_by", "group_by", "having", "distinct", "join", "union", "intersect", "except_",
             "from_", "with_", "subquery", "as_", "transform", "lateral", "window", "qualify", "offset", "sort_by", "cluster_by", "hint",
             "lower", "upper", "strip", "split", "startswith", "endswith", "format", "index", "count", "is_type", "text", "dump", "isNull",
             "alias", "over", "otherwise", "when", "cast", "asc", "desc", "name", "to_s", "encode", "join_", "difference", "issubset",
             "is_star", "named_selects", "alias_or_name", "column_alias_or_name", "output_name", "get_prompt", "from_dict"}
# functions (by bare name) that only read their arguments; those marked container return a fresh container of the same elements
PURE_FUNCS = {"isinstance", "len", "str", "int", "bool", "float", "min", "max", "any", "all", "print", "range", "hasattr", "type", "repr", "id",
              "sum", "abs", "round", "next", "quote_preserving_alias_or_name", "get_func_from_session", "sqlglot_to_spark", "maybe_parse",
              "verify_openai_installed", "normalize_string", "uuid4", "super", "NotImplementedError", "ValueError", "RuntimeError", "callable"}
CONTAINER_FUNCS = {"list", "tuple", "set", "sorted", "reversed", "dict", "zip", "enumerate", "flatten", "ensure_list", "copy", "filter", "map", "iter"}
ALIAS_FUNCS = {"get_tables_from_expression_with_join", "getattr", "seq_get"}
# functions that rewrite an argument in place: name -> positional indices
WRITER_FUNCS = {"normalize": [2], "qualify": [0], "pushdown_projections": [0]}
# module-like bases whose functions / constructors only read (and may keep a reference to) their arguments
PURE_BASES = {"exp", "sqlglot", "F", "functools", "itertools", "types", "json", "zlib", "uuid", "logger", "Column", "Dialect", "OpenAIConfig",
              "sqlglot_lineage", "t", "Window", "Operation", "logging", "sys", "client", "StructType", "StructField"}
# class attributes of BaseDataFrame that are constructors of helper objects holding (a copy of) the DataFrame
HOLDERS = {"_group_data", "_na", "_stat", "_writer", "__class__"}
IMMUTABLE_ANN = {"str", "int", "bool", "float", "bytes", "StorageLevel", "DialectType", "Operation"}
DF_ANN = {"Self", "DF", "BaseDataFrame"}


def _elems(v: Val) -> Val:
    out = set()
    for k, p in v:
        if k in ("O", "OL"):
            out.add(("O", p))
        elif k in ("PL", "HL", "H"):
            out.add(("H", p))
    return frozenset(out)


def _container(v: Val) -> Val:
    """a fresh container holding values v"""
    out = set()
    for k, p in v:
        if k in ("O", "OL", "S", "PL"):
            out.add(("OL", p))
        elif k in ("H", "HL"):
            out.add(("HL", p))
    return frozenset(out)


def _ann_names(a: t.Optional[ast.expr]) -> t.Set[str]:
    if a is None:
        return set()
    if isinstance(a, ast.Constant) and isinstance(a.value, str):
        try:
            a = ast.parse(a.value, mode="eval").body
        except SyntaxError:
            return {a.value}
    return {n.id for n in ast.walk(a) if isinstance(n, ast.Name)} | {n.attr for n in ast.walk(a) if isinstance(n, ast.Attribute)}


class Summary:
    def __init__(self) -> None:
        self.writes: t.Dict[t.Tuple[str, str], t.Set[str]] = {}  # (param, "own" | "hints") -> sites
        self.ret: t.Set[Tok] = set()

    def key(self) -> t.Any:
        return (tuple(sorted((k, tuple(sorted(v))) for k, v in self.writes.items())), tuple(sorted(self.ret)))


class Analysis:
    def __init__(self, methods: t.Dict[str, ast.FunctionDef], props: t.Set[str], aliases: t.Dict[str, str], tags: t.Set[str], wrapper: ast.FunctionDef,
                 shares_hints: bool = True):
        self.shares_hints = shares_hints  # does `copy()` hand the same hint nodes to the new object?
        self.methods = methods
        self.props = props
        self.aliases = aliases
        self.decorated = tags
        self.wrapper = wrapper
        self.raw: t.Dict[str, Summary] = {m: Summary() for m in methods}
        self.pub: t.Dict[str, Summary] = {m: Summary() for m in methods}

    # -------------------------------------------------------------------------------------------
    def params(self, fn: ast.FunctionDef) -> t.Tuple[t.Optional[str], t.List[str], t.Optional[str], t.Dict[str, Val]]:
        """(self name, positional parameter names (without self), *args name, initial environment)"""
        a = fn.args
        names = [x.arg for x in a.posonlyargs + a.args]
        static = any(isinstance(d, ast.Name) and d.id in ("staticmethod", "classmethod") for d in fn.decorator_list)
        is_cls = any(isinstance(d, ast.Name) and d.id == "classmethod" for d in fn.decorator_list)
        env: t.Dict[str, Val] = {}
        selfname = None
        pos = names
        if not static or is_cls:
            selfname, pos = names[0], names[1:]
            env[selfname] = FRESH if is_cls else frozenset({("S", selfname)})
        anns = {x.arg: x.annotation for x in a.posonlyargs + a.args + a.kwonlyargs}
        for p in pos + [x.arg for x in a.kwonlyargs]:
            an = _ann_names(anns.get(p))
            if an and an <= (IMMUTABLE_ANN | {"Optional", "t", "Union", "Literal", "None", "List", "Tuple", "Sequence", "Collection", "PrimitiveType", "Any"}):
                env[p] = FRESH
            elif an & DF_ANN:
                env[p] = frozenset({("S", p)})
            else:
                env[p] = frozenset({("O", p)})
        if a.vararg:
            env[a.vararg.arg] = frozenset({("OL", a.vararg.arg)})
        if a.kwarg:
            env[a.kwarg.arg] = FRESH
        return selfname, pos, (a.vararg.arg if a.vararg else None), env

    # -------------------------------------------------------------------------------------------
    def run(self) -> None:
        for _ in range(12):
            before = {m: (self.raw[m].key(), self.pub[m].key()) for m in self.methods}
            for m, fn in self.methods.items():
                if m == "copy":
                    # `copy()` is the one constructor call: its shape is checked here, its meaning (a new object whose
                    # attributes are `v.copy()` of the receiver's, i.e. deep for sqlglot trees, shallow for lists) is the C token
                    if ast.unparse(fn.body[-1]) != "return self.__class__(**object_to_dict(self, **kwargs))":
                        raise Untranslatable("Gen.Writes.copy", "copy() no longer returns self.__class__(**object_to_dict(self, **kwargs))")
                    s = Summary()
                    s.ret = {("C", fn.args.args[0].arg)}
                    self.raw[m] = self.pub[m] = s
                    continue
                self.raw[m] = _Fn(self, m, fn).analyze()
                self.pub[m] = _Fn(self, m, self.wrapper, wrapped=m).analyze() if m in self.decorated else self.raw[m]
            if before == {m: (self.raw[m].key(), self.pub[m].key()) for m in self.methods}:
                return
        raise Untranslatable("Gen.Writes", "the alias analysis did not reach a fixed point")


class _Fn:
    def __init__(self, an: Analysis, name: str, fn: ast.FunctionDef, wrapped: t.Optional[str] = None):
        self.an = an
        self.name = name
        self.fn = fn
        self.wrapped = wrapped
        self.out = Summary()
        self.local_funcs: t.Dict[str, t.Tuple[ast.FunctionDef, t.Dict[str, Val]]] = {}
        self.depth = 0
        self.pure_locals: t.Set[str] = set()  # locals bound to a session function (`col`, `lit`): they build new Columns
        if wrapped:
            # the public method: operation.wrapper(self, *args, **kwargs) around `wrapped`; the wrapped method's own
            # parameters keep their identity through `func(self, *args, **kwargs)`
            selfname, _, _, env = an.params(fn)
            _, pos, var, env2 = an.params(an.methods[wrapped])
            env.update({k: v for k, v in env2.items() if k not in env})
            self.selfname, self.env0 = selfname, env
        else:
            self.selfname, _, _, self.env0 = an.params(fn)

    def ob(self) -> str:
        return f"Gen.Writes.{self.wrapped or self.name}"

    def site(self, node: ast.AST) -> str:
        return f"{self.fn.name}:{getattr(node, 'lineno', 0)}: {ast.unparse(node)[:70]}"

    def analyze(self) -> Summary:
        env = dict(self.env0)
        self.block(self.fn.body, env)
        return self.out

    # ---- effects ------------------------------------------------------------------------------
    def write(self, v: Val, node: ast.AST, container_op: bool = False) -> None:
        for k, p in v:
            if k in ("S", "O", "PL"):
                self.out.writes.setdefault((p, "own"), set()).add(self.site(node))
            elif k == "H":
                self.out.writes.setdefault((p, "hints"), set()).add(self.site(node))
            elif k in ("OL", "HL") and not container_op:
                self.out.writes.setdefault((p, "own" if k == "OL" else "hints"), set()).add(self.site(node))

    # ---- statements ---------------------------------------------------------------------------
    def join(self, a: t.Dict[str, Val], b: t.Dict[str, Val]) -> t.Dict[str, Val]:
        return {k: a.get(k, FRESH) | b.get(k, FRESH) for k in set(a) | set(b)}

    def bind(self, target: ast.expr, v: Val, env: t.Dict[str, Val], node: ast.AST) -> None:
        if isinstance(target, ast.Name):
            env[target.id] = v
        elif isinstance(target, (ast.Tuple, ast.List)):
            for e in target.elts:
                self.bind(e.value if isinstance(e, ast.Starred) else e, _elems(v) | frozenset(x for x in v if x[0] in ("S", "C")), env, node)
        elif isinstance(target, (ast.Attribute, ast.Subscript)):
            base = self.ev(target.value, env)
            if isinstance(target, ast.Subscript):
                self.ev(target.slice, env)
            self.write(base, node, container_op=True)
        else:
            raise Untranslatable(self.ob(), f"assignment target {ast.unparse(target)}")

    def block(self, stmts: t.Sequence[ast.stmt], env: t.Dict[str, Val]) -> None:
        for st in stmts:
            self.stmt(st, env)

    def stmt(self, st: ast.stmt, env: t.Dict[str, Val]) -> None:
        if isinstance(st, ast.Assign):
            v = self.ev(st.value, env)
            if isinstance(st.value, ast.Call) and isinstance(st.value.func, ast.Name) and st.value.func.id == "get_func_from_session":
                self.pure_locals |= {tg.id for tg in st.targets if isinstance(tg, ast.Name)}
            for tg in st.targets:
                self.bind(tg, v, env, st)
        elif isinstance(st, ast.AnnAssign):
            if st.value is not None:
                self.bind(st.target, self.ev(st.value, env), env, st)
        elif isinstance(st, ast.AugAssign):
            v = self.ev(st.value, env)
            if isinstance(st.target, ast.Name):
                cur = env.get(st.target.id, FRESH)
                self.write(cur, st, container_op=True)  # `lst += …` extends the list in place
                env[st.target.id] = cur | v
            else:
                self.bind(st.target, v, env, st)
        elif isinstance(st, ast.Expr):
            self.ev(st.value, env)
        elif isinstance(st, ast.Return):
            if st.value is not None:
                self.out.ret |= set(self.ev(st.value, env))
        elif isinstance(st, ast.If):
            self.ev(st.test, env)
            e1, e2 = dict(env), dict(env)
            self.block(st.body, e1)
            self.block(st.orelse, e2)
            env.clear()
            env.update(self.join(e1, e2))
        elif isinstance(st, (ast.For, ast.While)):
            for _ in range(2):
                e1 = dict(env)
                if isinstance(st, ast.For):
                    it = self.ev(st.iter, e1)
                    self.bind(st.target, _elems(it), e1, st)
                else:
                    self.ev(st.test, e1)
                self.block(st.body, e1)
                j = self.join(env, e1)
                env.clear()
                env.update(j)
            self.block(st.orelse, env)
        elif isinstance(st, ast.With):
            for it in st.items:
                v = self.ev(it.context_expr, env)
                if it.optional_vars is not None:
                    self.bind(it.optional_vars, v, env, st)
            self.block(st.body, env)
        elif isinstance(st, ast.Try):
            self.block(st.body, env)
            for h in st.handlers:
                e1 = dict(env)
                self.block(h.body, e1)
                j = self.join(env, e1)
                env.clear()
                env.update(j)
            self.block(st.orelse, env)
            self.block(st.finalbody, env)
        elif isinstance(st, ast.FunctionDef):
            e1 = dict(env)
            for x in st.args.args + st.args.kwonlyargs:
                e1[x.arg] = FRESH
            saved = set(self.out.ret)
            self.block(st.body, e1)
            self.out.ret = saved  # a nested function's return value is not the method's
            env[st.name] = FRESH
            self.local_funcs[st.name] = (st, dict(env))
        elif isinstance(st, ast.Delete):
            for tg in st.targets:
                if isinstance(tg, (ast.Attribute, ast.Subscript)):
                    self.write(self.ev(tg.value, env), st, container_op=True)
        elif isinstance(st, ast.Raise):
            if st.exc is not None:
                self.ev(st.exc, env)
        elif isinstance(st, ast.Assert):
            self.ev(st.test, env)
        elif isinstance(st, (ast.Pass, ast.Import, ast.ImportFrom, ast.Break, ast.Continue, ast.Global, ast.Nonlocal)):
            pass
        else:
            raise Untranslatable(self.ob(), f"statement {type(st).__name__}")

    # ---- expressions --------------------------------------------------------------------------
    def ev(self, e: t.Optional[ast.expr], env: t.Dict[str, Val]) -> Val:
        if e is None or isinstance(e, ast.Constant):
            return FRESH
        if isinstance(e, ast.Name):
            return env.get(e.id, FRESH)
        if isinstance(e, ast.Attribute):
            return self.attr(self.ev(e.value, env), e.attr, e)
        if isinstance(e, ast.Subscript):
            v = self.ev(e.value, env)
            self.ev(e.slice, env)
            return _elems(v)
        if isinstance(e, ast.Slice):
            for x in (e.lower, e.upper, e.step):
                self.ev(x, env)
            return FRESH
        if isinstance(e, ast.Starred):
            return self.ev(e.value, env)
        if isinstance(e, ast.NamedExpr):
            v = self.ev(e.value, env)
            self.bind(e.target, v, env, e)
            return v
        if isinstance(e, ast.BoolOp):
            out: Val = FRESH
            for x in e.values:
                out |= self.ev(x, env)
            return out
        if isinstance(e, ast.IfExp):
            self.ev(e.test, env)
            return self.ev(e.body, env) | self.ev(e.orelse, env)
        if isinstance(e, ast.BinOp):
            return _container(_elems(self.ev(e.left, env)) | _elems(self.ev(e.right, env)))
        if isinstance(e, ast.UnaryOp):
            self.ev(e.operand, env)
            return FRESH
        if isinstance(e, ast.Compare):
            self.ev(e.left, env)
            for x in e.comparators:
                self.ev(x, env)
            return FRESH
        if isinstance(e, (ast.List, ast.Tuple, ast.Set)):
            out = FRESH
            for x in e.elts:
                v = self.ev(x, env)
                out |= _container(v) if not isinstance(x, ast.Starred) else _container(_elems(v))
            return out
        if isinstance(e, ast.Dict):
            out = FRESH
            for k, x in zip(e.keys, e.values):
                self.ev(k, env)
                v = self.ev(x, env)
                out |= _container(v) if k is not None else _container(_elems(v))
            return out
        if isinstance(e, (ast.ListComp, ast.SetComp, ast.GeneratorExp, ast.DictComp)):
            e1 = dict(env)
            for g in e.generators:
                it = self.ev(g.iter, e1)
                self.bind(g.target, _elems(it), e1, e)
                for c in g.ifs:
                    self.ev(c, e1)
            if isinstance(e, ast.DictComp):
                self.ev(e.key, e1)
                return _container(self.ev(e.value, e1))
            return _container(self.ev(e.elt, e1))
        if isinstance(e, ast.Lambda):
            e1 = dict(env)
            for x in e.args.args:
                e1[x.arg] = FRESH
            self.ev(e.body, e1)
            return FRESH
        if isinstance(e, ast.JoinedStr):
            for x in e.values:
                if isinstance(x, ast.FormattedValue):
                    self.ev(x.value, env)
            return FRESH
        if isinstance(e, ast.FormattedValue):
            self.ev(e.value, env)
            return FRESH
        if isinstance(e, ast.Call):
            return self.call(e, env)
        raise Untranslatable(self.ob(), f"expression {type(e).__name__}: {ast.unparse(e)[:60]}")

    def attr(self, v: Val, attr: str, node: ast.AST) -> Val:
        out: t.Set[Tok] = set()
        for k, p in v:
            if k in ("S", "C"):
                if attr == "session":
                    continue
                if attr in self.an.props:
                    out |= self.apply(attr, frozenset({(k, p)}), {}, node, public=True)
                elif attr == "pending_hints":
                    if k == "S":
                        out.add(("PL", p))
                    elif self.an.shares_hints:
                        out.add(("HL", p))
                elif attr in self.an.methods or attr in self.an.aliases or attr in HOLDERS:
                    continue
                elif k == "S":
                    out.add(("O", p))
            elif k == "H":
                out.add(("H", p))
            elif k in ("O", "OL", "PL", "HL"):
                out.add(("O", p) if k in ("O", "OL") else ("H", p))
        return frozenset(out)

    # ---- calls --------------------------------------------------------------------------------
    def apply(self, m: str, recv: Val, args: t.Dict[str, Val], node: ast.AST, public: bool) -> Val:
        """effects and result of calling class method m with receiver value `recv` and parameter values `args`"""
        m = self.an.aliases.get(m, m)
        summ = (self.an.pub if public else self.an.raw)[m]
        selfname, pos, var, _ = self.an.params(self.an.methods[m])
        actual = dict(args)
        if selfname:
            actual[selfname] = recv

        def through(q: str, kind: str) -> None:
            for k, p in actual.get(q, FRESH):
                if kind == "own":
                    if k in ("S", "O", "PL", "OL"):
                        self.out.writes.setdefault((p, "own"), set()).add(self.site(node) + f" -> {m}")
                    elif k in ("H", "HL"):
                        self.out.writes.setdefault((p, "hints"), set()).add(self.site(node) + f" -> {m}")
                elif k in ("S", "O", "OL", "H", "HL", "PL") or (k == "C" and self.an.shares_hints):
                    self.out.writes.setdefault((p, "hints"), set()).add(self.site(node) + f" -> {m}")

        for (q, kind) in summ.writes:
            through(q, kind)
        out: t.Set[Tok] = set()
        for k, q in summ.ret:
            for k2, p in actual.get(q, FRESH):
                if k == "S":
                    out.add((k2, p))
                elif k == "C":
                    if k2 in ("S", "C"):
                        out.add(("C", p))
                elif k in ("O", "OL"):
                    if k2 in ("S", "O", "OL"):
                        out.add((k, p))
                    elif k2 in ("H", "HL", "PL"):
                        out.add(("H" if k == "O" else "HL", p))
                elif k in ("H", "HL"):
                    if k2 in ("S", "O", "OL", "H", "HL", "PL") or (k2 == "C" and self.an.shares_hints):
                        out.add((k, p))
                elif k == "PL":
                    if k2 == "S":
                        out.add(("PL", p))
                    elif k2 == "C" and self.an.shares_hints:
                        out.add(("HL", p))
        return frozenset(out)

    def argmap(self, m: str, avals: t.List[t.Tuple[bool, Val]], kw: t.Dict[t.Optional[str], Val]) -> t.Dict[str, Val]:
        """bind positional / keyword argument values to the parameters of class method m"""
        m = self.an.aliases.get(m, m)
        _, pos, var, _ = self.an.params(self.an.methods[m])
        kwonly = [x.arg for x in self.an.methods[m].args.kwonlyargs]
        out: t.Dict[str, Val] = {}
        i = 0
        for starred, v in avals:
            if starred:
                # spread over every remaining positional parameter and the vararg
                for q in pos[i:]:
                    out[q] = out.get(q, FRESH) | _elems(v)
                if var:
                    out[var] = out.get(var, FRESH) | _container(_elems(v))
                continue
            if i < len(pos):
                out[pos[i]] = out.get(pos[i], FRESH) | v
                i += 1
            elif var:
                out[var] = out.get(var, FRESH) | _container(v)
        for k, v in kw.items():
            if k is not None and (k in pos or k in kwonly):
                out[k] = out.get(k, FRESH) | v
        return out

    def call(self, e: ast.Call, env: t.Dict[str, Val]) -> Val:
        f = e.func
        avals = [(isinstance(a, ast.Starred), self.ev(a, env)) for a in e.args]
        kw = {k.arg: self.ev(k.value, env) for k in e.keywords}
        allargs: Val = FRESH
        for _, v in avals:
            allargs |= v
        for v in kw.values():
            allargs |= v
        owned = frozenset(x for x in allargs if x[0] in ("S", "O", "PL", "H", "OL", "HL"))
        copy_false = any(k.arg == "copy" and isinstance(k.value, ast.Constant) and k.value.value is False for k in e.keywords)

        # the method the public wrapper wraps
        if self.wrapped and isinstance(f, ast.Name) and f.id == "func":
            recv = avals[0][1] if avals else FRESH
            _, pos, var, env0 = self.an.params(self.an.methods[self.wrapped])
            ident = {q: env0.get(q, FRESH) for q in pos + ([var] if var else []) + [x.arg for x in self.an.methods[self.wrapped].args.kwonlyargs]}
            return self.apply(self.wrapped, recv, ident, e, public=False)

        # <x>.m.__wrapped__(recv, …): the undecorated body of class method m
        if isinstance(f, ast.Attribute) and f.attr == "__wrapped__" and isinstance(f.value, ast.Attribute) and (f.value.attr in self.an.methods or f.value.attr in self.an.aliases):
            self.ev(f.value.value, env)
            recv = avals[0][1] if avals else FRESH
            return self.apply(f.value.attr, recv, self.argmap(f.value.attr, avals[1:], kw), e, public=False)

        if isinstance(f, ast.Name) and f.id in self.local_funcs:
            # a function defined inside the method: its body again, with the parameters bound to these arguments
            st, e0 = self.local_funcs[f.id]
            if self.depth >= 2:
                return allargs
            e1 = dict(e0)
            names = [x.arg for x in st.args.args]
            for q, (_, v) in zip(names, avals):
                e1[q] = v
            for k, v in kw.items():
                if k in names:
                    e1[k] = v
            saved = set(self.out.ret)
            self.out.ret = set()
            self.depth += 1
            self.block(st.body, e1)
            self.depth -= 1
            r = frozenset(self.out.ret)
            self.out.ret = saved
            return r
        if isinstance(f, ast.Name):
            n = f.id
            if n in self.env0 and n not in PURE_FUNCS and self.env0.get(n) is not None and n in [a.arg for a in self.fn.args.args]:
                # calling a parameter (DataFrame.transform's user function): it may hand back what it was given
                return allargs
            if n in CONTAINER_FUNCS:
                return _container(_elems(allargs) | frozenset(x for x in allargs if x[0] in ("S",)))
            if n in ALIAS_FUNCS:
                return _elems(allargs) | frozenset(("O", p) for k, p in allargs if k == "S")
            if n in WRITER_FUNCS:
                for i in WRITER_FUNCS[n]:
                    if i < len(avals):
                        self.write(avals[i][1], e)
                return FRESH
            if n in PURE_FUNCS or n[:1].isupper() or n in self.pure_locals:
                return FRESH
            if not owned:
                return FRESH
            raise Untranslatable(self.ob(), f"DataFrame-owned state passed to unknown function {n}(): {ast.unparse(e)[:80]}")

        if isinstance(f, ast.Attribute):
            m = f.attr
            rv = self.ev(f.value, env)
            dfish = frozenset(x for x in rv if x[0] in ("S", "C"))
            stateish = frozenset(x for x in rv if x[0] not in ("S", "C"))
            out: Val = FRESH
            is_method = (m in self.an.methods or m in self.an.aliases) and m not in self.an.props
            if m == "copy" and (dfish or stateish):
                return frozenset(("C", p) for _, p in dfish) | frozenset(("HL", p) for k, p in stateish if k in ("PL", "HL"))
            if dfish:
                if is_method:
                    out |= self.apply(m, dfish, self.argmap(m, avals, kw), e, public=True)
                elif m in HOLDERS:
                    pass
                else:
                    raise Untranslatable(self.ob(), f"unknown method {m}() on a DataFrame: {ast.unparse(e)[:80]}")
            if stateish:
                if m in MUTATORS or copy_false:
                    self.write(stateish, e, container_op=(m != "set" and m != "replace" and m != "set_table_name" and not copy_false))
                    if m in ("pop", "setdefault") or copy_false:
                        out |= _elems(stateish) if m in ("pop", "setdefault") else stateish
                elif m in ALIAS_RET:
                    out |= _elems(stateish) if m not in ("assert_is", "unnest", "unalias") else frozenset(
                        (("O", p) if k in ("O", "OL") else ("H", p)) for k, p in stateish)
                elif m in FRESH_RET:
                    pass
                else:
                    raise Untranslatable(self.ob(), f"unknown method {m}() on DataFrame-owned state: {ast.unparse(e)[:80]}")
            if not rv:
                # a fresh / external receiver
                if is_method and not self._module_like(f.value) and not isinstance(f.value, (ast.Constant, ast.JoinedStr)):
                    # a DataFrame built inside the method (or a sqlglot builder of the same name, which writes nothing)
                    out |= self.apply(m, FRESH, self.argmap(m, avals, kw), e, public=True)
                elif copy_false and avals:
                    # a module-level sqlglot builder told not to copy works on its first argument
                    self.write(avals[0][1], e)
            return out

        # anything else that is called (a call result, a subscript): evaluate it for its effects
        self.ev(f, env)
        if owned:
            raise Untranslatable(self.ob(), f"DataFrame-owned state passed to a computed callee: {ast.unparse(e)[:80]}")
        return FRESH

    def _module_like(self, e: ast.expr) -> bool:
        while isinstance(e, ast.Attribute):
            e = e.value
        return isinstance(e, ast.Name) and e.id in PURE_BASES


def analyze_class(classes: t.List[ast.ClassDef], wrapper: ast.FunctionDef, shares_hints: bool = True) -> Analysis:
    """classes: the base class first, overriding classes after it"""
    methods: t.Dict[str, ast.FunctionDef] = {}
    props: t.Set[str] = set()
    tags: t.Set[str] = set()
    aliases: t.Dict[str, str] = {}
    for c in classes:
        for st in c.body:
            if isinstance(st, ast.FunctionDef):
                decs = [ast.unparse(d) for d in st.decorator_list]
                if any(d.endswith("overload") for d in decs):
                    continue
                methods[st.name] = st
                props.discard(st.name)
                tags.discard(st.name)
                if "property" in decs:
                    props.add(st.name)
                if any(d.startswith("operation(") for d in decs):
                    tags.add(st.name)
            elif isinstance(st, ast.Assign) and len(st.targets) == 1 and isinstance(st.targets[0], ast.Name) and isinstance(st.value, ast.Name) and st.value.id in methods:
                aliases[st.targets[0].id] = st.value.id
    an = Analysis(methods, props, aliases, tags, wrapper, shares_hints)
    an.run()
    return an
