"""
gen_c14.py — translator part for C14 (writes, save modes):  Gen/Writer.lean, Gen/C14Options.lean

Extracted from /repo's working tree with Python `ast` (sqlframe is never imported):

  sqlframe/base/readerwriter.py  _BaseDataFrameWriter.saveAsTable   -> effectiveMode, saveAction
                                 _BaseDataFrameWriter.insertInto    -> byNameReorders, byNameSource, insertExecutes, insertPassesOverwrite
                                 _BaseDataFrameWriter._validate_mode-> pathMode, validateMode
  sqlframe/duckdb/readwriter.py  DuckDBDataFrameWriter._write       -> fileValidatesFirst, fileAppendRaises

  Gen/C14Options.lean (how the options of the file writers / readers reach the engine):
  sqlframe/base/util.py          to_csv                             -> toCsvKeeps (the `if` of its comprehension), toCsvJoin
  sqlframe/base/readerwriter.py  _BaseDataFrameWriter.csv/json/parquet -> writerParams, writerCall (keyword -> literal | parameter)
                                 _BaseDataFrameReader.csv/json/parquet -> readerParams, readerCall, readerKeeps, readerMerge
                                 _BaseDataFrameReader.option/options   -> optionSets, optionsMerge
  sqlframe/duckdb/readwriter.py  DuckDBDataFrameWriter._write       -> duckWriteEq, duckWriteFormatInOptions
                                 DuckDBDataFrameReader.load         -> loadMerge, loadPops, loadColumnsFor, loadEq, loadReloadsWithSchema

`saveAsTable` is run by a small symbolic interpreter, once per (mode literal, target-exists) pair; the
statement shapes it understands are listed in `_SaveInterp`.  Anything else raises Untranslatable.
"""
from __future__ import annotations

import ast
import typing as t

from translate import HEADER, Untranslatable, find_class, find_func, lean_str, parse

OB = "Gen.Writer"
SPEC_MODES = ["None", "error", "errorifexists", "ignore", "overwrite", "append"]
FRESH = "\x00other"


def _dotted(node: ast.AST) -> str:
    try:
        return ast.unparse(node)
    except Exception:
        return "?"


# ------------------------------------------------------------------------------------------------
# `a or b or c` over the mode argument / the writer's stored mode -> a Lean String expression
# ------------------------------------------------------------------------------------------------


def _or_chain(node: ast.expr, ob: str) -> str:
    """python truthiness `or` chain whose last operand is always a string; operands:
    `mode` (Optional[str] argument), `self._mode` (Optional[str] state), `str(self._mode)`, "literal" """
    ops = node.values if isinstance(node, ast.BoolOp) and isinstance(node.op, ast.Or) else [node]
    last = ops[-1]

    def total(n: ast.expr) -> t.Optional[str]:
        if isinstance(n, ast.Constant) and isinstance(n.value, str):
            return lean_str(n.value)
        if isinstance(n, ast.Call) and _dotted(n.func) == "str" and len(n.args) == 1 and _dotted(n.args[0]) == "self._mode":
            return "(pyStr st)"
        return None

    def partial(n: ast.expr) -> t.Optional[str]:
        if isinstance(n, ast.Name) and n.id == "mode":
            return "arg"
        if _dotted(n) == "self._mode":
            return "st"
        return None

    acc = total(last)
    if acc is None:
        raise Untranslatable(ob, f"mode default {_dotted(node)!r} may be None")
    for n in reversed(ops[:-1]):
        p = partial(n)
        if p is not None:
            acc = f"(pyOr {p} {acc})"
            continue
        tt = total(n)
        if tt is not None:
            acc = f"(pyOrS {tt} {acc})"
            continue
        raise Untranslatable(ob, f"unsupported operand {_dotted(n)!r} in {_dotted(node)!r}")
    return acc


# ------------------------------------------------------------------------------------------------
# saveAsTable
# ------------------------------------------------------------------------------------------------


class _Ret(Exception):
    def __init__(self, action: str):
        self.action = action


class _SaveInterp:
    """Concrete interpreter of saveAsTable's body for one (mode string, target exists) input.

    statements understood:
      if <test>: ... [elif/else]               tests over mode ==/!=/in/not in literals, and/or/not,
                                               `format is (not) None` (format = None: the modelled call),
                                               <catalog>.tableExists(name), self._session._has_connection,
                                               the local flags
      a, b, mode = <const>, <const>, <or-chain>   /   x = <const>   /   name = normalize_string(...)
      output_expression_container = exp.Create(this=..., kind="TABLE", exists=<flag>, replace=<flag>)
      df = self._df.copy(output_expression_container=output_expression_container)
      df.collect()
      return self.insertInto(name) | self.byName.insertInto(name) | self.copy(_df=df)
      raise ...
    """

    def __init__(self, fn: ast.FunctionDef, mode: str, exists: bool):
        self.fn = fn
        self.env: t.Dict[str, t.Any] = {"mode": mode}
        self.exists = exists
        self.mode_expr: t.Optional[str] = None
        self.create: t.Optional[t.Tuple[bool, bool]] = None
        self.container_attached = False
        self.collected = False

    def fail(self, why: str) -> t.NoReturn:
        raise Untranslatable(OB + ".saveAction", why)

    def const(self, n: ast.expr) -> t.Any:
        if isinstance(n, ast.Constant) and (n.value is None or isinstance(n.value, (bool, str))):
            return n.value
        if isinstance(n, ast.Name) and n.id in self.env and n.id != "mode":
            return self.env[n.id]
        self.fail(f"unsupported value {_dotted(n)!r}")

    def test(self, n: ast.expr) -> bool:
        if isinstance(n, ast.BoolOp):
            vals = [self.test(v) for v in n.values]
            return all(vals) if isinstance(n.op, ast.And) else any(vals)
        if isinstance(n, ast.UnaryOp) and isinstance(n.op, ast.Not):
            return not self.test(n.operand)
        if isinstance(n, ast.Compare) and len(n.ops) == 1:
            left, op, right = n.left, n.ops[0], n.comparators[0]
            if isinstance(left, ast.Name) and left.id == "format" and isinstance(right, ast.Constant) and right.value is None:
                if isinstance(op, ast.IsNot):
                    return False
                if isinstance(op, ast.Is):
                    return True
            if isinstance(left, ast.Name) and left.id == "mode":
                m = self.env["mode"]
                if isinstance(op, (ast.Eq, ast.NotEq)) and isinstance(right, ast.Constant) and isinstance(right.value, str):
                    return (m == right.value) == isinstance(op, ast.Eq)
                if isinstance(op, (ast.In, ast.NotIn)) and isinstance(right, (ast.Set, ast.Tuple, ast.List)):
                    vals = [self.const(e) for e in right.elts]
                    return (m in vals) == isinstance(op, ast.In)
            self.fail(f"unsupported comparison {_dotted(n)!r}")
        if isinstance(n, ast.Call) and isinstance(n.func, ast.Attribute) and n.func.attr == "tableExists":
            if _dotted(n.func.value) in ("self._session.catalog", "self._df.session.catalog") and len(n.args) == 1 and _dotted(n.args[0]) == "name":
                return self.exists
            self.fail(f"unsupported existence test {_dotted(n)!r}")
        if _dotted(n) == "self._session._has_connection":
            return True
        if isinstance(n, ast.Name) and n.id in self.env and n.id != "mode":
            return bool(self.env[n.id])
        self.fail(f"unsupported test {_dotted(n)!r}")

    def run_block(self, body: t.Sequence[ast.stmt]) -> None:
        for st in body:
            self.stmt(st)

    def stmt(self, st: ast.stmt) -> None:
        if isinstance(st, ast.Expr) and isinstance(st.value, ast.Constant):
            return
        if isinstance(st, ast.If):
            self.run_block(st.body if self.test(st.test) else st.orelse)
            return
        if isinstance(st, ast.Raise):
            raise _Ret("SaveAction.raise")
        if isinstance(st, ast.Return):
            v = st.value
            if isinstance(v, ast.Call) and isinstance(v.func, ast.Attribute) and v.func.attr == "insertInto":
                if len(v.args) != 1 or _dotted(v.args[0]) != "name" or v.keywords:
                    self.fail(f"unsupported insertInto call {_dotted(v)!r}")
                recv = _dotted(v.func.value)
                if recv == "self":
                    raise _Ret("SaveAction.insert false")
                if recv == "self.byName":
                    raise _Ret("SaveAction.insert true")
                self.fail(f"insertInto called on {recv!r}")
            if _dotted(v) == "self.copy(_df=df)":
                if self.create is None or not self.container_attached:
                    self.fail("returns before a Create container was attached")
                if not self.collected:
                    self.fail("statement is built but never executed (no df.collect())")
                raise _Ret(f"SaveAction.create {str(self.create[0]).lower()} {str(self.create[1]).lower()}")
            self.fail(f"unsupported return {_dotted(v)!r}")
        if isinstance(st, ast.Assign) and len(st.targets) == 1:
            tgt, val = st.targets[0], st.value
            if isinstance(tgt, ast.Tuple) and isinstance(val, ast.Tuple) and len(tgt.elts) == len(val.elts):
                for a, b in zip(tgt.elts, val.elts):
                    self.assign(a, b)
                return
            self.assign(tgt, val)
            return
        if isinstance(st, ast.Expr) and _dotted(st.value) == "df.collect()":
            if not self.container_attached:
                self.fail("df.collect() before the container was attached")
            self.collected = True
            return
        self.fail(f"unsupported statement {_dotted(st)[:70]!r}")

    def assign(self, tgt: ast.expr, val: ast.expr) -> None:
        if not isinstance(tgt, ast.Name):
            self.fail(f"unsupported assignment target {_dotted(tgt)!r}")
        name = tgt.id
        if name == "mode":
            if self.mode_expr is not None:
                self.fail("mode assigned twice")
            self.mode_expr = _or_chain(val, OB + ".effectiveMode")
            return
        if name == "name":
            if isinstance(val, ast.Call) and _dotted(val.func) == "normalize_string":
                return
            self.fail(f"name assigned from {_dotted(val)!r}")
        if name == "output_expression_container":
            if not (isinstance(val, ast.Call) and _dotted(val.func) == "exp.Create"):
                self.fail(f"container is {_dotted(val)[:40]!r}, not exp.Create")
            kw = {k.arg: k.value for k in val.keywords}
            if set(kw) != {"this", "kind", "exists", "replace"} or val.args:
                self.fail(f"exp.Create keywords {sorted(map(str, kw))}")
            if not (isinstance(kw["kind"], ast.Constant) and kw["kind"].value == "TABLE"):
                self.fail("exp.Create kind is not TABLE")
            if "name" not in _dotted(kw["this"]):
                self.fail("exp.Create target is not built from `name`")
            self.create = (bool(self.const(kw["exists"])), bool(self.const(kw["replace"])))
            return
        if name == "df":
            if _dotted(val) == "self._df.copy(output_expression_container=output_expression_container)":
                if self.create is None:
                    self.fail("df copied before the container exists")
                self.container_attached = True
                return
            self.fail(f"df assigned from {_dotted(val)[:60]!r}")
        self.env[name] = self.const(val)

    def run(self) -> t.Tuple[str, t.Optional[str]]:
        try:
            self.run_block(self.fn.body)
        except _Ret as r:
            return r.action, self.mode_expr
        self.fail("function falls off the end")


def _mode_literals(fn: ast.FunctionDef) -> t.List[str]:
    lits: t.List[str] = []
    for n in ast.walk(fn):
        if isinstance(n, ast.Compare) and isinstance(n.left, ast.Name) and n.left.id == "mode":
            for c in n.comparators:
                elts = c.elts if isinstance(c, (ast.Set, ast.Tuple, ast.List)) else [c]
                for e in elts:
                    if isinstance(e, ast.Constant) and isinstance(e.value, str) and e.value not in lits:
                        lits.append(e.value)
    return lits


def _gen_save(cls: ast.ClassDef) -> t.List[str]:
    fn = find_func(cls.body, "saveAsTable")
    argnames = [a.arg for a in fn.args.args]
    if argnames != ["self", "name", "format", "mode"]:
        raise Untranslatable(OB + ".saveAction", f"saveAsTable signature {argnames}")
    lits = _mode_literals(fn)
    keys = lits + [m for m in SPEC_MODES if m not in lits]
    table: t.Dict[str, t.Tuple[str, str]] = {}
    mode_expr = None
    for m in keys + [FRESH]:
        res = []
        for ex in (True, False):
            action, me = _SaveInterp(fn, m, ex).run()
            res.append(action)
            if me is None:
                raise Untranslatable(OB + ".effectiveMode", "the effective mode is never computed")
            if mode_expr is not None and me != mode_expr:
                raise Untranslatable(OB + ".effectiveMode", "effective mode depends on the path taken")
            mode_expr = me
        table[m] = (res[0], res[1])
    out = []
    out.append("/-- what `saveAsTable` does after its `if` chain over the effective mode -/")
    out.append("inductive SaveAction")
    out.append("  | insert (byName : Bool)                  -- `return self[.byName].insertInto(name)`")
    out.append("  | create (ifNotExists replace : Bool)     -- `exp.Create(kind='TABLE', exists=…, replace=…)`, executed")
    out.append("  | raise                                   -- an explicit `raise`")
    out.append("  deriving DecidableEq, Repr")
    out.append("")
    out.append("/-- python `str(x)` of an optional string -/")
    out.append('def pyStr : Option String → String | some s => s | none => "None"')
    out.append("/-- python `a or b` for an optional string `a` -/")
    out.append('def pyOr (a : Option String) (b : String) : String := match a with | some s => if s = "" then b else s | none => b')
    out.append('def pyOrS (a : String) (b : String) : String := if a = "" then b else a')
    out.append("")
    out.append("/-- the mode `saveAsTable(name, mode=arg)` works with on a writer whose `.mode(st)` was set -/")
    out.append(f"def effectiveMode (arg st : Option String) : String := {mode_expr}")
    out.append("")
    out.append("/-- mode literals the chain distinguishes (first appearance order), then the remaining PySpark modes -/")
    out.append("def saveModeKeys : List String := [" + ", ".join(lean_str(k) for k in keys) + "]")
    out.append("")
    out.append("/-- the decision chain of `saveAsTable`, evaluated per (effective mode, does the target exist) -/")
    out.append("def saveAction (mode : String) (targetExists : Bool) : SaveAction :=")
    for k in keys:
        a, b = table[k]
        body = a if a == b else f"(if targetExists then {a} else {b})"
        out.append(f"  if mode = {lean_str(k)} then {body} else")
    a, b = table[FRESH]
    out.append("  " + (a if a == b else f"(if targetExists then {a} else {b})"))
    return out


# ------------------------------------------------------------------------------------------------
# insertInto
# ------------------------------------------------------------------------------------------------


def _gen_insert(cls: ast.ClassDef) -> t.List[str]:
    ob = OB + ".insertInto"
    fn = find_func(cls.body, "insertInto")
    overwrite_passed = None
    by_name_branch = None
    executes = False
    attached = False
    for st in fn.body:
        if isinstance(st, (ast.ImportFrom, ast.Import)):
            continue
        if isinstance(st, ast.Expr) and isinstance(st.value, ast.Constant):
            continue
        if isinstance(st, ast.Assign) and isinstance(st.targets[0], ast.Name):
            tgt = st.targets[0].id
            if tgt == "tableName" and isinstance(st.value, ast.Call) and _dotted(st.value.func) == "normalize_string":
                continue
            if tgt == "output_expression_container":
                v = st.value
                if not (isinstance(v, ast.Call) and _dotted(v.func) == "exp.Insert"):
                    raise Untranslatable(ob, "container is not exp.Insert")
                kws: t.Dict[str, ast.expr] = {}
                for kw in v.keywords:
                    if kw.arg is None and isinstance(kw.value, ast.Dict):
                        for k, vv in zip(kw.value.keys, kw.value.values):
                            if not (isinstance(k, ast.Constant) and isinstance(k.value, str)):
                                raise Untranslatable(ob, "non-literal key in exp.Insert(**{...})")
                            kws[k.value] = vv
                    elif kw.arg:
                        kws[kw.arg] = kw.value
                    else:
                        raise Untranslatable(ob, "unsupported exp.Insert arguments")
                if set(kws) != {"this", "overwrite"}:
                    raise Untranslatable(ob, f"exp.Insert keywords {sorted(kws)}")
                if "tableName" not in _dotted(kws["this"]):
                    raise Untranslatable(ob, "exp.Insert target is not built from tableName")
                ov = kws["overwrite"]
                if isinstance(ov, ast.Name) and ov.id == "overwrite":
                    overwrite_passed = True
                elif isinstance(ov, ast.Constant) and ov.value in (None, False):
                    overwrite_passed = False
                else:
                    raise Untranslatable(ob, f"overwrite={_dotted(ov)!r}")
                continue
            if tgt == "df" and _dotted(st.value) == "self._df.copy(output_expression_container=output_expression_container)":
                attached = True
                continue
            raise Untranslatable(ob, f"unsupported assignment {_dotted(st)[:70]!r}")
        if isinstance(st, ast.If) and _dotted(st.test) == "self._by_name":
            if st.orelse or by_name_branch is not None or not attached:
                raise Untranslatable(ob, "unsupported byName branch layout")
            by_name_branch = st
            continue
        if isinstance(st, ast.If) and _dotted(st.test) == "self._session._has_connection":
            if len(st.body) == 1 and _dotted(st.body[0]) == "df.collect()" and not st.orelse:
                executes = True
                continue
            raise Untranslatable(ob, "unsupported execution branch")
        if isinstance(st, ast.Return) and _dotted(st.value) == "self.copy(_df=df)":
            continue
        raise Untranslatable(ob, f"unsupported statement {_dotted(st)[:70]!r}")
    if overwrite_passed is None or not attached:
        raise Untranslatable(ob, "no exp.Insert container attached to the frame")
    reorders = False
    source = "ColSource.schemaCache"
    if by_name_branch is not None:
        fills = False
        cols_from = None
        selects = False
        for st in by_name_branch.body:
            s = _dotted(st)
            if isinstance(st, ast.Expr) and s in ("self._session.catalog.add_table(tableName)",):
                if cols_from is not None:
                    raise Untranslatable(ob, "add_table after the column list was read")
                fills = True
            elif isinstance(st, ast.Assign) and _dotted(st.targets[0]) == "columns" and isinstance(st.value, ast.Call):
                f = _dotted(st.value.func)
                if not st.value.args or _dotted(st.value.args[0]) != "tableName":
                    raise Untranslatable(ob, "column list not read for tableName")
                if f == "self._session.catalog._schema.column_names":
                    cols_from = "cache"
                elif f in ("self._session.catalog.get_columns", "self._session.catalog.listColumns"):
                    cols_from = "engine"
                else:
                    raise Untranslatable(ob, f"column list read from {f!r}")
            elif isinstance(st, ast.Assign) and _dotted(st.targets[0]) == "df":
                if s == "df = df._convert_leaf_to_cte().select(*columns)" and cols_from is not None:
                    selects = True
                else:
                    raise Untranslatable(ob, f"unsupported re-ordering {s[:70]!r}")
            else:
                raise Untranslatable(ob, f"unsupported statement in byName branch {s[:70]!r}")
        if cols_from is None or not selects:
            raise Untranslatable(ob, "byName branch does not select the target's columns")
        reorders = True
        source = {"cache": "ColSource.cacheThenEngine" if fills else "ColSource.schemaCache", "engine": "ColSource.engine"}[cols_from]
    out = []
    out.append("/-- where `insertInto` with `byName` takes the target's column list from -/")
    out.append("inductive ColSource")
    out.append("  | schemaCache        -- `catalog._schema.column_names(t)`: the session's schema cache (empty list when t was never looked up)")
    out.append("  | cacheThenEngine    -- `catalog.add_table(t)` first: the cache, filled from the engine when t is not cached yet")
    out.append("  | engine             -- the engine's catalog, every time")
    out.append("  deriving DecidableEq, Repr")
    out.append("")
    out.append("/-- `if self._by_name: df = df._convert_leaf_to_cte().select(*columns)` is present -/")
    out.append(f"def byNameReorders : Bool := {str(reorders).lower()}")
    out.append(f"def byNameSource : ColSource := {source}")
    out.append("/-- `exp.Insert(overwrite=overwrite)` passes the caller's flag -/")
    out.append(f"def insertPassesOverwrite : Bool := {str(overwrite_passed).lower()}")
    out.append("/-- `if self._session._has_connection: df.collect()` -/")
    out.append(f"def insertExecutes : Bool := {str(executes).lower()}")
    return out


# ------------------------------------------------------------------------------------------------
# _validate_mode and the DuckDB file writer
# ------------------------------------------------------------------------------------------------


def _cond_lean(n: ast.expr, ob: str) -> str:
    if isinstance(n, ast.BoolOp):
        j = " && " if isinstance(n.op, ast.And) else " || "
        return "(" + j.join(_cond_lean(v, ob) for v in n.values) + ")"
    if isinstance(n, ast.UnaryOp) and isinstance(n.op, ast.Not):
        return f"(!{_cond_lean(n.operand, ob)})"
    if isinstance(n, ast.Compare) and len(n.ops) == 1 and isinstance(n.left, ast.Name) and n.left.id == "mode":
        op, right = n.ops[0], n.comparators[0]
        if isinstance(op, (ast.Eq, ast.NotEq)) and isinstance(right, ast.Constant) and isinstance(right.value, str):
            e = f"(m == {lean_str(right.value)})"
            return e if isinstance(op, ast.Eq) else f"(!{e})"
        if isinstance(op, (ast.In, ast.NotIn)) and isinstance(right, (ast.Set, ast.Tuple, ast.List)):
            vals = []
            for el in right.elts:
                if not (isinstance(el, ast.Constant) and isinstance(el.value, str)):
                    raise Untranslatable(ob, f"non-literal member in {_dotted(n)!r}")
                vals.append(f"(m == {lean_str(el.value)})")
            e = "(" + " || ".join(vals) + ")" if vals else "false"
            return e if isinstance(op, ast.In) else f"(!{e})"
    if _dotted(n) in ("pathlib.Path(path).exists()", "os.path.exists(path)"):
        return "ex"
    raise Untranslatable(ob, f"unsupported condition {_dotted(n)!r}")


def _gen_validate(cls: ast.ClassDef) -> t.List[str]:
    ob = OB + ".validateMode"
    fn = find_func(cls.body, "_validate_mode")
    default = None
    branches: t.List[t.Tuple[str, str]] = []
    final = None
    for st in fn.body:
        if isinstance(st, ast.Expr) and isinstance(st.value, ast.Constant):
            continue
        if isinstance(st, ast.Assign) and _dotted(st.targets[0]) == "mode":
            if default is not None or branches:
                raise Untranslatable(ob, "mode re-assigned")
            default = _or_chain(st.value, ob)
            continue
        if isinstance(st, ast.If) and not st.orelse and len(st.body) == 1:
            b = st.body[0]
            if isinstance(b, ast.Raise):
                dec = "PathDecision.refuse"
            elif isinstance(b, ast.Return) and _dotted(b.value) == "(mode, True)":
                dec = "PathDecision.skip"
            elif isinstance(b, ast.Return) and _dotted(b.value) == "(mode, False)":
                dec = "PathDecision.write"
            else:
                raise Untranslatable(ob, f"unsupported branch body {_dotted(b)[:60]!r}")
            branches.append((_cond_lean(st.test, ob), dec))
            continue
        if isinstance(st, ast.Return) and _dotted(st.value) == "(mode, False)":
            final = "PathDecision.write"
            continue
        if isinstance(st, ast.Return) and _dotted(st.value) == "(mode, True)":
            final = "PathDecision.skip"
            continue
        raise Untranslatable(ob, f"unsupported statement {_dotted(st)[:70]!r}")
    if default is None or final is None:
        raise Untranslatable(ob, "no mode default or no final return")
    out = []
    out.append("inductive PathDecision")
    out.append("  | refuse   -- raise FileExistsError")
    out.append("  | skip     -- return (mode, True): nothing is written")
    out.append("  | write    -- return (mode, False)")
    out.append("  deriving DecidableEq, Repr")
    out.append("")
    out.append("/-- the mode a path write (`csv/json/parquet(path, mode=arg)` on a writer with `.mode(st)`) works with -/")
    out.append(f"def pathMode (arg st : Option String) : String := {default}")
    out.append("/-- `_validate_mode` after defaulting, given whether the path exists -/")
    out.append("def validateMode (m : String) (ex : Bool) : PathDecision :=")
    for c, d in branches:
        out.append(f"  if {c} then {d} else")
    out.append(f"  {final}")
    return out


def _gen_duck_write(repo: str) -> t.List[str]:
    ob = OB + ".duckdbWrite"
    cls = find_class(parse(repo, "sqlframe/duckdb/readwriter.py"), "DuckDBDataFrameWriter")
    fn = find_func(cls.body, "_write")
    validates_first = False
    skip_returns = False
    append_raises = False
    copies = False
    for i, st in enumerate(fn.body):
        s = _dotted(st)
        if i == 0:
            if s != "mode, skip = self._validate_mode(path, mode)":
                raise Untranslatable(ob, f"first statement is {s[:60]!r}")
            validates_first = True
        elif isinstance(st, ast.If) and _dotted(st.test) == "skip":
            if len(st.body) == 1 and isinstance(st.body[0], ast.Return) and st.body[0].value is None and not st.orelse:
                skip_returns = True
            else:
                raise Untranslatable(ob, "unsupported skip branch")
        elif isinstance(st, ast.If) and _dotted(st.test) == "mode == 'append'":
            if len(st.body) == 1 and isinstance(st.body[0], ast.Raise) and not st.orelse and not copies:
                append_raises = True
            else:
                raise Untranslatable(ob, "unsupported append branch")
        elif isinstance(st, ast.If):
            raise Untranslatable(ob, f"unsupported branch {_dotted(st.test)!r}")
        elif isinstance(st, ast.For):
            txt = ast.unparse(st)
            if "COPY (" in txt and ") TO '" in txt and "_collect" in txt:
                copies = True
            else:
                raise Untranslatable(ob, "the statement loop does not issue COPY (...) TO")
        elif isinstance(st, ast.Assign):
            continue
        else:
            raise Untranslatable(ob, f"unsupported statement {s[:60]!r}")
    if not (validates_first and skip_returns and copies):
        raise Untranslatable(ob, "writer shape not recognised (validate / skip / COPY)")
    out = []
    out.append("/-- DuckDB `_write`: `_validate_mode` runs before anything is written, `skip` returns -/")
    out.append("def fileValidatesFirst : Bool := true")
    out.append("/-- `if mode == \"append\": raise NotImplementedError` -/")
    out.append(f"def fileAppendRaises : Bool := {str(append_raises).lower()}")
    return out


def _gen_cache(repo: str) -> t.List[str]:
    """session.table / catalog.add_table: when is the session's column cache (re)filled?"""
    ob = OB + ".schemaCache"
    cat = find_class(parse(repo, "sqlframe/base/catalog.py"), "_BaseCatalog")
    fn = find_func(cat.body, "add_table")
    body = [st for st in fn.body if not (isinstance(st, ast.Expr) and isinstance(st.value, ast.Constant))]
    if not body or _dotted(body[0]) != "table = self.ensure_table(table)":
        raise Untranslatable(ob, "add_table does not start by normalising the table")
    skips = False
    rest = body[1:]
    # `if self._schema.find(table): return`, or the same guarded by `not replace` (replace=True is only passed by
    # createOrReplaceTempView, never by the writer / reader paths modelled here)
    if rest and isinstance(rest[0], ast.If) and _dotted(rest[0].test) in ("self._schema.find(table)", "not replace and self._schema.find(table)"):
        g = rest[0]
        if len(g.body) == 1 and isinstance(g.body[0], ast.Return) and g.body[0].value is None and not g.orelse:
            skips = True
            rest = rest[1:]
        else:
            raise Untranslatable(ob, "unsupported cached-table branch in add_table")
    txt = "\n".join(ast.unparse(st) for st in rest)
    if "self.get_columns(table)" not in txt or "self._schema.add_table(table, column_mapping" not in txt:
        raise Untranslatable(ob, "add_table no longer fills the schema from get_columns")
    if any(isinstance(n, ast.If) and "find(table)" in _dotted(n.test) for st in rest for n in ast.walk(st)):
        raise Untranslatable(ob, "second cache test in add_table")
    rd = find_class(parse(repo, "sqlframe/base/readerwriter.py"), "_BaseDataFrameReader")
    tb = find_func(rd.body, "table")
    calls = [_dotted(st) for st in tb.body]
    if "self.session.catalog.add_table(table)" not in calls or "columns = self.session.catalog.get_columns_from_schema(table)" not in calls:
        raise Untranslatable(ob, "reader.table does not select the cached column list")
    if calls.index("self.session.catalog.add_table(table)") > calls.index("columns = self.session.catalog.get_columns_from_schema(table)"):
        raise Untranslatable(ob, "reader.table reads the cache before filling it")
    out = []
    out.append("/-- `catalog.add_table`: `if self._schema.find(table): return` — a cached column list is never refreshed -/")
    out.append(f"def addTableSkipsWhenCached : Bool := {str(skips).lower()}")
    out.append("/-- `reader.table`: add_table(table), then SELECT exactly the cached columns -/")
    out.append("def tableSelectsCachedColumns : Bool := true")
    return out


def _gen_chain(cls: ast.ClassDef) -> t.List[str]:
    """the builder calls `.mode(m)` and `.byName`: do they keep the other part of the writer's state?"""
    ob = OB + ".builderChain"
    cp = find_func(cls.body, "copy")
    ctxt = ast.unparse(cp)
    if "object_to_dict(self, **kwargs)" not in ctxt or "self.__class__(" not in ctxt:
        raise Untranslatable(ob, "copy() does not rebuild the writer from all of its fields")
    md = [st for st in find_func(cls.body, "mode").body if not (isinstance(st, ast.Expr) and isinstance(st.value, ast.Constant))]
    if len(md) == 1 and _dotted(md[0]) == "return self.copy(_mode=saveMode)":
        mode_keeps = True
    else:
        raise Untranslatable(ob, f"mode() is {' ; '.join(_dotted(x) for x in md)[:90]!r}, not `return self.copy(_mode=saveMode)`")
    bn = None
    for st in cls.body:
        if isinstance(st, ast.FunctionDef) and st.name == "byName":
            bn = st
    if bn is None:
        raise Untranslatable(ob, "no byName property")
    body = [st for st in bn.body if not (isinstance(st, ast.Expr) and isinstance(st.value, ast.Constant))]
    if len(body) == 1 and _dotted(body[0]) == "return self.copy(by_name=True)":
        by_name_keeps = True
    else:
        raise Untranslatable(ob, f"byName is {' ; '.join(_dotted(x) for x in body)[:90]!r}, not `return self.copy(by_name=True)`")
    return [
        "/-- `.mode(m)` is `self.copy(_mode=m)`: the byName flag (and everything else) survives -/",
        f"def modeKeepsByName : Bool := {str(mode_keeps).lower()}",
        "/-- `.byName` is `self.copy(by_name=True)`: the stored mode survives -/",
        f"def byNameKeepsMode : Bool := {str(by_name_keeps).lower()}",
    ]


def gen_writer(repo: str) -> str:
    cls = find_class(parse(repo, "sqlframe/base/readerwriter.py"), "_BaseDataFrameWriter")
    out = [HEADER, "set_option linter.unusedVariables false", "namespace Sqlframe.Gen", ""]
    out += _gen_save(cls)
    out.append("")
    out += _gen_insert(cls)
    out.append("")
    out += _gen_validate(cls)
    out.append("")
    out += _gen_duck_write(repo)
    out.append("")
    out += _gen_cache(repo)
    out.append("")
    out += _gen_chain(cls)
    out.append("")
    out.append("end Sqlframe.Gen")
    return "\n".join(out) + "\n"



# ------------------------------------------------------------------------------------------------
# Gen/C14Options.lean — which options of write.csv/json/parquet and read.csv/json/parquet/load reach the
# engine, under which key, with which value, and who wins when a key is given twice
# ------------------------------------------------------------------------------------------------

OBO = "Gen.C14Options"
FILE_FORMATS = ["csv", "json", "parquet"]


def _nodoc(body: t.Sequence[ast.stmt]) -> t.List[ast.stmt]:
    return [st for st in body if not (isinstance(st, ast.Expr) and isinstance(st.value, ast.Constant) and isinstance(st.value.value, str))]


def _keep_cond(n: ast.expr, var: str, ob: str) -> str:
    """a filter condition over one option value `var` -> Lean Bool over `v : OptVal`"""
    if isinstance(n, ast.Name) and n.id == var:
        return "v.truthy"
    if isinstance(n, ast.Compare) and len(n.ops) == 1 and isinstance(n.left, ast.Name) and n.left.id == var:
        r = n.comparators[0]
        if isinstance(r, ast.Constant) and r.value is None:
            if isinstance(n.ops[0], ast.IsNot):
                return "(!v.isNone)"
            if isinstance(n.ops[0], ast.Is):
                return "v.isNone"
    if isinstance(n, ast.UnaryOp) and isinstance(n.op, ast.Not):
        return f"(!{_keep_cond(n.operand, var, ob)})"
    if isinstance(n, ast.BoolOp):
        j = " && " if isinstance(n.op, ast.And) else " || "
        return "(" + j.join(_keep_cond(x, var, ob) for x in n.values) + ")"
    raise Untranslatable(ob, f"unsupported option filter {_dotted(n)!r}")


def _filtered_items(n: ast.expr, src: str, ob: str) -> t.Optional[str]:
    """`{k: v for k, v in <src>.items() if <cond>}` -> the Lean condition; None when `n` is something else"""
    if not isinstance(n, ast.DictComp) or len(n.generators) != 1:
        return None
    g = n.generators[0]
    if g.is_async or not (isinstance(g.target, ast.Tuple) and len(g.target.elts) == 2 and all(isinstance(e, ast.Name) for e in g.target.elts)):
        return None
    k, v = g.target.elts[0].id, g.target.elts[1].id  # type: ignore
    if _dotted(g.iter) not in (f"{src}.items()", f"({src} or {{}}).items()"):
        return None
    if not (isinstance(n.key, ast.Name) and n.key.id == k and isinstance(n.value, ast.Name) and n.value.id == v):
        raise Untranslatable(ob, f"options are rewritten, not filtered: {_dotted(n)[:80]!r}")
    return " && ".join(_keep_cond(c, v, ob) for c in g.ifs) if g.ifs else "true"


def _merge_display(n: ast.expr, state: str, call: str, ob: str) -> t.Tuple[t.List[str], str]:
    """`{**<state>, **<call or filtered call>}` -> (order of the sources, Lean filter condition applied to the call's options)"""
    if not (isinstance(n, ast.Dict) and n.keys and all(k is None for k in n.keys)):
        raise Untranslatable(ob, f"not a merge of dictionaries: {_dotted(n)[:80]!r}")
    order: t.List[str] = []
    keep = "true"
    for val in n.values:
        if _dotted(val) == state:
            order.append("OptSrc.state")
            continue
        if isinstance(val, ast.Name) and val.id == call:
            order.append("OptSrc.call")
            continue
        c = _filtered_items(val, call, ob)
        if c is not None:
            order.append("OptSrc.call")
            keep = c
            continue
        raise Untranslatable(ob, f"unsupported operand {_dotted(val)[:60]!r} in {_dotted(n)[:80]!r}")
    if order.count("OptSrc.call") > 1:
        raise Untranslatable(ob, "the call's options are merged twice")
    return order, keep


def _params(fn: ast.FunctionDef, fixed: t.List[str], ob: str) -> t.List[str]:
    a = fn.args
    if a.posonlyargs or a.kwonlyargs:
        raise Untranslatable(ob, f"{fn.name}: unsupported parameter kinds")
    names = [x.arg for x in a.args]
    if names[: len(fixed)] != fixed:
        raise Untranslatable(ob, f"{fn.name} signature starts with {names[:len(fixed)]}, expected {fixed}")
    opt = names[len(fixed) :]
    defaults = a.defaults[len(a.defaults) - len(opt) :] if opt else []
    if len(defaults) != len(opt) or not all(isinstance(d, ast.Constant) and d.value is None for d in defaults):
        raise Untranslatable(ob, f"{fn.name}: an option parameter has a default other than None")
    return opt


def _kw_table(keywords: t.List[ast.keyword], params: t.List[str], skip: t.Dict[str, str], ob: str) -> t.List[t.Tuple[str, str]]:
    """keyword arguments -> [(key, Lean WArg)]; `skip` = keywords that must be passed through verbatim (path=path, …)"""
    out = []
    seen = set()
    for kw in keywords:
        if kw.arg is None:
            raise Untranslatable(ob, f"options are passed as **{_dotted(kw.value)[:40]}")
        if kw.arg in skip:
            if _dotted(kw.value) != skip[kw.arg]:
                raise Untranslatable(ob, f"{kw.arg}={_dotted(kw.value)[:40]!r}")
            seen.add(kw.arg)
            continue
        v = kw.value
        if isinstance(v, ast.Constant) and isinstance(v.value, str):
            out.append((kw.arg, f"WArg.lit {lean_str(v.value)}"))
        elif isinstance(v, ast.Name) and v.id in params:
            out.append((kw.arg, f"WArg.param {lean_str(v.id)}"))
        else:
            raise Untranslatable(ob, f"option {kw.arg} is given the value {_dotted(v)[:50]!r}")
    if seen != set(skip):
        raise Untranslatable(ob, f"missing keyword(s) {sorted(set(skip) - seen)}")
    return out


def _lean_list(items: t.Iterable[str]) -> str:
    return "[" + ", ".join(items) + "]"


def _by_format(name: str, ty: str, table: t.Dict[str, str], default: str) -> t.List[str]:
    out = [f"def {name} (fmt : String) : {ty} :="]
    for f in FILE_FORMATS:
        out.append(f"  if fmt = {lean_str(f)} then {table[f]} else")
    out.append(f"  {default}")
    return out


def _gen_to_csv(repo: str) -> t.List[str]:
    ob = OBO + ".toCsv"
    fn = find_func(parse(repo, "sqlframe/base/util.py").body, "to_csv")
    names = [a.arg for a in fn.args.args]
    if names != ["options", "equality_char"] or len(fn.args.defaults) != 1 or not (isinstance(fn.args.defaults[0], ast.Constant) and fn.args.defaults[0].value == "="):
        raise Untranslatable(ob, f"to_csv signature {names}")
    body = _nodoc(fn.body)
    if len(body) != 1 or not isinstance(body[0], ast.Return):
        raise Untranslatable(ob, "to_csv is not a single return")
    r = body[0].value
    if not (isinstance(r, ast.Call) and isinstance(r.func, ast.Attribute) and r.func.attr == "join" and isinstance(r.func.value, ast.Constant) and isinstance(r.func.value.value, str) and len(r.args) == 1):
        raise Untranslatable(ob, "to_csv does not join its items with a literal separator")
    sep = r.func.value.value
    comp = r.args[0]
    if not isinstance(comp, (ast.ListComp, ast.GeneratorExp)) or len(comp.generators) != 1:
        raise Untranslatable(ob, "to_csv's items are not one comprehension")
    g = comp.generators[0]
    if not (isinstance(g.target, ast.Tuple) and [_dotted(e) for e in g.target.elts] == ["k", "v"] and _dotted(g.iter) in ("(options or {}).items()", "options.items()")):
        raise Untranslatable(ob, f"to_csv iterates {_dotted(g.iter)[:50]!r}")
    if _dotted(comp.elt) != "f'{k}{equality_char}{v}'":
        raise Untranslatable(ob, f"to_csv renders an item as {_dotted(comp.elt)[:60]!r}")
    keep = " && ".join(_keep_cond(c, "v", ob) for c in g.ifs) if g.ifs else "true"
    return [
        "/-- `util.to_csv`: which (key, value) pairs of the option dictionary are rendered (the `if` of its comprehension) -/",
        f"def toCsvKeeps (v : OptVal) : Bool := {keep}",
        "/-- `', '.join(f'{k}{equality_char}{v}' …)` -/",
        f"def toCsvJoin : String := {lean_str(sep)}",
    ]


def _gen_writer_entries(cls: ast.ClassDef) -> t.List[str]:
    params: t.Dict[str, str] = {}
    calls: t.Dict[str, str] = {}
    for fmt in FILE_FORMATS:
        ob = f"{OBO}.writer.{fmt}"
        fn = find_func(cls.body, fmt)
        ps = _params(fn, ["self", "path", "mode"], ob)
        if fn.args.vararg or fn.args.kwarg:
            raise Untranslatable(ob, "writer entry point takes *args / **kwargs")
        body = _nodoc(fn.body)
        if len(body) != 1 or not (isinstance(body[0], ast.Expr) and isinstance(body[0].value, ast.Call) and _dotted(body[0].value.func) == "self._write" and not body[0].value.args):
            raise Untranslatable(ob, f"write.{fmt}() is not a single `self._write(path=…, mode=…, format=…, <option>=<parameter>, …)` call")
        tab = _kw_table(body[0].value.keywords, ps, {"path": "path", "mode": "mode"}, ob)
        params[fmt] = _lean_list(lean_str(p) for p in ps)
        calls[fmt] = _lean_list(f"({lean_str(k)}, {v})" for k, v in tab)
    out = ["/-- option parameters of `DataFrameWriter.csv / json / parquet` (after self, path, mode; all default to None) -/"]
    out += _by_format("writerParams", "List String", params, "[]")
    out.append("/-- the keywords `self._write(path=path, mode=mode, …)` receives, in order: a literal or one of the parameters -/")
    out += _by_format("writerCall", "List (String × WArg)", calls, "[]")
    return out


def _gen_duck_write_opts(repo: str) -> t.List[str]:
    ob = OBO + ".duckdbWrite"
    cls = find_class(parse(repo, "sqlframe/duckdb/readwriter.py"), "DuckDBDataFrameWriter")
    fn = find_func(cls.body, "_write")
    a = fn.args
    if [x.arg for x in a.args] != ["self", "path", "mode"] or a.vararg or a.kwonlyargs or not a.kwarg or a.kwarg.arg != "options":
        raise Untranslatable(ob, "signature is not _write(self, path, mode, **options): `format` would not be among the options")
    eq = None
    copy_uses = 0
    mentions = 0
    for st in _nodoc(fn.body):
        ms = sum(isinstance(n, ast.Name) and n.id == "options" for n in ast.walk(st))
        if not ms:
            continue
        mentions += 1
        if isinstance(st, ast.Assign) and _dotted(st.targets[0]) == "options" and isinstance(st.value, ast.Call) and _dotted(st.value.func) == "to_csv":
            c = st.value
            if eq is not None or copy_uses:
                raise Untranslatable(ob, "options rendered twice / after use")
            if len(c.args) != 1 or _dotted(c.args[0]) != "options" or len(c.keywords) > 1:
                raise Untranslatable(ob, f"unsupported to_csv call {_dotted(c)[:60]!r}")
            eq = "="
            for kw in c.keywords:
                if kw.arg != "equality_char" or not (isinstance(kw.value, ast.Constant) and isinstance(kw.value.value, str)):
                    raise Untranslatable(ob, f"unsupported to_csv call {_dotted(c)[:60]!r}")
                eq = kw.value.value
            continue
        if isinstance(st, ast.For):
            txt = ast.unparse(st)
            if eq is not None and txt.count("options") == 1 and "TO '{path}' ({options})" in txt and "COPY ({sql})" in txt:
                copy_uses += 1
                continue
            raise Untranslatable(ob, "the COPY statement does not end with `TO '{path}' ({options})`")
        raise Untranslatable(ob, f"the option dictionary is touched by {_dotted(st)[:70]!r}")
    if eq is None or copy_uses != 1:
        raise Untranslatable(ob, "options are not rendered by to_csv into one COPY statement")
    return [
        "/-- DuckDB `_write(self, path, mode, **options)`: `format=` is one of the options; `to_csv(options, equality_char=…)` -/",
        "def duckWriteFormatInOptions : Bool := true",
        f"def duckWriteEq : String := {lean_str(eq)}",
    ]


def _gen_reader_entries(repo: str) -> t.List[str]:
    cls = find_class(parse(repo, "sqlframe/base/readerwriter.py"), "_BaseDataFrameReader")
    params: t.Dict[str, str] = {}
    calls: t.Dict[str, str] = {}
    keeps: t.Dict[str, str] = {}
    merges: t.Dict[str, str] = {}
    for fmt in ("csv", "json"):
        ob = f"{OBO}.reader.{fmt}"
        fn = find_func(cls.body, fmt)
        ps = _params(fn, ["self", "path", "schema"], ob)
        if fn.args.vararg or fn.args.kwarg:
            raise Untranslatable(ob, "reader entry point takes *args / **kwargs")
        body = _nodoc(fn.body)
        if len(body) != 3:
            raise Untranslatable(ob, f"read.{fmt}() has {len(body)} statements, expected options = dict(…); all_options = {{…}}; return self.load(…)")
        s1, s2, s3 = body
        if not (isinstance(s1, ast.Assign) and _dotted(s1.targets[0]) == "options" and isinstance(s1.value, ast.Call) and _dotted(s1.value.func) == "dict" and not s1.value.args):
            raise Untranslatable(ob, f"first statement is {_dotted(s1)[:60]!r}")
        tab = _kw_table(s1.value.keywords, ps, {}, ob)
        if not (isinstance(s2, ast.Assign) and _dotted(s2.targets[0]) == "all_options"):
            raise Untranslatable(ob, f"second statement is {_dotted(s2)[:60]!r}")
        order, keep = _merge_display(s2.value, "self.state_options", "options", ob)
        if _dotted(s3) != f"return self.load(path=path, format='{fmt}', schema=schema, **all_options)":
            raise Untranslatable(ob, f"last statement is {_dotted(s3)[:90]!r}")
        params[fmt] = _lean_list(lean_str(p) for p in ps)
        calls[fmt] = "some " + _lean_list(f"({lean_str(k)}, {v})" for k, v in tab)
        keeps[fmt] = keep
        merges[fmt] = _lean_list(order)
    ob = f"{OBO}.reader.parquet"
    fn = find_func(cls.body, "parquet")
    a = fn.args
    if [x.arg for x in a.args] != ["self"] or not a.vararg or a.vararg.arg != "paths" or not a.kwarg or a.kwarg.arg != "options" or a.kwonlyargs:
        raise Untranslatable(ob, "signature is not parquet(self, *paths, **options)")
    body = _nodoc(fn.body)
    if len(body) != 3 or not (isinstance(body[0], ast.Assign) and _dotted(body[0].targets[0]) == "all_options"):
        raise Untranslatable(ob, "read.parquet() is not all_options = {…}; dfs = […]; return reduce(…)")
    order, keep = _merge_display(body[0].value, "self.state_options", "options", ob)
    if _dotted(body[1]) != "dfs = [self.load(path=path, format='parquet', **all_options) for path in paths]":
        raise Untranslatable(ob, f"second statement is {_dotted(body[1])[:90]!r}")
    if _dotted(body[2]) != "return reduce(lambda a, b: a.union(b), dfs)":
        raise Untranslatable(ob, f"last statement is {_dotted(body[2])[:90]!r}")
    params["parquet"] = "[]"
    calls["parquet"] = "none"
    keeps["parquet"] = keep
    merges["parquet"] = _lean_list(order)

    # option / options / __init__ / session.read
    ob = OBO + ".reader.state"
    init = find_func(cls.body, "__init__")
    inits = [_dotted(st) for st in init.body]
    if not any(s.startswith("self.state_options") and s.endswith("= {}") for s in inits):
        raise Untranslatable(ob, "__init__ does not start every reader with `self.state_options = {}`")
    for st in cls.body:
        if isinstance(st, (ast.Assign, ast.AnnAssign)) and "state_options" in _dotted(st):
            raise Untranslatable(ob, "state_options is a class attribute (shared by every reader)")
    opt = _nodoc(find_func(cls.body, "option").body)
    if [_dotted(x) for x in opt] != ["self.state_options[key] = value", "return self"]:
        raise Untranslatable(ob, f"option() is {' ; '.join(_dotted(x) for x in opt)[:100]!r}")
    opts = _nodoc(find_func(cls.body, "options").body)
    if len(opts) != 2 or not (isinstance(opts[0], ast.Assign) and _dotted(opts[0].targets[0]) == "self.state_options") or _dotted(opts[1]) != "return self":
        raise Untranslatable(ob, f"options() is {' ; '.join(_dotted(x) for x in opts)[:100]!r}")
    o_order, o_keep = _merge_display(opts[0].value, "self.state_options", "options", ob)
    if o_keep != "true":
        raise Untranslatable(ob, "options() filters what it is given")
    sess = find_class(parse(repo, "sqlframe/base/session.py"), "_BaseSession")
    rd = _nodoc(find_func(sess.body, "read").body)
    if [_dotted(x) for x in rd] != ["return self._reader(self)"]:
        raise Untranslatable(ob, "session.read does not build a fresh reader on every access")

    out = ["/-- option parameters of `DataFrameReader.csv / json` (after self, path, schema; all default to None); `parquet(*paths, **options)` takes any -/"]
    out += _by_format("readerParams", "List String", params, "[]")
    out.append("/-- `options = dict(<key>=<parameter>, …)`; `none`: the keyword arguments are taken as they are (parquet) -/")
    out += _by_format("readerCall", "Option (List (String × WArg))", calls, "none")
    out.append("/-- the filter the front end applies to the call's options before merging -/")
    out.append("def readerKeeps (fmt : String) (v : OptVal) : Bool :=")
    for f in FILE_FORMATS:
        out.append(f"  if fmt = {lean_str(f)} then {keeps[f]} else")
    out.append("  true")
    out.append("/-- `all_options = {**a, **b}`: later sources win -/")
    out += _by_format("readerMerge", "List OptSrc", merges, "[]")
    out.append("/-- `.option(k, v)` is `self.state_options[k] = v`; `.options(**o)` is `self.state_options = {**…, **…}`;")
    out.append("    every `session.read` is a fresh reader whose `state_options` starts empty -/")
    out.append("def optionSets : Bool := true")
    out.append(f"def optionsMerge : List OptSrc := {_lean_list(o_order)}")
    out.append("def readerStateFresh : Bool := true")
    return out


def _gen_duck_load(repo: str) -> t.List[str]:
    ob = OBO + ".duckdbLoad"
    cls = find_class(parse(repo, "sqlframe/duckdb/readwriter.py"), "DuckDBDataFrameReader")
    fn = find_func(cls.body, "load")
    a = fn.args
    if [x.arg for x in a.args] != ["self", "path", "format", "schema"] or a.vararg or a.kwonlyargs or not a.kwarg or a.kwarg.arg != "options":
        raise Untranslatable(ob, "signature is not load(self, path, format, schema, **options)")
    body = _nodoc(fn.body)
    if not body or not (isinstance(body[0], ast.Assign) and _dotted(body[0].targets[0]) == "merged_options"):
        raise Untranslatable(ob, "load() does not start with merged_options = {…}")
    order, keep = _merge_display(body[0].value, "self.state_options", "options", ob)
    if keep != "true":
        raise Untranslatable(ob, "load() filters the options it is given")
    columns_for: t.List[str] = []
    pops: t.List[str] = []
    eq = None
    reloads = False
    fmt_default = False
    for st in body[1:]:
        s = _dotted(st)
        touches = any(isinstance(n, ast.Name) and n.id in ("merged_options", "options") for n in ast.walk(st))
        if s == "format = format or self.state_format_to_read":
            fmt_default = True
            continue
        if isinstance(st, ast.If) and _dotted(st.test) == "schema":
            for inner in st.body:
                si = _dotted(inner)
                it = any(isinstance(n, ast.Name) and n.id in ("merged_options", "options") for n in ast.walk(inner))
                if not it:
                    continue
                if si.startswith("if merged_options.get('filename'):") and "merged_options" not in si[len("if merged_options.get('filename'):") :]:
                    continue  # a read of the `filename` option that adds a select column (that option is never generated)
                if isinstance(inner, ast.If) and isinstance(inner.test, ast.Compare) and _dotted(inner.test.left) == "format" and len(inner.test.ops) == 1 and isinstance(inner.test.ops[0], ast.Eq) and isinstance(inner.test.comparators[0], ast.Constant) and not inner.orelse:
                    f = inner.test.comparators[0].value
                    txt = [_dotted(x) for x in inner.body]
                    want = [
                        "duckdb_columns = ', '.join([f\"'{column}': '{dtype}'\" for column, dtype in column_mapping.items()])",
                        "merged_options['columns'] = '{' + duckdb_columns + '}'",
                    ]
                    if txt != want:
                        raise Untranslatable(ob, f"unsupported schema branch for format {f!r}: {' ; '.join(txt)[:120]!r}")
                    columns_for.append(f)
                    continue
                raise Untranslatable(ob, f"the option dictionary is touched by {si[:70]!r}")
            for inner in st.orelse:
                if any(isinstance(n, ast.Name) and n.id in ("merged_options", "options") for n in ast.walk(inner)):
                    raise Untranslatable(ob, f"the option dictionary is touched by {_dotted(inner)[:70]!r}")
            continue
        if isinstance(st, ast.If) and _dotted(st.test) == "format == 'delta'":
            if any(isinstance(n, ast.Name) and n.id in ("merged_options", "options") for x in st.body for n in ast.walk(x)):
                raise Untranslatable(ob, "delta branch touches the options")
            if len(st.orelse) != 1 or not isinstance(st.orelse[0], ast.If) or _dotted(st.orelse[0].test) != "format":
                raise Untranslatable(ob, "no `elif format:` branch")
            br = st.orelse[0]
            for inner in br.body:
                si = _dotted(inner)
                if isinstance(inner, ast.Expr) and isinstance(inner.value, ast.Call) and _dotted(inner.value.func) == "merged_options.pop":
                    args = inner.value.args
                    if eq is not None or len(args) != 2 or not (isinstance(args[0], ast.Constant) and isinstance(args[0].value, str)) or _dotted(args[1]) != "None":
                        raise Untranslatable(ob, f"unsupported {si[:60]!r}")
                    pops.append(args[0].value)
                    continue
                if si == "paths = ','.join([f\"'{path}'\" for path in ensure_list(path)])":
                    continue
                if si == "from_clause = f'read_{format}([{paths}], {to_csv(merged_options)})'":
                    eq = "="
                    continue
                raise Untranslatable(ob, f"unsupported statement in the `elif format:` branch: {si[:80]!r}")
            for inner in br.orelse:
                if any(isinstance(n, ast.Name) and n.id in ("merged_options", "options") for n in ast.walk(inner)):
                    raise Untranslatable(ob, "the no-format branch touches the options")
            continue
        if isinstance(st, ast.If) and _dotted(st.test) == "select_columns == [exp.Star()]":
            if [_dotted(x) for x in st.body] != ["return self.load(path=path, format=format, schema=df.schema, **merged_options)"] or st.orelse:
                raise Untranslatable(ob, f"unsupported re-load {_dotted(st)[:100]!r}")
            reloads = True
            continue
        if touches:
            raise Untranslatable(ob, f"the option dictionary is touched by {s[:70]!r}")
    if eq is None or not fmt_default:
        raise Untranslatable(ob, "load() does not render its options into read_<format>([paths], …)")
    return [
        "/-- DuckDB `load(path, format, schema, **options)`: `merged_options = {**a, **b}` -/",
        f"def loadMerge : List OptSrc := {_lean_list(order)}",
        "/-- `merged_options['columns'] = …` is added when a schema is given and the format is one of -/",
        f"def loadColumnsFor : List String := {_lean_list(lean_str(f) for f in columns_for)}",
        "/-- `merged_options.pop(k, None)` before rendering -/",
        f"def loadPops : List String := {_lean_list(lean_str(p) for p in pops)}",
        f"def loadEq : String := {lean_str(eq)}",
        "/-- without a schema the file is read once for its schema and `load` is called again with that schema and the merged options -/",
        f"def loadReloadsWithSchema : Bool := {str(reloads).lower()}",
    ]


OPTIONS_PRELUDE = """/-- a Python value given for an option -/
inductive OptVal
  | none
  | bool (b : Bool)
  | str (s : String)
  | int (i : Int)
  deriving DecidableEq, Repr, Inhabited

def OptVal.isNone : OptVal → Bool | .none => true | _ => false
/-- Python truthiness -/
def OptVal.truthy : OptVal → Bool
  | .none => false
  | .bool b => b
  | .str s => s != ""
  | .int i => i != 0
/-- `str(v)` as an f-string renders it -/
def OptVal.pyStr : OptVal → String
  | .none => "None"
  | .bool true => "True"
  | .bool false => "False"
  | .str s => s
  | .int i => toString i

/-- a keyword argument of a forwarding call: a literal, or one of the caller's parameters -/
inductive WArg
  | lit (s : String)
  | param (p : String)
  deriving DecidableEq, Repr

/-- operand of a `{**a, **b}` merge: the reader's stored options or the options of this call -/
inductive OptSrc | state | call
  deriving DecidableEq, Repr
"""


def gen_options(repo: str) -> str:
    cls = find_class(parse(repo, "sqlframe/base/readerwriter.py"), "_BaseDataFrameWriter")
    out = [HEADER, "set_option linter.unusedVariables false", "namespace Sqlframe.Gen", "", OPTIONS_PRELUDE]
    out += _gen_to_csv(repo)
    out.append("")
    out += _gen_writer_entries(cls)
    out.append("")
    out += _gen_duck_write_opts(repo)
    out.append("")
    out += _gen_reader_entries(repo)
    out.append("")
    out += _gen_duck_load(repo)
    out.append("")
    out.append("end Sqlframe.Gen")
    return "\n".join(out) + "\n"


GENERATORS = {"Writer": gen_writer, "C14Options": gen_options}
