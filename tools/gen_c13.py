"""
gen_c13.py — translator part of C13 (temp views and session.sql).

Python `ast` of /repo's working tree  ->  lean/SqlframeModel/Gen/Views.lean

Extracted decisions (every one is a definition the model `Impl/C13Views.lean` is parameterised by, so a
property-breaking edit flips a definition and a `decide`/`rfl` obligation in Props/C13.lean stops checking):

  BaseDataFrame.createOrReplaceTempView   does the name get normalised; what is stored in the registry
                                          (a wrapped copy / a wrapped frame / an unwrapped copy / `self`);
                                          are the columns registered with the catalog (and with replace=?)
  _BaseCatalog.add_table                  does it return early when the table is already known
  _BaseDataFrameReader.table              is the name normalised; is the registry consulted first
  _BaseSession.sql                        the splice: which nodes are visited, the lookup key, which CTE of the
                                          view replaces the reference, the condition under which the view's CTEs
                                          are added, where they are added, which node kinds are renamed, whether
                                          references bound by the statement's own CTEs are left alone, and whether
                                          the result is wrapped (`_convert_leaf_to_cte`)
  BaseDataFrame._convert_leaf_to_cte /    what the leaf -> CTE conversion moves into the CTE (the copied leaf SELECT minus
  _create_cte_from_expression             the arguments it clears), whether the frame's chain is kept, how the new leaf is built

Anything outside the shapes below raises Untranslatable (never a default).
"""
from __future__ import annotations

import ast
import typing as t

from translate import HEADER, Untranslatable, find_class, find_func, lean_str, parse


def _u(n: ast.AST) -> str:
    return ast.unparse(n)


def _b(v: bool) -> str:
    return "true" if v else "false"


# ------------------------------------------------------------------------------------------------
# createOrReplaceTempView
# ------------------------------------------------------------------------------------------------


def _call_chain(node: ast.expr, ob: str) -> t.Tuple[str, t.List[str]]:
    """`self.copy()._convert_leaf_to_cte()` -> ('self', ['copy', '_convert_leaf_to_cte'])"""
    names: t.List[str] = []
    while isinstance(node, ast.Call):
        if node.args or node.keywords or not isinstance(node.func, ast.Attribute):
            raise Untranslatable(ob, f"unsupported call {_u(node)!r}")
        names.append(node.func.attr)
        node = node.func.value
    if not isinstance(node, ast.Name):
        raise Untranslatable(ob, f"unsupported receiver {_u(node)!r}")
    return node.id, list(reversed(names))


def _temp_view(repo: str) -> t.Dict[str, t.Any]:
    ob = "Gen.Views.createOrReplaceTempView"
    df = find_class(parse(repo, "sqlframe/base/dataframe.py"), "BaseDataFrame")
    fn = find_func(df.body, "createOrReplaceTempView")
    if [a.arg for a in fn.args.args] != ["self", "name"]:
        raise Untranslatable(ob, "unexpected parameters")
    normalises = False
    frames: t.Dict[str, t.Tuple[bool, bool]] = {"self": (False, False)}  # var -> (copied, wrapped)
    stored: t.Optional[str] = None
    registers_cols = False
    replace_kw = False
    cols_from: t.Optional[str] = None
    for st in fn.body:
        if isinstance(st, ast.Expr) and isinstance(st.value, ast.Constant):
            continue
        if isinstance(st, ast.Assign) and len(st.targets) == 1:
            tgt, val = st.targets[0], st.value
            if isinstance(tgt, ast.Name) and tgt.id == "name":
                if stored is not None:
                    raise Untranslatable(ob, "name reassigned after the registration")
                if (
                    isinstance(val, ast.Call)
                    and _u(val.func) == "normalize_string"
                    and len(val.args) == 1
                    and _u(val.args[0]) == "name"
                    and {k.arg: _u(k.value) for k in val.keywords} == {"from_dialect": "'input'"}
                ):
                    normalises = True
                    continue
                raise Untranslatable(ob, f"name rewritten by {_u(val)!r}")
            if isinstance(tgt, ast.Name):
                recv, chain = _call_chain(val, ob)
                if recv not in frames:
                    raise Untranslatable(ob, f"frame built from unknown {recv!r}")
                copied, wrapped = frames[recv]
                for m in chain:
                    if m == "copy":
                        copied = True
                    elif m == "_convert_leaf_to_cte":
                        wrapped = True
                        copied = True  # _convert_leaf_to_cte returns df.copy(...)
                    else:
                        raise Untranslatable(ob, f"unknown frame method {m!r}")
                frames[tgt.id] = (copied, wrapped)
                continue
            if isinstance(tgt, ast.Subscript) and _u(tgt.value) == "self.session.temp_views":
                if _u(tgt.slice) != "name":
                    raise Untranslatable(ob, f"registry key is {_u(tgt.slice)!r}")
                if not isinstance(val, ast.Name) or val.id not in frames:
                    raise Untranslatable(ob, f"registry value is {_u(val)!r}")
                if stored is not None:
                    raise Untranslatable(ob, "two registrations")
                stored = val.id
                continue
            raise Untranslatable(ob, f"unsupported assignment {_u(st)[:80]!r}")
        if isinstance(st, ast.Expr) and isinstance(st.value, ast.Call) and _u(st.value.func) == "self.session.catalog.add_table":
            c = st.value
            if len(c.args) != 2 or _u(c.args[0]) != "name":
                raise Untranslatable(ob, "add_table is not called as add_table(name, columns)")
            a = c.args[1]
            ok = (
                isinstance(a, ast.ListComp)
                and _u(a.elt) == "x.alias_or_name"
                and len(a.generators) == 1
                and not a.generators[0].ifs
                and isinstance(a.generators[0].iter, ast.Call)
                and _u(a.generators[0].iter.func) == "self._get_outer_select_columns"
                and len(a.generators[0].iter.args) == 1
            )
            if not ok:
                raise Untranslatable(ob, f"unsupported column list {_u(a)[:80]!r}")
            src = _u(a.generators[0].iter.args[0])
            if not src.endswith(".expression") or src[: -len(".expression")] not in frames:
                raise Untranslatable(ob, f"columns taken from {src!r}")
            cols_from = src[: -len(".expression")]
            for kw in c.keywords:
                if kw.arg == "replace" and isinstance(kw.value, ast.Constant) and isinstance(kw.value.value, bool):
                    replace_kw = kw.value.value
                else:
                    raise Untranslatable(ob, f"unsupported add_table keyword {kw.arg}")
            registers_cols = True
            continue
        raise Untranslatable(ob, f"unsupported statement {_u(st)[:80]!r}")
    if stored is None:
        raise Untranslatable(ob, "no registration `self.session.temp_views[name] = …` found")
    copied, wrapped = frames[stored]
    kind = "self" if stored == "self" else ("wrappedCopy" if wrapped and copied else "copyOnly" if copied else "self")
    if registers_cols and cols_from is not None and frames[cols_from][1] != wrapped and stored != cols_from:
        # column list read from a frame in a different wrap state: harmless (same outer select), accepted
        pass
    return {"normalises": normalises, "kind": kind, "registers_cols": registers_cols, "replace_kw": replace_kw}


def _add_table(repo: str) -> str:
    """'always' | 'unlessReplace' | 'never' : when does add_table keep the columns it already has"""
    ob = "Gen.Views.add_table"
    cat = find_class(parse(repo, "sqlframe/base/catalog.py"), "_BaseCatalog")
    fn = find_func(cat.body, "add_table")
    mode = "never"
    for st in fn.body:
        if isinstance(st, ast.If) and len(st.body) == 1 and isinstance(st.body[0], ast.Return) and st.body[0].value is None and not st.orelse:
            test = _u(st.test)
            if "_schema.find" not in test:
                continue
            if test == "self._schema.find(table)":
                mode = "always"
            elif test in ("not replace and self._schema.find(table)", "self._schema.find(table) and (not replace)", "self._schema.find(table) and not replace"):
                if "replace" not in [a.arg for a in fn.args.args + fn.args.kwonlyargs]:
                    raise Untranslatable(ob, "`replace` is not a parameter")
                mode = "unlessReplace"
            else:
                raise Untranslatable(ob, f"unsupported early-return test {test!r}")
    calls = [n for n in ast.walk(fn) if isinstance(n, ast.Call) and _u(n.func) == "self._schema.add_table"]
    if len(calls) != 1:
        raise Untranslatable(ob, "expected exactly one self._schema.add_table call")
    return mode


# ------------------------------------------------------------------------------------------------
# reader.table
# ------------------------------------------------------------------------------------------------


def _reader_table(repo: str) -> t.Dict[str, bool]:
    ob = "Gen.Views.reader.table"
    rd = find_class(parse(repo, "sqlframe/base/readerwriter.py"), "_BaseDataFrameReader")
    fn = find_func(rd.body, "table")
    normalises = False
    views_first = False
    for st in fn.body:
        if isinstance(st, ast.Expr) and isinstance(st.value, ast.Constant):
            continue
        if isinstance(st, ast.Assign) and _u(st.targets[0]) == "tableName":
            v = st.value
            if isinstance(v, ast.Call) and _u(v.func) == "normalize_string" and _u(v.args[0]) == "tableName":
                normalises = True
                continue
            raise Untranslatable(ob, f"tableName rewritten by {_u(v)!r}")
        if isinstance(st, ast.If) and "temp_views" in _u(st.test):
            if _u(st.test) != "(df := self.session.temp_views.get(tableName))" and _u(st.test) != "df := self.session.temp_views.get(tableName)":
                raise Untranslatable(ob, f"unsupported registry test {_u(st.test)!r}")
            if len(st.body) != 1 or not isinstance(st.body[0], ast.Return) or _u(st.body[0].value) != "df" or st.orelse:
                raise Untranslatable(ob, "registry hit does not `return df`")
            views_first = True
            continue
        # the first statement that is neither the normalisation nor the registry test starts the catalog path
        break
    if any("temp_views" in _u(s) for s in fn.body) and not views_first:
        raise Untranslatable(ob, "temp_views is consulted, but not first / not in the recognised shape")
    return {"normalises": normalises, "views_first": views_first}


# ------------------------------------------------------------------------------------------------
# session.sql — the splice
# ------------------------------------------------------------------------------------------------


def _splice(repo: str) -> t.Dict[str, t.Any]:
    ob = "Gen.Views.session.sql"
    ses = find_class(parse(repo, "sqlframe/base/session.py"), "_BaseSession")
    fn = find_func(ses.body, "sql")
    blocks = [s for s in fn.body if isinstance(s, ast.If) and _u(s.test) == "self.temp_views"]
    if len(blocks) != 1 or blocks[0].orelse:
        raise Untranslatable(ob, "expected exactly one `if self.temp_views:` block")
    blk = blocks[0].body
    loops = [s for s in blk if isinstance(s, ast.For) and "self.temp_views.get(" in _u(s)]
    if len(loops) != 1:
        raise Untranslatable(ob, "expected one loop over the table references")
    others = [s for s in blk if isinstance(s, ast.For) and s is not loops[0]]
    if any(_u(o.iter) != "replacements" for o in others):
        raise Untranslatable(ob, "unexpected extra loop in the splice block")
    loop = loops[0]
    if not isinstance(loop.target, ast.Name):
        raise Untranslatable(ob, "loop target is not a name")
    tv = loop.target.id
    it = _u(loop.iter)
    skips_bound = False
    if it == "expression.find_all(exp.Table)":
        kinds = ["Table"]
    else:
        # repaired shape: only references that resolve to a real table (not to a CTE / subquery of the statement)
        src = None
        if isinstance(loop.iter, ast.Name):
            for s in blk:
                if isinstance(s, ast.Assign) and _u(s.targets[0]) == loop.iter.id:
                    src = s.value
        else:
            src = loop.iter
        want = "[source for scope in traverse_scope(expression) for source in scope.sources.values() if isinstance(source, exp.Table)]"
        if src is None or _u(src) != want:
            raise Untranslatable(ob, f"unsupported reference enumeration {it!r}")
        kinds = ["Table"]
        skips_bound = True
    key = None
    target = None
    cond = None
    pos = None
    in_place: t.Optional[bool] = None
    for st in loop.body:
        s = _u(st)
        if isinstance(st, ast.If) and isinstance(st.body[0], ast.Continue) and len(st.body) == 1:
            if s.startswith(f"if not (df := self.temp_views.get({tv}.") and s.split("\n")[0].endswith(")):"):
                key = s.split(f"get({tv}.")[1].split(")")[0]
                continue
            raise Untranslatable(ob, f"unsupported guard {s.splitlines()[0]!r}")
        if isinstance(st, ast.Assign) and _u(st.targets[0]) == "expression_ctes":
            if _u(st.value) != "{cte.alias_or_name: cte for cte in expression.ctes}":
                raise Untranslatable(ob, f"expression_ctes = {_u(st.value)!r}")
            continue
        if isinstance(st, ast.Assign) and _u(st.targets[0]) == f"replacement_mapping[{tv}]":
            v = st.value
            target = _target_index(v, ob)
            in_place = False
            continue
        if isinstance(st, ast.Expr) and isinstance(st.value, ast.Call) and _u(st.value.func) == "replacements.append":
            a = st.value.args[0]
            if not (isinstance(a, ast.Tuple) and len(a.elts) == 2 and _u(a.elts[0]) == tv):
                raise Untranslatable(ob, f"unsupported replacement record {_u(a)!r}")
            target = _target_index(a.elts[1], ob)
            in_place = True
            continue
        if isinstance(st, ast.Assign) and _u(st.targets[0]) == "ctes_to_add":
            if _u(st.value) != "[]":
                raise Untranslatable(ob, f"ctes_to_add = {_u(st.value)!r}")
            continue
        if isinstance(st, ast.For) and _u(st.iter) == "df.expression.ctes" and _u(st.target) == "cte":
            if len(st.body) != 1:
                raise Untranslatable(ob, "unsupported CTE loop body")
            b = st.body[0]
            if isinstance(b, ast.If) and not b.orelse and len(b.body) == 1 and _u(b.body[0]) == "ctes_to_add.append(cte)":
                if _u(b.test) == "cte.alias_or_name not in expression_ctes":
                    cond = "ifAbsent"
                else:
                    raise Untranslatable(ob, f"unsupported append condition {_u(b.test)!r}")
            elif _u(b) == "ctes_to_add.append(cte)":
                cond = "always"
            else:
                raise Untranslatable(ob, f"unsupported CTE loop statement {_u(b)[:80]!r}")
            continue
        if isinstance(st, ast.Expr) and s.startswith("expression.set('with'"):
            if s == "expression.set('with', exp.With(expressions=expression.ctes + ctes_to_add))":
                pos = "append"
            elif s == "expression.set('with', exp.With(expressions=ctes_to_add + expression.ctes))":
                pos = "prepend"
            else:
                raise Untranslatable(ob, f"unsupported WITH update {s!r}")
            continue
        raise Untranslatable(ob, f"unsupported statement in the splice loop: {s[:80]!r}")
    if key is None or target is None:
        raise Untranslatable(ob, "lookup guard or replacement target not found")
    if cond == "ifAbsent" and not any(isinstance(st, ast.Assign) and _u(st.targets[0]) == "expression_ctes" for st in loop.body):
        raise Untranslatable(ob, "the set of CTE names already present is not recomputed for every view reference (it goes stale while CTEs are appended)")
    if cond is None or pos is None:
        cond = "never"  # the view's CTEs are not added to the statement
        pos = pos or "append"
    # which nodes are renamed
    repl_kinds: t.List[str] = []
    if in_place:
        ok = any(
            isinstance(s, ast.For) and _u(s.iter) == "replacements" and len(s.body) == 1 and _u(s.body[0]).startswith(f"{_u(s.target).strip('()').split(', ')[0]}.set('this', exp.to_identifier(")
            for s in blk
        )
        if not ok:
            raise Untranslatable(ob, "in-place replacement loop not recognised")
        repl_kinds = kinds
    else:
        fdefs = [s for s in blk if isinstance(s, ast.FunctionDef)]
        if len(fdefs) != 1:
            raise Untranslatable(ob, "expected one replacement callback")
        f = fdefs[0]
        body = [s for s in f.body if not (isinstance(s, ast.Expr) and isinstance(s.value, ast.Constant))]
        if len(body) != 2 or not isinstance(body[0], ast.If) or _u(body[1]) != "return node":
            raise Untranslatable(ob, "replacement callback shape not recognised")
        outer = body[0]
        if not (isinstance(outer.test, ast.Call) and _u(outer.test.func) == "isinstance" and _u(outer.test.args[0]) == "node"):
            raise Untranslatable(ob, "replacement callback does not test the node kind")
        kt = outer.test.args[1]
        ks = kt.elts if isinstance(kt, ast.Tuple) else [kt]
        for k in ks:
            if not (isinstance(k, ast.Attribute) and _u(k.value) == "exp"):
                raise Untranslatable(ob, f"unsupported node kind {_u(k)!r}")
            repl_kinds.append(k.attr)
        inner = outer.body
        if not (
            len(inner) == 1
            and isinstance(inner[0], ast.If)
            and _u(inner[0].test) == "node in replacement_mapping"
            and len(inner[0].body) == 1
            and _u(inner[0].body[0]) == "node.set('this', exp.to_identifier(replacement_mapping[node]))"
        ):
            raise Untranslatable(ob, "replacement callback body not recognised")
        uses = [s for s in blk if isinstance(s, ast.If) and _u(s.test) == "replacement_mapping"]
        if len(uses) != 1 or _u(uses[0].body[0]) != f"expression = expression.transform({f.name})":
            raise Untranslatable(ob, "the replacement callback is not applied with expression.transform")
    # wrapping of the result
    wraps = None
    for st in fn.body:
        if isinstance(st, ast.If) and _u(st.test) == "isinstance(expression, exp.Select)":
            body = [_u(s) for s in st.body]
            if body == ["df = self._create_df(expression)", "df = df._convert_leaf_to_cte()"]:
                wraps = True
            elif body == ["df = self._create_df(expression)"]:
                wraps = False
            else:
                raise Untranslatable(ob, f"unsupported SELECT branch {body!r}")
    if wraps is None:
        raise Untranslatable(ob, "SELECT branch of session.sql not found")
    return {"kinds": kinds, "key": key, "target": target, "cond": cond, "pos": pos, "repl_kinds": repl_kinds, "skips_bound": skips_bound, "wraps": wraps}


def _rehash(repo: str) -> bool:
    """does `_replace_cte_names_with_hashes` keep a CTE's unique name when its content hash is already taken?"""
    ob = "Gen.Views._replace_cte_names_with_hashes"
    df = find_class(parse(repo, "sqlframe/base/dataframe.py"), "BaseDataFrame")
    fn = find_func(df.body, "_replace_cte_names_with_hashes")
    loops = [s for s in fn.body if isinstance(s, ast.For)]
    if len(loops) != 1 or _u(loops[0].iter) != "expression.ctes" or _u(loops[0].target) != "cte":
        raise Untranslatable(ob, "expected one loop `for cte in expression.ctes`")
    keeps = False
    seen = []
    for st in loops[0].body:
        s = _u(st)
        if isinstance(st, ast.Assign) and _u(st.targets[0]) == "old_name_id":
            if _u(st.value) != "cte.args['alias'].this":
                raise Untranslatable(ob, f"old_name_id = {_u(st.value)!r}")
            seen.append("old")
        elif isinstance(st, ast.Assign) and _u(st.targets[0]) == "new_hashed_id":
            v = st.value
            if not (isinstance(v, ast.Call) and _u(v.func) == "exp.to_identifier" and _u(v.args[0]) == "self._create_hash_from_expression(cte.this)"):
                raise Untranslatable(ob, f"new name is {_u(v)!r} (must be the hash of the CTE body)")
            seen.append("new")
        elif isinstance(st, ast.If):
            if _u(st.test) == "new_hashed_id in replacement_mapping.values()" and len(st.body) == 1 and isinstance(st.body[0], ast.Continue) and not st.orelse:
                if "map" in seen:
                    raise Untranslatable(ob, "duplicate-name guard after the mapping is extended")
                keeps = True
            else:
                raise Untranslatable(ob, f"unsupported guard {_u(st.test)!r}")
        elif isinstance(st, ast.Assign) and _u(st.targets[0]) == "replacement_mapping[old_name_id]":
            if _u(st.value) != "new_hashed_id":
                raise Untranslatable(ob, f"mapping value {_u(st.value)!r}")
            seen.append("map")
        elif isinstance(st, ast.Assign) and _u(st.targets[0]) == "expression":
            if not _u(st.value).startswith("expression.transform(replace_id_value, replacement_mapping)"):
                raise Untranslatable(ob, f"expression = {_u(st.value)[:60]!r}")
            seen.append("apply")
        elif isinstance(st, ast.Expr) and isinstance(st.value, ast.Constant):
            continue
        else:
            raise Untranslatable(ob, f"unsupported statement {s[:80]!r}")
    if seen != ["old", "new", "map", "apply"]:
        raise Untranslatable(ob, f"unexpected statement order {seen}")
    return keeps


def _wrap(repo: str) -> t.Dict[str, t.Any]:
    """`_convert_leaf_to_cte` / `_create_cte_from_expression`: what moves into the new CTE and what the new leaf is"""
    df = find_class(parse(repo, "sqlframe/base/dataframe.py"), "BaseDataFrame")
    ob = "Gen.Views._create_cte_from_expression"
    fn = find_func(df.body, "_create_cte_from_expression")
    cleared: t.List[str] = []
    seen: t.List[str] = []
    for st in fn.body:
        if isinstance(st, ast.Expr) and isinstance(st.value, ast.Constant):
            continue
        s = _u(st)
        if s == "name = name or self._create_hash_from_expression(expression)":
            if seen:
                raise Untranslatable(ob, "the CTE name is computed after the expression was touched")
            seen.append("name")
        elif s == "expression_to_cte = expression.copy()":
            seen.append("copy")
        elif isinstance(st, ast.Expr) and isinstance(st.value, ast.Call) and _u(st.value.func) == "expression_to_cte.set":
            a = st.value.args
            if "copy" not in seen or "cte" in seen:
                raise Untranslatable(ob, f"{s!r} outside the copy … with_ window")
            if len(a) == 2 and isinstance(a[0], ast.Constant) and isinstance(a[0].value, str) and isinstance(a[1], ast.Constant) and a[1].value is None and not st.value.keywords:
                cleared.append(a[0].value)
            else:
                raise Untranslatable(ob, f"the CTE body is rewritten by {s!r}")
        elif s == "cte = exp.Select().with_(name, as_=expression_to_cte, **kwargs).ctes[0]":
            if "copy" not in seen:
                raise Untranslatable(ob, "the CTE body is not a copy of the expression")
            seen.append("cte")
        elif s in ("cte.set('branch_id', branch_id)", "cte.set('sequence_id', sequence_id)"):
            continue  # bookkeeping attributes of the CTE node, not part of its SQL
        elif s == "return (cte, name)":
            seen.append("ret")
        else:
            raise Untranslatable(ob, f"unsupported statement {s[:80]!r}")
    if seen != ["name", "copy", "cte", "ret"]:
        raise Untranslatable(ob, f"unexpected statement order {seen}")

    ob = "Gen.Views._convert_leaf_to_cte"
    fn = find_func(df.body, "_convert_leaf_to_cte")
    keeps: t.Optional[bool] = None
    builders: t.List[str] = []
    outer = False
    seen = []
    for st in fn.body:
        if isinstance(st, ast.Expr) and isinstance(st.value, ast.Constant):
            continue
        s = _u(st)
        if s == "df = self._resolve_pending_hints()":
            seen.append("hints")
        elif s == "sequence_id = sequence_id or df.sequence_id":
            continue
        elif s == "expression = df.expression.copy()":
            seen.append("copy")
        elif s == "cte_expression, cte_name = df._create_cte_from_expression(expression=expression, branch_id=self.branch_id, sequence_id=sequence_id, name=name)":
            seen.append("cte")
        elif s.startswith("new_expression = df._add_ctes_to_expression("):
            if s == "new_expression = df._add_ctes_to_expression(exp.Select(), expression.ctes + [cte_expression])":
                keeps = True
            elif s == "new_expression = df._add_ctes_to_expression(exp.Select(), [cte_expression])":
                keeps = False
            else:
                raise Untranslatable(ob, f"unsupported WITH list {s[:100]!r}")
            seen.append("with")
        elif s == "sel_columns = df._get_outer_select_columns(cte_expression)":
            seen.append("cols")
        elif s.startswith("new_expression = new_expression."):
            node = st.value  # a chain of builder calls on new_expression
            chain: t.List[ast.Call] = []
            while isinstance(node, ast.Call) and isinstance(node.func, ast.Attribute):
                chain.append(node)
                node = node.func.value
            if not (isinstance(node, ast.Name) and node.id == "new_expression"):
                raise Untranslatable(ob, f"unsupported leaf construction {s[:100]!r}")
            for c in reversed(chain):
                m = c.func.attr
                args = [_u(a) for a in c.args] + [f"{k.arg}={_u(k.value)}" for k in c.keywords]
                if m == "from_" and args == ["cte_name"]:
                    builders.append("from_")
                elif m == "select" and args == ["*[x.expression for x in sel_columns]"]:
                    builders.append("select")
                    outer = True
                else:
                    raise Untranslatable(ob, f"the new leaf is built with .{m}({', '.join(args)[:60]})")
            seen.append("leaf")
        elif s == "return df.copy(expression=new_expression, sequence_id=sequence_id)":
            seen.append("ret")
        else:
            raise Untranslatable(ob, f"unsupported statement {s[:80]!r}")
    if seen != ["hints", "copy", "cte", "with", "cols", "leaf", "ret"] or keeps is None:
        raise Untranslatable(ob, f"unexpected statement order {seen}")
    return {"cleared": cleared, "keeps": keeps, "builders": builders, "outer": outer}


def _target_index(v: ast.expr, ob: str) -> str:
    s = _u(v)
    if s == "df.expression.ctes[-1].alias_or_name":
        return "last"
    if s == "df.expression.ctes[0].alias_or_name":
        return "first"
    raise Untranslatable(ob, f"unsupported replacement target {s!r}")


# ------------------------------------------------------------------------------------------------


def gen_views(repo: str) -> str:
    tv = _temp_view(repo)
    at = _add_table(repo)
    rt = _reader_table(repo)
    sp = _splice(repo)
    keeps_unique = _rehash(repo)
    wr = _wrap(repo)
    skips_existing = at == "always" or (at == "unlessReplace" and not tv["replace_kw"])
    out = [HEADER, "namespace Sqlframe.Gen", ""]
    out.append("/-- what `createOrReplaceTempView` puts into `session.temp_views` -/")
    out.append("inductive ViewStoreKind | wrappedCopy | copyOnly | self deriving DecidableEq, Repr")
    out.append("/-- when `session.sql` adds a CTE of the view's chain to the statement -/")
    out.append("inductive ViewAppendCond | ifAbsent | always | never deriving DecidableEq, Repr")
    out.append("/-- which CTE of the view replaces a reference to the view -/")
    out.append("inductive ViewCteTarget | last | first deriving DecidableEq, Repr")
    out.append("inductive ViewAddPos | append | prepend deriving DecidableEq, Repr")
    out.append("")
    out.append("/-- `name = normalize_string(name, from_dialect=\"input\")` in createOrReplaceTempView -/")
    out.append(f"def viewNormalizesName : Bool := {_b(tv['normalises'])}")
    out.append("/-- `df = self.copy()._convert_leaf_to_cte(); self.session.temp_views[name] = df` -/")
    out.append(f"def viewStores : ViewStoreKind := .{tv['kind']}")
    out.append(f"def viewRegistersColumns : Bool := {_b(tv['registers_cols'])}")
    out.append("/-- catalog.add_table keeps the column list it already has for that name (re-registration) -/")
    out.append(f"def viewSchemaKeptOnReregister : Bool := {_b(skips_existing)}")
    out.append("")
    out.append("/-- reader.table: `tableName = normalize_string(tableName, …)` -/")
    out.append(f"def tableNormalizesName : Bool := {_b(rt['normalises'])}")
    out.append("/-- reader.table: `if df := self.session.temp_views.get(tableName): return df` comes first -/")
    out.append(f"def tableChecksViewsFirst : Bool := {_b(rt['views_first'])}")
    out.append("")
    out.append("/-- node kinds `session.sql` visits when looking for view references -/")
    out.append("def spliceVisitsKinds : List String := [" + ", ".join(lean_str(k) for k in sp["kinds"]) + "]")
    out.append("/-- attribute of the reference used as the registry key -/")
    out.append(f"def spliceLookupKey : String := {lean_str(sp['key'])}")
    out.append(f"def spliceTarget : ViewCteTarget := .{sp['target']}")
    out.append(f"def spliceAppend : ViewAppendCond := .{sp['cond']}")
    out.append(f"def spliceAddPos : ViewAddPos := .{sp['pos']}")
    out.append("/-- node kinds whose name is rewritten to the view's CTE -/")
    out.append("def spliceRenamesKinds : List String := [" + ", ".join(lean_str(k) for k in sp["repl_kinds"]) + "]")
    out.append("/-- references bound by one of the statement's own CTEs are left alone -/")
    out.append(f"def spliceSkipsCteBound : Bool := {_b(sp['skips_bound'])}")
    out.append("/-- the SELECT result of session.sql is wrapped (`_convert_leaf_to_cte`) -/")
    out.append(f"def sqlWrapsResult : Bool := {_b(sp['wraps'])}")
    out.append("/-- `_replace_cte_names_with_hashes` keeps a CTE's own name when its content hash is already taken -/")
    out.append(f"def rehashKeepsUniqueNames : Bool := {_b(keeps_unique)}")
    out.append("/-- `_create_cte_from_expression`: arguments of the copied leaf SELECT cleared (`.set(arg, None)`) before it becomes the CTE body -/")
    out.append("def cteClearedArgs : List String := [" + ", ".join(lean_str(k) for k in wr["cleared"]) + "]")
    out.append("/-- `_convert_leaf_to_cte`: the new WITH list is `expression.ctes + [cte]` -/")
    out.append(f"def wrapKeepsChain : Bool := {_b(wr['keeps'])}")
    out.append("/-- `_convert_leaf_to_cte`: builder calls that make the new leaf out of `exp.Select()` -/")
    out.append("def wrapLeafBuilders : List String := [" + ", ".join(lean_str(k) for k in wr["builders"]) + "]")
    out.append("/-- `_convert_leaf_to_cte`: the new select list is the CTE's outer select columns, read back by name -/")
    out.append(f"def wrapSelectsOuterColumns : Bool := {_b(wr['outer'])}")
    out.append("")
    out.append("end Sqlframe.Gen")
    return "\n".join(out) + "\n"


GENERATORS = {"Views": gen_views}
