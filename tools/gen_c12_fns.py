"""
gen_c12_fns.py — translator part of C12 for the per-engine FUNCTION decisions: Gen/EngineFns.lean.

Reads with `ast` (nothing is imported):
  sqlframe/base/session.py               the dialect ROLE each time-format helper uses: `default_time_format`, `format_time`,
                                         `format_execution_time` (default branch, and the read / write sides of the conversion)
  sqlframe/base/functions.py             for every function: the `_is_<engine>` flags its body mentions (the check's FOCUS set);
                                         the DISPATCH of overlay / sequence / regexp_replace / try_to_timestamp, obtained by
                                         symbolically executing the body for every engine row (the flags of Gen/Engines) and every
                                         given/omitted combination of the optional parameters
  sqlframe/base/function_alternatives.py the emulations those dispatches reach: overlay_from_substr (the three pieces as linear
                                         forms, which `len` forms keep the caller's length), the step each sequence_* emulation
                                         passes when none is given, whether regexp_replace_global_option sets the 'g' option,
                                         which session helper spells the format of each try_to_timestamp_* variant

The symbolic execution understands: imports, `session = _get_session()`, `if` over `session._is_<engine>` / `<param> is [not] None`
/ `isinstance(<param>, int)` combined with and / or / not, `<param> = None`, `logger.warning(..)`, `return`.  Anything else raises
Untranslatable (never a guess, never a default).
"""
from __future__ import annotations

import ast
import itertools
import typing as t

from translate import HEADER, Untranslatable, find_class, find_func, lean_str, parse

FN = "sqlframe/base/functions.py"
FA = "sqlframe/base/function_alternatives.py"
SE = "sqlframe/base/session.py"
ROLES = ("input", "output", "execution")

# the value forms an optional `Union[ColumnOrName, int]` parameter can take
FORMS = ("omitted", "pyInt", "column")


def _body(fn: ast.FunctionDef) -> t.List[ast.stmt]:
    b = list(fn.body)
    if b and isinstance(b[0], ast.Expr) and isinstance(b[0].value, ast.Constant) and isinstance(b[0].value.value, str):
        b = b[1:]
    return b


# ------------------------------------------------------------------------------------------------
# symbolic execution of a dispatching function body
# ------------------------------------------------------------------------------------------------


class Unknown(Exception):
    pass


def _truth(test: ast.expr, flags: t.Dict[str, bool], forms: t.Dict[str, str], ob: str) -> bool:
    """value of an `if` test for one engine and one form of every tracked parameter ('omitted' | 'pyInt' | 'column')"""
    if isinstance(test, ast.BoolOp):
        vals = [_truth(v, flags, forms, ob) for v in test.values]
        return all(vals) if isinstance(test.op, ast.And) else any(vals)
    if isinstance(test, ast.UnaryOp) and isinstance(test.op, ast.Not):
        return not _truth(test.operand, flags, forms, ob)
    if isinstance(test, ast.Attribute) and isinstance(test.value, ast.Name) and test.value.id == "session" and test.attr.startswith("_is_"):
        if test.attr not in flags:
            raise Untranslatable(ob, f"unknown engine flag {test.attr}")
        return flags[test.attr]
    if isinstance(test, ast.Compare) and len(test.ops) == 1 and isinstance(test.left, ast.Name) and test.left.id in forms:
        c = test.comparators[0]
        if isinstance(c, ast.Constant) and c.value is None:
            if isinstance(test.ops[0], ast.Is):
                return forms[test.left.id] == "omitted"
            if isinstance(test.ops[0], ast.IsNot):
                return forms[test.left.id] != "omitted"
    if isinstance(test, ast.Call) and isinstance(test.func, ast.Name) and test.func.id == "isinstance" and len(test.args) == 2:
        v, ty = test.args
        if isinstance(v, ast.Name) and v.id in forms:
            tys = [ast.unparse(x) for x in (ty.elts if isinstance(ty, ast.Tuple) else [ty])]
            known = {"int": {"pyInt"}, "Column": {"column"}, "str": {"column"}}
            if all(x in known for x in tys):
                return any(forms[v.id] in known[x] for x in tys)
    if isinstance(test, ast.Name) and test.id in forms:
        # truthiness of a parameter: None is false, a Column / a name is true; an int may be 0
        if forms[test.id] == "omitted":
            return False
        if forms[test.id] == "column":
            return True
    raise Untranslatable(ob, f"test outside the sub-language: {ast.unparse(test)!r}")


def sym_exec(stmts: t.List[ast.stmt], flags: t.Dict[str, bool], forms: t.Dict[str, str], ob: str) -> t.Tuple[ast.expr, t.Dict[str, str]]:
    """the `return` expression reached for this engine / these parameter forms, and the forms at that point"""
    forms = dict(forms)

    def run(block: t.List[ast.stmt]) -> t.Optional[ast.expr]:
        for st in block:
            if isinstance(st, (ast.Import, ast.ImportFrom)):
                continue
            if isinstance(st, ast.Expr) and isinstance(st.value, ast.Constant):
                continue
            if isinstance(st, ast.Expr) and isinstance(st.value, ast.Call) and ast.unparse(st.value.func) in ("logger.warning", "logger.info", "logger.debug"):
                continue
            if isinstance(st, ast.Assign) and len(st.targets) == 1 and isinstance(st.targets[0], ast.Name):
                name = st.targets[0].id
                if name == "session" and ast.unparse(st.value) in ("_get_session()", "_BaseSession()"):
                    continue
                if name in forms and isinstance(st.value, ast.Constant) and st.value.value is None:
                    forms[name] = "omitted"
                    continue
                if name not in forms and isinstance(st.value, ast.Call) and ast.unparse(st.value.func) == "get_func_from_session":
                    continue
                raise Untranslatable(ob, f"assignment outside the sub-language: {ast.unparse(st)[:80]!r}")
            if isinstance(st, ast.If):
                r = run(st.body if _truth(st.test, flags, forms, ob) else st.orelse)
                if r is not None:
                    return r
                continue
            if isinstance(st, ast.Return) and st.value is not None:
                return st.value
            raise Untranslatable(ob, f"statement outside the sub-language: {ast.unparse(st)[:80]!r}")
        return None

    r = run(stmts)
    if r is None:
        raise Untranslatable(ob, "falls off the end without a return")
    return r, forms


def _kw(call: ast.Call) -> t.Dict[str, ast.expr]:
    return {k.arg: k.value for k in call.keywords if k.arg}


# ------------------------------------------------------------------------------------------------
# session.py: which dialect role the time-format helpers use
# ------------------------------------------------------------------------------------------------


def _role_attr(src: str, ob: str, what: str) -> str:
    import re

    m = re.fullmatch(r"self\.(input|output|execution)_dialect", src)
    if not m:
        raise Untranslatable(ob, f"{what}: expected self.<role>_dialect, found {src!r}")
    return m.group(1)


def time_roles(repo: str) -> t.Dict[str, str]:
    import re

    ob = "Gen.EngineFns.timeRoles"
    base = find_class(parse(repo, SE), "_BaseSession")
    out: t.Dict[str, str] = {}
    # default_time_format
    b = _body(find_func(base.body, "default_time_format"))
    if len(b) != 1 or not isinstance(b[0], ast.Return):
        raise Untranslatable(ob, "default_time_format is not a single return")
    m = re.fullmatch(r"(self\.\w+_dialect)\.TIME_FORMAT\.strip\(\"'\"\)", ast.unparse(b[0].value))
    if not m:
        raise Untranslatable(ob, f"default_time_format returns {ast.unparse(b[0].value)!r}")
    out["defaultFormat"] = _role_attr(m.group(1), ob, "default_time_format")
    # format_time
    b = [s for s in _body(find_func(base.body, "format_time")) if not isinstance(s, (ast.Import, ast.ImportFrom))]
    want = ["value = value or self.default_time_format", "if isinstance(value, Column):\n    value = value.expression.this"]
    if len(b) != 3 or [ast.unparse(x) for x in b[:2]] != want or not isinstance(b[2], ast.Return):
        raise Untranslatable(ob, f"format_time has an unexpected body: {[ast.unparse(x)[:60] for x in b]}")
    m = re.fullmatch(r"(self\.\w+_dialect)\.format_time\(f\"'\{value\}'\"\)", ast.unparse(b[2].value))
    if not m:
        raise Untranslatable(ob, f"format_time returns {ast.unparse(b[2].value)!r}")
    out["formatTimeRead"] = _role_attr(m.group(1), ob, "format_time")
    # format_execution_time
    b = [s for s in _body(find_func(base.body, "format_execution_time")) if not isinstance(s, (ast.Import, ast.ImportFrom))]
    if len(b) != 3 or not isinstance(b[0], ast.If) or ast.unparse(b[0].test) != "value is None" or b[0].orelse or len(b[0].body) != 1 or not isinstance(b[0].body[0], ast.Return):
        raise Untranslatable(ob, "format_execution_time does not start with `if value is None: return ...`")
    m = re.fullmatch(r"exp\.Literal\.string\((self\.\w+_dialect)\.TIME_FORMAT\.strip\(\"'\"\)\)", ast.unparse(b[0].body[0].value))
    if not m:
        raise Untranslatable(ob, f"format_execution_time(None) returns {ast.unparse(b[0].body[0].value)!r}")
    out["execDefault"] = _role_attr(m.group(1), ob, "format_execution_time(None)")
    if ast.unparse(b[1]) != want[1] or not isinstance(b[2], ast.Return):
        raise Untranslatable(ob, "format_execution_time: unexpected statements after the default branch")
    m = re.fullmatch(
        r"exp\.Literal\.string\((self\.\w+_dialect)\.generator\(\)\.format_time\(exp\.StrToTime\(this=exp\.Null\(\), format=(self\.\w+_dialect)\.format_time\(f\"'\{value\}'\"\)\)\)\.strip\(\"'\"\)\)",
        ast.unparse(b[2].value),
    )
    if not m:
        raise Untranslatable(ob, f"format_execution_time(value) returns {ast.unparse(b[2].value)[:160]!r}")
    out["execWrite"] = _role_attr(m.group(1), ob, "format_execution_time write side")
    out["execRead"] = _role_attr(m.group(2), ob, "format_execution_time read side")
    return out


# ------------------------------------------------------------------------------------------------
# functions.py: the `_is_<engine>` flags every function mentions
# ------------------------------------------------------------------------------------------------


def fn_flags(repo: str) -> t.List[t.Tuple[str, t.List[str]]]:
    out = []
    for n in parse(repo, FN).body:
        if isinstance(n, ast.FunctionDef) and not n.name.startswith("_"):
            fl = sorted({x.attr for x in ast.walk(n) if isinstance(x, ast.Attribute) and x.attr.startswith("_is_") and isinstance(x.value, ast.Name)})
            helper = sorted({x.attr for x in ast.walk(n) if isinstance(x, ast.Attribute) and x.attr in ("format_time", "format_execution_time", "default_time_format")})
            if fl or helper:
                out.append((n.name, fl + ["helper:" + h for h in helper]))
    return out


# ------------------------------------------------------------------------------------------------
# overlay
# ------------------------------------------------------------------------------------------------


def _linear(e: ast.expr, atoms: t.Dict[str, str], ob: str) -> t.Dict[str, int]:
    """a +/- expression over the named atoms and lit(k) / integer constants -> {atom: coefficient, "const": k}"""
    src = ast.unparse(e)
    if src in atoms:
        return {atoms[src]: 1}
    if isinstance(e, ast.Constant) and type(e.value) is int:
        return {"const": e.value}
    if isinstance(e, ast.Call) and isinstance(e.func, ast.Name) and e.func.id == "lit" and len(e.args) == 1 and isinstance(e.args[0], ast.Constant) and type(e.args[0].value) is int:
        return {"const": e.args[0].value}
    if isinstance(e, ast.BinOp) and isinstance(e.op, (ast.Add, ast.Sub)):
        a, b = _linear(e.left, atoms, ob), _linear(e.right, atoms, ob)
        sign = 1 if isinstance(e.op, ast.Add) else -1
        out = dict(a)
        for k, v in b.items():
            out[k] = out.get(k, 0) + sign * v
        return out
    raise Untranslatable(ob, f"not a linear form: {src!r}")


def _strip_colexpr(e: ast.expr, ob: str) -> ast.expr:
    if isinstance(e, ast.Attribute) and e.attr == "column_expression":
        return e.value
    raise Untranslatable(ob, f"expected <x>.column_expression, found {ast.unparse(e)!r}")


def overlay(repo: str, engines: t.List[t.Dict[str, t.Any]]) -> t.Dict[str, t.Any]:
    ob = "Gen.EngineFns.overlay"
    fn = find_func(parse(repo, FN).body, "overlay")
    params = [a.arg for a in fn.args.args]
    if params != ["src", "replace", "pos", "len"]:
        raise Untranslatable(ob, f"unexpected parameters {params}")
    body = _body(fn)
    rows = []
    native_for: t.Dict[str, bool] = {}
    native_lit: t.Dict[str, bool] = {}
    for e in engines:
        flags = dict(e["flags"])
        emul: t.Optional[bool] = None
        for form in FORMS:
            ret, _ = sym_exec(body, flags, {"len": form, "pos": "column"}, ob)
            src = ast.unparse(ret)
            if src == "overlay_from_substr(src, replace, pos, len)":
                kind = True
            elif isinstance(ret, ast.Call) and ast.unparse(ret.func) == "Column.invoke_expression_over_column" and len(ret.args) == 2 and ast.unparse(ret.args[1]) == "expression.Overlay":
                kind = False
                if len(ret.keywords) != 1 or ret.keywords[0].arg is not None or not isinstance(ret.keywords[0].value, ast.Dict):
                    raise Untranslatable(ob, "native OVERLAY is not built from one ** dict")
                d = {ast.literal_eval(k): v for k, v in zip(ret.keywords[0].value.keys, ret.keywords[0].value.values)}
                if set(d) != {"expression", "from", "for"} or ast.unparse(ret.args[0]) != "src":
                    raise Untranslatable(ob, f"native OVERLAY arguments {sorted(d)}")
                if ast.unparse(d["expression"]) != "Column.ensure_col(replace).column_expression":
                    raise Untranslatable(ob, f"native OVERLAY replace operand {ast.unparse(d['expression'])!r}")
                if ast.unparse(d["from"]) != "(lit(pos) if isinstance(pos, int) else Column.ensure_col(pos)).column_expression":
                    raise Untranslatable(ob, f"native OVERLAY FROM operand {ast.unparse(d['from'])!r}")
                f = d["for"]
                if not (isinstance(f, ast.IfExp) and isinstance(f.orelse, ast.Constant) and f.orelse.value is None):
                    raise Untranslatable(ob, f"native OVERLAY FOR operand {ast.unparse(f)[:100]!r}")
                if ast.unparse(f.body) != "(lit(len) if isinstance(len, int) else Column.ensure_col(len)).column_expression":
                    raise Untranslatable(ob, f"native OVERLAY FOR value {ast.unparse(f.body)!r}")
                has = _truth(f.test, flags, {"len": form}, ob)
                if native_for.setdefault(form, has) != has:
                    raise Untranslatable(ob, "the FOR decision differs between engines")
            else:
                raise Untranslatable(ob, f"unknown outcome {src[:80]!r}")
            if emul is not None and emul != kind:
                raise Untranslatable(ob, f"the {e['engine']} dispatch depends on the form of len")
            emul = kind
        rows.append((e["engine"], bool(emul)))
    for form in FORMS:
        native_for.setdefault(form, form != "omitted")
    # the emulation
    alt = find_func(parse(repo, FA).body, "overlay_from_substr")
    if [a.arg for a in alt.args.args] != params:
        raise Untranslatable(ob, "overlay_from_substr has other parameters")
    names: t.Dict[str, str] = {}
    length_test: t.Optional[ast.expr] = None
    ret: t.Optional[ast.expr] = None
    for st in _body(alt):
        if isinstance(st, ast.Assign) and len(st.targets) == 1 and isinstance(st.targets[0], ast.Name):
            v = st.value
            if isinstance(v, ast.Call) and ast.unparse(v.func) == "get_func_from_session" and len(v.args) == 1 and isinstance(v.args[0], ast.Constant):
                names[st.targets[0].id] = v.args[0].value
                continue
            if st.targets[0].id == "length_value" and isinstance(v, ast.IfExp) and ast.unparse(v.body) == "len" and ast.unparse(v.orelse) == "length_func(replace)":
                length_test = v.test
                continue
        if isinstance(st, ast.Return):
            ret = st.value
            continue
        raise Untranslatable(ob, f"overlay_from_substr: unexpected statement {ast.unparse(st)[:80]!r}")
    if names != {"col_func": "col", "lit": "lit", "substring": "substring", "length_func": "length"}:
        raise Untranslatable(ob, f"overlay_from_substr: helper names {names}")
    if length_test is None or ret is None:
        raise Untranslatable(ob, "overlay_from_substr: no `length_value = len if .. else length_func(replace)` / no return")
    keeps = {form: _truth(length_test, {}, {"len": form}, ob) for form in FORMS}
    if not (isinstance(ret, ast.Call) and ast.unparse(ret.func) == "Column" and len(ret.args) == 1 and isinstance(ret.args[0], ast.Call) and ast.unparse(ret.args[0].func) == "expression.Concat"):
        raise Untranslatable(ob, "overlay_from_substr does not return Column(expression.Concat(..))")
    ex = _kw(ret.args[0]).get("expressions")
    if not isinstance(ex, ast.List) or len(ex.elts) != 3:
        raise Untranslatable(ob, "the CONCAT does not have three pieces")
    head, mid, tail = [_strip_colexpr(x, ob) for x in ex.elts]
    atoms = {"col_func(pos)": "pos", "col_func(length_value)": "len"}
    if not (isinstance(head, ast.Call) and ast.unparse(head.func) == "substring" and len(head.args) == 3 and ast.unparse(head.args[0]) == "col_func(src)" and ast.unparse(head.args[1]) == "1"):
        raise Untranslatable(ob, f"head piece {ast.unparse(head)!r}")
    hl = _linear(head.args[2], atoms, ob)
    if hl.get("pos", 0) != 1 or hl.get("len", 0) != 0:
        raise Untranslatable(ob, f"head length is not pos + k: {hl}")
    if ast.unparse(mid) != "col_func(replace)":
        raise Untranslatable(ob, f"middle piece {ast.unparse(mid)!r}")
    if not (isinstance(tail, ast.Call) and ast.unparse(tail.func) == "substring" and len(tail.args) == 3 and ast.unparse(tail.args[0]) == "col_func(src)"):
        raise Untranslatable(ob, f"tail piece {ast.unparse(tail)!r}")
    tl = _linear(tail.args[1], atoms, ob)
    if tl.get("pos", 0) != 1 or tl.get("len", 0) != 1:
        raise Untranslatable(ob, f"tail start is not pos + len + k: {tl}")
    if ast.unparse(tail.args[2]) != "length_func(src)":
        raise Untranslatable(ob, f"tail length {ast.unparse(tail.args[2])!r}")
    return {"emulated": rows, "keepsLen": keeps, "nativeFor": native_for, "headOffset": hl.get("const", 0), "tailOffset": tl.get("const", 0)}


# ------------------------------------------------------------------------------------------------
# sequence
# ------------------------------------------------------------------------------------------------

DIRECTION_CASE = (
    "expression.case().when(expression.LTE(this=col_func(start).column_expression, expression=col_func(stop).column_expression), "
    "expression.Literal.number(1)).else_(expression.Literal.number(-1))"
)


def _no_step_rule(alt: ast.FunctionDef, ob: str) -> t.Tuple[str, int]:
    """what the emulation passes as the step when the caller gave none: ("direction", 0) | ("const", k)"""
    rets = [s for s in _body(alt) if isinstance(s, ast.Return)]
    if len(rets) != 1:
        raise Untranslatable(ob, f"{alt.name}: expected one return")
    anon = [n for n in ast.walk(rets[0]) if isinstance(n, ast.Call) and ast.unparse(n.func) == "expression.Anonymous"]
    if len(anon) != 1:
        raise Untranslatable(ob, f"{alt.name}: expected one expression.Anonymous")
    ex = _kw(anon[0]).get("expressions")
    if not isinstance(ex, ast.List) or len(ex.elts) != 3:
        raise Untranslatable(ob, f"{alt.name}: the call does not have three arguments")
    step = ex.elts[2]
    if not (isinstance(step, ast.IfExp) and ast.unparse(step.body) == "col_func(step).column_expression" and ast.unparse(step.test) in ("step", "step is not None")):
        raise Untranslatable(ob, f"{alt.name}: third argument {ast.unparse(step)[:100]!r}")
    dflt = ast.unparse(step.orelse)
    if dflt == DIRECTION_CASE:
        return ("direction", 0)
    for pat in ("expression.Literal.number({})", "lit({}).column_expression"):
        for k in (1, -1):
            if dflt == pat.format(k):
                return ("const", k)
    raise Untranslatable(ob, f"{alt.name}: default step {dflt[:120]!r}")


def sequence(repo: str, engines: t.List[t.Dict[str, t.Any]]) -> t.List[t.Tuple[str, str, int]]:
    ob = "Gen.EngineFns.sequence"
    fn = find_func(parse(repo, FN).body, "sequence")
    if [a.arg for a in fn.args.args] != ["start", "stop", "step"]:
        raise Untranslatable(ob, "unexpected parameters")
    fa = parse(repo, FA).body
    out = []
    for e in engines:
        ret, _ = sym_exec(_body(fn), dict(e["flags"]), {"step": "omitted"}, ob)
        if isinstance(ret, ast.Call) and isinstance(ret.func, ast.Name) and ret.func.id.startswith("sequence_from_") and ast.unparse(ret).endswith("(start, stop, step)"):
            kind, k = _no_step_rule(find_func(fa, ret.func.id), ob)
            out.append((e["engine"], kind, k))
        elif ast.unparse(ret).startswith("Column(expression.GenerateSeries(") and "step=Column.ensure_col(step).column_expression if step is not None else None" in ast.unparse(ret):
            out.append((e["engine"], "native", 0))
        else:
            raise Untranslatable(ob, f"unknown outcome for {e['engine']}: {ast.unparse(ret)[:100]!r}")
    return out


# ------------------------------------------------------------------------------------------------
# regexp_replace
# ------------------------------------------------------------------------------------------------


def _regexp_outcome(ret: ast.expr, ob: str) -> t.Tuple[bool, bool]:
    """(the 'g' option is set, the position is passed on) of one RegexpReplace builder call"""
    if not (isinstance(ret, ast.Call) and ast.unparse(ret.func) == "Column.invoke_expression_over_column" and len(ret.args) == 2 and ast.unparse(ret.args[1]) == "expression.RegexpReplace"):
        raise Untranslatable(ob, f"not a RegexpReplace builder: {ast.unparse(ret)[:100]!r}")
    kw = _kw(ret)
    extra = set(kw) - {"expression", "replacement", "position", "modifiers"}
    if extra or ast.unparse(kw.get("expression", ast.Constant(0))) != "lit(pattern)" or ast.unparse(kw.get("replacement", ast.Constant(0))) != "lit(replacement)":
        raise Untranslatable(ob, f"RegexpReplace arguments {sorted(kw)}")
    g = False
    if "modifiers" in kw:
        if ast.unparse(kw["modifiers"]) != "lit('g')":
            raise Untranslatable(ob, f"modifiers {ast.unparse(kw['modifiers'])!r}")
        g = True
    p = False
    if "position" in kw:
        if ast.unparse(kw["position"]) != "lit(position)":
            raise Untranslatable(ob, f"position {ast.unparse(kw['position'])!r}")
        p = True
    return g, p


def regexp_replace(repo: str, engines: t.List[t.Dict[str, t.Any]]) -> t.List[t.Tuple[str, bool, bool, bool, bool]]:
    """(engine, g without position, g with position, position passed when given, position passed when omitted)"""
    ob = "Gen.EngineFns.regexpReplace"
    fn = find_func(parse(repo, FN).body, "regexp_replace")
    if [a.arg for a in fn.args.args] != ["str", "pattern", "replacement", "position"]:
        raise Untranslatable(ob, "unexpected parameters")
    helper = find_func(parse(repo, FA).body, "regexp_replace_global_option")
    if [a.arg for a in helper.args.args] != ["str", "pattern", "replacement", "position"]:
        raise Untranslatable(ob, "regexp_replace_global_option has other parameters")
    out = []
    for e in engines:
        res = {}
        for form in ("omitted", "pyInt"):
            ret, forms = sym_exec(_body(fn), dict(e["flags"]), {"position": form}, ob)
            if isinstance(ret, ast.Call) and ast.unparse(ret.func) == "regexp_replace_global_option":
                args = [ast.unparse(a) for a in ret.args]
                if args == ["str", "pattern", "replacement", "position"]:
                    hform = forms["position"]
                elif args == ["str", "pattern", "replacement"]:
                    hform = "omitted"
                else:
                    raise Untranslatable(ob, f"helper called with {args}")
                hret, _ = sym_exec(_body(helper), {}, {"position": hform}, ob)
                res[form] = _regexp_outcome(hret, ob)
            else:
                res[form] = _regexp_outcome(ret, ob)
        out.append((e["engine"], res["omitted"][0], res["pyInt"][0], res["pyInt"][1], res["omitted"][1]))
    return out


# ------------------------------------------------------------------------------------------------
# try_to_timestamp: which session helper spells the format each engine's statement carries
# ------------------------------------------------------------------------------------------------


def _format_helper(ret: ast.expr, ob: str) -> t.Tuple[str, str]:
    """(SQL function called, helper that produces its format argument) of an invoke_anonymous_function return"""
    if not (isinstance(ret, ast.Call) and ast.unparse(ret.func) == "Column.invoke_anonymous_function" and len(ret.args) == 3 and isinstance(ret.args[1], ast.Constant)):
        raise Untranslatable(ob, f"not an anonymous function call with three arguments: {ast.unparse(ret)[:100]!r}")
    helpers = []
    for a in (ret.args[0], ret.args[2]):
        s = ast.unparse(a)
        for h in ("format_time", "format_execution_time"):
            if s in (f"session.{h}(format)", f"_BaseSession().{h}(format)"):
                helpers.append(h)
    if len(helpers) != 1:
        raise Untranslatable(ob, f"cannot tell which helper spells the format: {ast.unparse(ret)[:120]!r}")
    return ret.args[1].value, helpers[0]


def try_to_timestamp(repo: str, engines: t.List[t.Dict[str, t.Any]]) -> t.List[t.Tuple[str, str, str]]:
    ob = "Gen.EngineFns.tryToTimestamp"
    fn = find_func(parse(repo, FN).body, "try_to_timestamp")
    if [a.arg for a in fn.args.args] != ["col", "format"]:
        raise Untranslatable(ob, "unexpected parameters")
    fa = parse(repo, FA).body
    out = []
    for e in engines:
        ret, _ = sym_exec(_body(fn), dict(e["flags"]), {"format": "omitted"}, ob)
        if isinstance(ret, ast.Call) and isinstance(ret.func, ast.Name) and ret.func.id.startswith("try_to_timestamp_") and [ast.unparse(a) for a in ret.args] == ["col", "format"]:
            alt = find_func(fa, ret.func.id)
            rets = [s for s in _body(alt) if isinstance(s, ast.Return)]
            if len(rets) != 1:
                raise Untranslatable(ob, f"{alt.name}: expected one return")
            sqlfn, helper = _format_helper(rets[0].value, ob)
        else:
            sqlfn, helper = _format_helper(ret, ob)
        out.append((e["engine"], sqlfn, helper))
    return out


# ------------------------------------------------------------------------------------------------
# rint: which rounding each engine's statement uses
# ------------------------------------------------------------------------------------------------


def rint(repo: str, engines: t.List[t.Dict[str, t.Any]]) -> t.List[t.Tuple[str, str]]:
    """engine -> "roundEven" (ROUND_EVEN(col, 0)) | "fromRound" (rint_from_round: round(col, 0)) | "native" (RINT(col))"""
    ob = "Gen.EngineFns.rint"
    fn = find_func(parse(repo, FN).body, "rint")
    if [a.arg for a in fn.args.args] != ["col"]:
        raise Untranslatable(ob, "unexpected parameters")
    alt = find_func(parse(repo, FA).body, "rint_from_round")
    ab = [x for x in _body(alt) if not isinstance(x, (ast.Import, ast.ImportFrom))]
    if [ast.unparse(x) for x in ab] != ["round = get_func_from_session('round', _BaseSession())", "return round(col, 0)"]:
        raise Untranslatable(ob, f"rint_from_round has an unexpected body: {[ast.unparse(x)[:60] for x in ab]}")
    out = []
    for e in engines:
        ret, _ = sym_exec(_body(fn), dict(e["flags"]), {}, ob)
        src = ast.unparse(ret)
        if src == "Column.invoke_anonymous_function(col, 'ROUND_EVEN', lit(0))":
            out.append((e["engine"], "roundEven"))
        elif src == "rint_from_round(col)":
            out.append((e["engine"], "fromRound"))
        elif src == "Column.invoke_anonymous_function(col, 'RINT')":
            out.append((e["engine"], "native"))
        else:
            raise Untranslatable(ob, f"unknown outcome for {e['engine']}: {src[:100]!r}")
    return out


# ------------------------------------------------------------------------------------------------


def extract(repo: str) -> t.Dict[str, t.Any]:
    import gen_c12

    engines = gen_c12.extract(repo)["engines"]
    return {
        "engines": [e["engine"] for e in engines],
        "timeRoles": time_roles(repo),
        "fnFlags": fn_flags(repo),
        "overlay": overlay(repo, engines),
        "sequence": sequence(repo, engines),
        "regexpReplace": regexp_replace(repo, engines),
        "tryToTimestamp": try_to_timestamp(repo, engines),
        "rint": rint(repo, engines),
    }


def gen_engine_fns(repo: str) -> str:
    x = extract(repo)

    def b(v: bool) -> str:
        return "true" if v else "false"

    def role(r: str) -> str:
        return "DialRole." + r

    tr = x["timeRoles"]
    ov = x["overlay"]
    out = [HEADER, "import SqlframeModel.Gen.Engines", "namespace Sqlframe.Gen", ""]
    out.append("/-! ### the dialect role each time-format helper of `_BaseSession` uses -/")
    out.append("/-- `default_time_format`: `self.<role>_dialect.TIME_FORMAT` -/")
    out.append(f"def defaultTimeFormatRole : DialRole := {role(tr['defaultFormat'])}")
    out.append("/-- `format_time(value)`: `self.<role>_dialect.format_time(value or default_time_format)` -/")
    out.append(f"def formatTimeReadRole : DialRole := {role(tr['formatTimeRead'])}")
    out.append("/-- `format_execution_time(None)`: `self.<role>_dialect.TIME_FORMAT` -/")
    out.append(f"def execTimeDefaultRole : DialRole := {role(tr['execDefault'])}")
    out.append("/-- `format_execution_time(value)`: read with `self.<role>_dialect.format_time` … -/")
    out.append(f"def execTimeReadRole : DialRole := {role(tr['execRead'])}")
    out.append("/-- … and written with `self.<role>_dialect.generator().format_time` -/")
    out.append(f"def execTimeWriteRole : DialRole := {role(tr['execWrite'])}")
    out.append("")
    out.append("/-- how a caller passes an optional `Union[ColumnOrName, int]` argument -/")
    out.append("inductive ArgForm | omitted | pyInt | column deriving DecidableEq, Repr")
    out.append("")
    out.append("/-! ### overlay -/")
    out.append("/-- engine package -> the session is routed to `overlay_from_substr` (otherwise: the native `expression.Overlay`) -/")
    out.append("def overlayEmulated : List (String × Bool) := [" + ", ".join(f"({lean_str(e)}, {b(v)})" for e, v in ov["emulated"]) + "]")
    out.append("/-- `overlay_from_substr`: `length_value = len if <test> else length(replace)` — the caller's len is kept -/")
    out.append("def overlayEmulKeepsLen : ArgForm → Bool\n" + "\n".join(f"  | .{f} => {b(ov['keepsLen'][f])}" for f in FORMS))
    out.append("/-- the native branch: the FOR operand is present -/")
    out.append("def overlayNativeHasFor : ArgForm → Bool\n" + "\n".join(f"  | .{f} => {b(ov['nativeFor'][f])}" for f in FORMS))
    out.append("/-- head piece: `substring(src, 1, pos + k)` -/")
    out.append(f"def overlayHeadLenOffset : Int := {ov['headOffset']}")
    out.append("/-- tail piece: `substring(src, pos + len + k, length(src))` -/")
    out.append(f"def overlayTailStartOffset : Int := {ov['tailOffset']}")
    out.append("")
    out.append("/-! ### sequence -/")
    out.append("/-- the step an engine's rendering uses when the caller gives none -/")
    out.append("inductive StepRule | direction | const (k : Int) | native deriving DecidableEq, Repr")
    out.append("def seqNoStepRule : List (String × StepRule) := [" + ", ".join(f"({lean_str(e)}, " + (".direction" if k == "direction" else ".native" if k == "native" else f".const ({v})") + ")" for e, k, v in x["sequence"]) + "]")
    out.append("")
    out.append("/-! ### regexp_replace -/")
    out.append("structure RegexpRow where")
    out.append("  engine : String")
    out.append("  gNoPos : Bool      -- the 'g' option is set when no position is given")
    out.append("  gWithPos : Bool    -- … when a position is given")
    out.append("  posPassed : Bool   -- a given position reaches the statement")
    out.append("  deriving DecidableEq, Repr")
    out.append("def regexpReplaceRows : List RegexpRow := [" + ", ".join(f"{{ engine := {lean_str(e)}, gNoPos := {b(g0)}, gWithPos := {b(g1)}, posPassed := {b(p1)} }}" for e, g0, g1, p1, _p0 in x["regexpReplace"]) + "]")
    out.append("")
    out.append("/-! ### try_to_timestamp -/")
    out.append("/-- the session helper that spells the format literal of the engine's statement -/")
    out.append("inductive FormatHelper | formatTime | formatExecutionTime deriving DecidableEq, Repr")
    out.append("/-- engine package -> (SQL function called, helper) -/")
    out.append("def tryToTimestampRows : List (String × String × FormatHelper) := [" + ", ".join(f"({lean_str(e)}, {lean_str(f)}, " + (".formatTime" if h == "format_time" else ".formatExecutionTime") + ")" for e, f, h in x["tryToTimestamp"]) + "]")
    out.append("")
    out.append("/-! ### rint -/")
    out.append("/-- the rounding an engine's rendering of rint() uses: ROUND_EVEN(col, 0) | rint_from_round = round(col, 0) | the engine's RINT -/")
    out.append("inductive RintRule | roundEven | fromRound | native deriving DecidableEq, Repr")
    out.append("def rintRules : List (String × RintRule) := [" + ", ".join(f"({lean_str(e)}, .{k})" for e, k in x["rint"]) + "]")
    out.append("")
    out.append("end Sqlframe.Gen")
    return "\n".join(out) + "\n"


GENERATORS = {"EngineFns": gen_engine_fns}
