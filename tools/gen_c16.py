"""
gen_c16.py — translator part of C16 (functions accept a column name wherever PySpark does).

STATIC part (this file, Python `ast`, never imports sqlframe): the coercion decisions of
sqlframe/base/column.py and base/functions.py that the Lean model of `ensure_col` / `col` / `lit` /
`Column(...)` / `binary_op` is built from, the engine list, and the types of the cell table.

DYNAMIC part (tools/props/c16_trace.py, run by the check `./check C16` on every run, in-process, and by this
generator in a SUBPROCESS only when Gen/Functions.lean does not exist yet): the table
`cells : List Cell` of (function, engine, PySpark ColumnOrName position, coercion met by a string), obtained
by running the real functions under each engine's real session class with a tracing `str`.

`Functions` below is therefore "no-op if present": translate.py calls it on every check of every
property, and it must neither import sqlframe in the translator's process nor spend the tracer's
time there.  A present file is kept only if its static part still equals what the current source
gives (otherwise the static part is re-spliced and the table kept); `./check C16` always re-derives
the table itself.
"""
from __future__ import annotations

import ast
import json
import os
import re
import subprocess
import sys
import typing as t

from translate import HEADER, Untranslatable, find_class, find_func, lean_str, parse

HERE = os.path.dirname(os.path.abspath(__file__))
ROOT = os.path.dirname(HERE)
GEN_DIR = os.path.join(ROOT, "lean", "SqlframeModel", "Gen")
SNAPSHOT = os.path.join(HERE, "oracle", "c16_table_snapshot.json")
ENGINE_ORDER = ["standalone", "spark", "databricks", "duckdb", "postgres", "bigquery", "snowflake", "redshift"]
TABLE_MARK = "/-- where the table below came from"


def _b(x: bool) -> str:
    return "true" if x else "false"


def _is_isinstance(node: ast.expr, var: str, cls: str) -> bool:
    return (
        isinstance(node, ast.Call)
        and isinstance(node.func, ast.Name)
        and node.func.id == "isinstance"
        and len(node.args) == 2
        and ast.unparse(node.args[0]) == var
        and ast.unparse(node.args[1]) == cls
    )


def _str_branch_of_operand(fn: ast.FunctionDef, ob: str) -> t.Tuple[str, str]:
    """`other = self._lit(other) if isinstance(other, str) else Column(other)` -> ("literal", "columnCtor")"""
    for st in fn.body:
        if isinstance(st, ast.Assign) and ast.unparse(st.targets[0]) == "other":
            v = st.value
            if isinstance(v, ast.IfExp) and _is_isinstance(v.test, "other", "str"):
                return _coercion_call(v.body, "other", ob), _coercion_call(v.orelse, "other", ob)
            return _coercion_call(v, "other", ob), _coercion_call(v, "other", ob)
    raise Untranslatable(ob, "no assignment to `other` found")


def _coercion_call(node: ast.expr, var: str, ob: str) -> str:
    src = ast.unparse(node)
    table = {
        f"self._lit({var})": "literal",
        f"cls._lit({var})": "literal",
        f"lit({var})": "literal",
        f"Column({var})": "columnCtor",
        f"cls({var})": "columnCtor",
        f"self.ensure_col({var})": "ensureCol",
        f"cls.ensure_col({var})": "ensureCol",
        f"Column.ensure_col({var})": "ensureCol",
        f"col({var})": "ensureCol",
    }
    if src in table:
        return table[src]
    raise Untranslatable(ob, f"unrecognised coercion {src!r}")


def static_part(repo: str) -> str:
    colmod = parse(repo, "sqlframe/base/column.py")
    fnmod = parse(repo, "sqlframe/base/functions.py")
    C = find_class(colmod, "Column")

    # Column.ensure_col: `col = get_func_from_session("col"); return col(value)`
    fn = find_func(C.body, "ensure_col")
    body = [s for s in fn.body if not (isinstance(s, ast.Expr) and isinstance(s.value, ast.Constant))]
    ok = (
        len(body) == 2
        and isinstance(body[0], ast.Assign)
        and ast.unparse(body[0]) in ("col = get_func_from_session('col')",)
        and isinstance(body[1], ast.Return)
        and ast.unparse(body[1].value) == "col(value)"
    )
    if not ok:
        raise Untranslatable("Gen.Functions.ensure_col", f"body is not `col = get_func_from_session('col'); return col(value)`: {ast.unparse(fn)[:200]!r}")

    # functions.col: `if isinstance(column_name, str): <to_column ...> return Column(col_expression)` / `return Column(column_name)`
    fn = find_func(fnmod.body, "col")
    ifs = [s for s in fn.body if isinstance(s, ast.If)]
    rets = [s for s in fn.body if isinstance(s, ast.Return)]
    if len(ifs) != 1 or not _is_isinstance(ifs[0].test, "column_name", "str") or ifs[0].orelse or len(rets) != 1:
        raise Untranslatable("Gen.Functions.col", "shape `if isinstance(column_name, str): ...; return Column(column_name)` not recognised")
    str_src = ast.unparse(ifs[0])
    inner_rets = [s for s in ast.walk(ifs[0]) if isinstance(s, ast.Return)]
    if len(inner_rets) != 1 or ast.unparse(inner_rets[0].value) != "Column(col_expression)":
        raise Untranslatable("Gen.Functions.col", "string branch does not return Column(col_expression)")
    assigns = [s for s in ifs[0].body if isinstance(s, ast.Assign) and ast.unparse(s.targets[0]) == "col_expression"]
    if len(assigns) != 1 or "expression.to_column(column_name" not in ast.unparse(assigns[0].value):
        raise Untranslatable("Gen.Functions.col", "string branch does not build expression.to_column(column_name, ...)")
    col_str = "columnRef"
    col_other = _coercion_call(rets[0].value, "column_name", "Gen.Functions.col")
    del str_src

    # functions.lit: `if isinstance(value, str): return Column(expression.Literal.string(value))`
    fn = find_func(fnmod.body, "lit")
    lit_str = None
    for st in fn.body:
        if isinstance(st, ast.If) and _is_isinstance(st.test, "value", "str"):
            r = [s for s in st.body if isinstance(s, ast.Return)]
            if len(r) == 1 and ast.unparse(r[0].value) == "Column(expression.Literal.string(value))":
                lit_str = "stringLiteral"
    if lit_str is None:
        raise Untranslatable("Gen.Functions.lit", "`if isinstance(value, str): return Column(expression.Literal.string(value))` not found")

    # Column.__init__: Column -> unwrap ; other non-(str|Expression) -> _lit ; str (not exp.Column) -> maybe_parse
    fn = find_func(C.body, "__init__")
    chain = [s for s in fn.body if isinstance(s, ast.If) and _is_isinstance(s.test, "expression", "Column")]
    if len(chain) != 1:
        raise Untranslatable("Gen.Functions.Column.__init__", "`if isinstance(expression, Column)` chain not found")
    node = chain[0]
    if ast.unparse(node.body[0]) != "expression = expression.expression":
        raise Untranslatable("Gen.Functions.Column.__init__", "Column branch does not unwrap `.expression`")
    if len(node.orelse) != 1 or not isinstance(node.orelse[0], ast.If):
        raise Untranslatable("Gen.Functions.Column.__init__", "second branch missing")
    second = node.orelse[0]
    if ast.unparse(second.test) != "expression is None or not isinstance(expression, (str, exp.Expression))":
        raise Untranslatable("Gen.Functions.Column.__init__", f"second test changed: {ast.unparse(second.test)!r}")
    if len(second.orelse) != 1 or not isinstance(second.orelse[0], ast.If):
        raise Untranslatable("Gen.Functions.Column.__init__", "third branch missing")
    third = second.orelse[0]
    if ast.unparse(third.test) != "not isinstance(expression, exp.Column)" or "sqlglot.maybe_parse(expression" not in ast.unparse(third.body[0]):
        raise Untranslatable("Gen.Functions.Column.__init__", "str branch is not sqlglot.maybe_parse(expression, ...)")

    # binary_op / inverse_binary_op: the str operand
    bin_str, bin_other = _str_branch_of_operand(find_func(C.body, "binary_op"), "Gen.Functions.binary_op")
    inv_str, inv_other = _str_branch_of_operand(find_func(C.body, "inverse_binary_op"), "Gen.Functions.inverse_binary_op")

    # invoke_anonymous_function / invoke_expression_over_column: every column argument goes through ensure_col
    fn = find_func(C.body, "invoke_anonymous_function")
    src = ast.unparse(fn)
    anon_ok = "[] if column is None else [cls.ensure_col(column)]" in src and "[cls.ensure_col(arg) for arg in args]" in src
    if not anon_ok:
        raise Untranslatable("Gen.Functions.invoke_anonymous_function", "arguments are not all passed through cls.ensure_col")
    fn = find_func(C.body, "invoke_expression_over_column")
    src = ast.unparse(fn)
    over_ok = "None if column is None else cls.ensure_col(column)" in src and "cls.ensure_col(x).column_expression for x in v" in src and "cls.ensure_col(v).column_expression" in src
    if not over_ok:
        raise Untranslatable("Gen.Functions.invoke_expression_over_column", "arguments are not all passed through cls.ensure_col")

    # Python operator methods that go through binary_op / inverse_binary_op (the `col + lit(1)` pattern)
    ops = []
    for st in C.body:
        if isinstance(st, ast.FunctionDef) and re.fullmatch(r"__r?(add|sub|mul|truediv|div|mod|and|or|eq|ne|gt|ge|lt|le)__", st.name):
            r = [s for s in st.body if isinstance(s, ast.Return)]
            if len(r) == 1 and isinstance(r[0].value, ast.Call) and ast.unparse(r[0].value.func) in ("self.binary_op", "self.inverse_binary_op"):
                ops.append((st.name, ast.unparse(r[0].value.func) == "self.inverse_binary_op"))
            else:
                raise Untranslatable("Gen.Functions.operators", f"{st.name} no longer delegates to binary_op/inverse_binary_op")

    engines = [e for e in ENGINE_ORDER if os.path.exists(os.path.join(repo, "sqlframe", e, "functions.py"))]
    extra = sorted(
        d
        for d in os.listdir(os.path.join(repo, "sqlframe"))
        if os.path.exists(os.path.join(repo, "sqlframe", d, "functions.py")) and d not in ENGINE_ORDER and d != "base"
    )
    if extra or len(engines) != len(ENGINE_ORDER):
        raise Untranslatable("Gen.Functions.engines", f"engine packages changed: found {engines + extra}")

    out = [HEADER.rstrip("\n")]
    out.append("-- static part: tools/gen_c16.py (ast); table: tools/props/c16_trace.py (runs the real functions)")
    out.append("namespace Sqlframe.Gen")
    out.append("")
    out.append("inductive Engine")
    for e in engines:
        out.append(f"  | {e}")
    out.append("  deriving DecidableEq, Repr, Inhabited")
    out.append("")
    out.append("def Engine.all : List Engine := [" + ", ".join("." + e for e in engines) + "]")
    out.append("def Engine.name : Engine → String")
    for e in engines:
        out.append(f"  | .{e} => {lean_str(e)}")
    out.append("")
    out.append("/-- what a Python `str` argument meets on its way into the expression tree -/")
    out.append("inductive Coercion | ensureCol | literal | parsed | text | none")
    out.append("  deriving DecidableEq, Repr, Inhabited")
    out.append("")
    out.append("/-- what one coercion entry point does with its operand, as read from the source -/")
    out.append("inductive Route | columnRef | stringLiteral | parse | columnCtor | ensureCol | literal")
    out.append("  deriving DecidableEq, Repr, Inhabited")
    out.append("")
    out.append("structure Cell where")
    out.append("  fn : String")
    out.append("  engine : Engine")
    out.append("  pos : Nat")
    out.append("  sub : Nat")
    out.append("  coercion : Coercion")
    out.append("  deriving DecidableEq, Repr")
    out.append("")
    out.append("/-- `Column.ensure_col(value)` is `col(value)` with `col` looked up in the session's functions module -/")
    out.append("def ensureColIsCol : Bool := true")
    out.append("/-- `functions.col`: a `str` becomes `expression.to_column(name)`; anything else goes to … -/")
    out.append(f"def colOnStr : Route := .{col_str}")
    out.append(f"def colOnOther : Route := .{col_other}")
    out.append("/-- `functions.lit` on a `str` -/")
    out.append(f"def litOnStr : Route := .{lit_str}")
    out.append("/-- `Column(x)`: a Column is unwrapped, a `str` is parsed by sqlglot -/")
    out.append("def columnCtorUnwrapsColumn : Bool := true")
    out.append("def columnCtorOnStr : Route := .parse")
    out.append("/-- `Column.binary_op(klass, other)` / `inverse_binary_op`: the `str` operand and the other operands -/")
    out.append(f"def binaryOpOnStr : Route := .{bin_str}")
    out.append(f"def binaryOpOnOther : Route := .{bin_other}")
    out.append(f"def inverseBinaryOpOnStr : Route := .{inv_str}")
    out.append(f"def inverseBinaryOpOnOther : Route := .{inv_other}")
    out.append("/-- every column argument of `invoke_anonymous_function` / `invoke_expression_over_column` passes `ensure_col` -/")
    out.append(f"def invokeAnonymousEnsures : Bool := {_b(anon_ok)}")
    out.append(f"def invokeOverColumnEnsures : Bool := {_b(over_ok)}")
    out.append("/-- Python operator methods of Column and whether they use `inverse_binary_op` -/")
    out.append("def operatorMethods : List (String × Bool) := [" + ", ".join(f"({lean_str(n)}, {_b(inv)})" for n, inv in ops) + "]")
    out.append("")
    return "\n".join(out) + "\n"


def _render_table(rows: t.List[dict], origin: str) -> str:
    out = []
    out.append("/-- where the table below came from: `traced` = tools/props/c16_trace.py ran the real functions of the")
    out.append("    current working tree; `snapshot` = copied from tools/oracle/c16_table_snapshot.json (fresh checkout only) -/")
    out.append(f"def cellsOrigin : String := {lean_str(origin)}")
    out.append("")
    out.append("/-- (function, engine, PySpark position, element of a vararg, coercion met by a string there) -/")
    out.append("def cells : List Cell := [")
    out.append(",\n".join(f"  ⟨{lean_str(r['f'])}, .{r['e']}, {r['pos']}, {r['sub']}, .{r['coercion']}⟩" for r in rows))
    out.append("]")
    out.append("")
    out.append("end Sqlframe.Gen")
    return "\n".join(out) + "\n"


def gen_functions(repo: str) -> str:
    static_text = static_part(repo)
    path = os.path.join(GEN_DIR, "Functions.lean")
    if os.path.exists(path):
        old = open(path, encoding="utf-8").read()
        i = old.find(TABLE_MARK)
        if i > 0 and old.rstrip().endswith("end Sqlframe.Gen"):
            # keep the table (the check re-derives it), refresh the static part
            return static_text.rstrip("\n") + "\n\n" + old[i:]
    # fresh checkout: run the dynamic tracer in a subprocess (this process never imports sqlframe)
    py = "/venv/bin/python" if os.path.exists("/venv/bin/python") else sys.executable
    tmp = os.path.join(GEN_DIR, f".c16_rows_{os.getpid()}.json")
    try:
        os.makedirs(GEN_DIR, exist_ok=True)
        env = dict(os.environ, VERIF_REPO=repo)
        p = subprocess.run(
            [py, os.path.join(HERE, "props", "c16_trace.py"), "--repo", repo, "--json", tmp, "--rows-only"],
            capture_output=True, text=True, timeout=600, env=env,
        )
        if p.returncode == 0 and os.path.exists(tmp):
            rows = json.load(open(tmp))
            return static_text.rstrip("\n") + "\n\n" + _render_table(rows, "traced")
        print("gen_c16: tracer subprocess failed: " + (p.stderr or "")[-400:], file=sys.stderr)
    except Exception as e:  # noqa
        print(f"gen_c16: tracer subprocess failed: {e}", file=sys.stderr)
    finally:
        if os.path.exists(tmp):
            os.remove(tmp)
    if os.path.exists(SNAPSHOT):
        rows = json.load(open(SNAPSHOT))
        return static_text.rstrip("\n") + "\n\n" + _render_table(rows, "snapshot")
    raise Untranslatable("Gen.Functions.cells", "no table: the tracer could not run and there is no snapshot")


GENERATORS = {"Functions": gen_functions}
