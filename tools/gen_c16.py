"""
gen_c16.py — translator part of C16 (functions accept a column name wherever PySpark does).

STATIC part (this file, Python `ast`, never imports sqlframe): the coercion decisions of
sqlframe/base/column.py and base/functions.py that the Lean model of `ensure_col` / `col` / `lit` /
`Column(...)` / `binary_op` is built from, the engine list, and the types of the cell table.

DYNAMIC part (tools/props/c16_trace.py, run by the check `./check C16` on every run, in-process, and by this
generator in a SUBPROCESS only when Gen/Functions.lean does not exist yet): the table
`cells : List Cell` of (function, engine, PySpark ColumnOrName position, coercion met by a string), obtained
by running the real functions under each engine's real session class with a tracing `str`.

`Functions` below is therefore "no-op if present": translate.py calls it on every check of every
property, and it must neither import sqlframe in the translator's process nor spend the tracer's
time there.  A present file is kept only if its static part still equals what the current source
gives (otherwise the static part is re-spliced and the table kept); `./check C16` always re-derives
the table itself.
"""
from __future__ import annotations

import ast
import json
import os
import re
import subprocess
import sys
import typing as t

from translate import HEADER, Untranslatable, find_class, find_func, lean_str, parse

HERE = os.path.dirname(os.path.abspath(__file__))
ROOT = os.path.dirname(HERE)
GEN_DIR = os.path.join(ROOT, "lean", "SqlframeModel", "Gen")
SNAPSHOT = os.path.join(HERE, "oracle", "c16_table_snapshot.json")
ENGINE_ORDER = ["standalone", "spark", "databricks", "duckdb", "postgres", "bigquery", "snowflake", "redshift"]
TABLE_MARK = "/-- where the table below came from"


def _b(x: bool) -> str:
    return "true" if x else "false"


def _is_isinstance(node: ast.expr, var: str, cls: str) -> bool:
    return (
        isinstance(node, ast.Call)
        and isinstance(node.func, ast.Name)
        and node.func.id == "isinstance"
        and len(node.args) == 2
        and ast.unparse(node.args[0]) == var
        and ast.unparse(node.args[1]) == cls
    )


def _str_branch_of_operand(fn: ast.FunctionDef, ob: str) -> t.Tuple[str, str]:
    """`other = self._lit(other) if isinstance(other, str) else Column(other)` -> ("literal", "columnCtor")"""
    for st in fn.body:
        if isinstance(st, ast.Assign) and ast.unparse(st.targets[0]) == "other":
            v = st.value
            if isinstance(v, ast.IfExp) and _is_isinstance(v.test, "other", "str"):
                return _coercion_call(v.body, "other", ob), _coercion_call(v.orelse, "other", ob)
            return _coercion_call(v, "other", ob), _coercion_call(v, "other", ob)
    raise Untranslatable(ob, "no assignment to `other` found")


def _coercion_call(node: ast.expr, var: str, ob: str) -> str:
    src = ast.unparse(node)
    table = {
        f"self._lit({var})": "literal",
        f"cls._lit({var})": "literal",
        f"lit({var})": "literal",
        f"Column({var})": "columnCtor",
        f"cls({var})": "columnCtor",
        f"self.ensure_col({var})": "ensureCol",
        f"cls.ensure_col({var})": "ensureCol",
        f"Column.ensure_col({var})": "ensureCol",
        f"col({var})": "ensureCol",
    }
    if src in table:
        return table[src]
    raise Untranslatable(ob, f"unrecognised coercion {src!r}")



# ------------------------------------------------------------------------------------------------
# naming and unpacking decisions (struct's field names, the varargs-or-one-list rule, the automatic alias)
# ------------------------------------------------------------------------------------------------


def _module_bindings(mod: ast.Module) -> t.Dict[str, str]:
    """last module-level binding of every name: 'helper:<name>' (imported from sqlglot.helper), 'def', 'import', 'assign'"""
    out: t.Dict[str, str] = {}
    for st in mod.body:
        if isinstance(st, ast.ImportFrom):
            for a in st.names:
                out[a.asname or a.name] = f"helper:{a.name}" if st.module == "sqlglot.helper" else "import"
        elif isinstance(st, ast.Import):
            for a in st.names:
                out[(a.asname or a.name).split(".")[0]] = "import"
        elif isinstance(st, (ast.FunctionDef, ast.ClassDef)):
            out[st.name] = "def"
        elif isinstance(st, ast.Assign):
            for tg in st.targets:
                if isinstance(tg, ast.Name):
                    out[tg.id] = "assign"
        elif isinstance(st, ast.If):  # `if t.TYPE_CHECKING:` imports are not bound at run time
            continue
    return out


def _takes_collection(fn: ast.FunctionDef) -> t.Optional[str]:
    """the parameter documented as 'a column or ONE collection of columns' (annotation mentions Iterable[ColumnOrName])"""
    a = fn.args
    for p in list(a.posonlyargs) + list(a.args) + ([a.vararg] if a.vararg else []):
        if p is not None and p.annotation is not None and "Iterable[ColumnOrName]" in ast.unparse(p.annotation).replace("t.", ""):
            return p.arg
    return None


def _flattener_kind(name: str, bindings: t.Dict[str, str], ob: str) -> str:
    b = bindings.get(name)
    if b == "helper:flatten":
        return "flatten"
    if b == "def":
        return "sqlFunction"  # a module-level function of that name (e.g. the SQL function `flatten`) is what gets called
    if b is None:
        return "unbound"
    raise Untranslatable(ob, f"`{name}` is bound at module level by something this translator does not know ({b})")


def _unpack_site(fn: ast.FunctionDef, bindings: t.Dict[str, str], ob: str) -> t.Tuple[str, bool, bool]:
    """(flattener, the scalar guard names str, the scalar guard names Column) of the one unpacking site of `fn`"""
    v = fn.args.vararg.arg if fn.args.vararg else None
    sites = []
    for node in ast.walk(fn):
        # X = [list(]F(v)[)] if not isinstance(v[0], (str, Column)) else v
        if isinstance(node, ast.IfExp) and v is not None:
            test, body, orelse = node.test, node.body, node.orelse
            if not (isinstance(test, ast.UnaryOp) and isinstance(test.op, ast.Not) and isinstance(test.operand, ast.Call)):
                continue
            call = test.operand
            if not (isinstance(call.func, ast.Name) and call.func.id == "isinstance" and len(call.args) == 2 and ast.unparse(call.args[0]) == f"{v}[0]"):
                continue
            if not (isinstance(orelse, ast.Name) and orelse.id == v):
                raise Untranslatable(ob, f"{fn.name}: the scalar branch is not the arguments themselves: {ast.unparse(node)!r}")
            types = [ast.unparse(e) for e in call.args[1].elts] if isinstance(call.args[1], ast.Tuple) else [ast.unparse(call.args[1])]
            if set(types) - {"str", "Column"}:
                raise Untranslatable(ob, f"{fn.name}: scalar guard names types this translator does not know: {types}")
            inner = body
            if isinstance(inner, ast.Call) and isinstance(inner.func, ast.Name) and inner.func.id == "list" and len(inner.args) == 1:
                inner = inner.args[0]
            if not (isinstance(inner, ast.Call) and isinstance(inner.func, ast.Name) and len(inner.args) == 1 and ast.unparse(inner.args[0]) == v and not inner.keywords):
                raise Untranslatable(ob, f"{fn.name}: the collection branch is not F({v}) / list(F({v})): {ast.unparse(body)!r}")
            sites.append((_flattener_kind(inner.func.id, bindings, ob), "str" in types, "Column" in types))
        # ensure_list(col) + list(cols)
        if isinstance(node, ast.BinOp) and isinstance(node.op, ast.Add):
            l, r = node.left, node.right
            first = fn.args.args[0].arg if fn.args.args else None
            if (
                isinstance(l, ast.Call) and isinstance(l.func, ast.Name) and l.func.id == "ensure_list" and len(l.args) == 1
                and first is not None and ast.unparse(l.args[0]) == first
                and isinstance(r, ast.Call) and isinstance(r.func, ast.Name) and r.func.id == "list" and v is not None and ast.unparse(r.args[0]) == v
            ):
                if bindings.get("ensure_list") != "helper:ensure_list":
                    raise Untranslatable(ob, f"{fn.name}: ensure_list is not sqlglot.helper.ensure_list")
                sites.append(("ensureList", True, True))
    if len(sites) != 1:
        raise Untranslatable(ob, f"{fn.name} takes 'a column or one collection of columns' but has {len(sites)} recognised unpacking sites (expected 1)")
    return sites[0]


def _dispatches(fn: ast.FunctionDef, v: t.Optional[str]) -> t.Dict[str, str]:
    """engine -> alternative for `if session._is_<engine>: return <alt>(*<v>)` at the top level of fn"""
    out: t.Dict[str, str] = {}
    for st in fn.body:
        if isinstance(st, ast.If) and not st.orelse and len(st.body) == 1 and isinstance(st.body[0], ast.Return):
            m = re.fullmatch(r"session\._is_([a-z]+)", ast.unparse(st.test))
            call = st.body[0].value
            if m and isinstance(call, ast.Call) and isinstance(call.func, ast.Name) and v is not None and [ast.unparse(a) for a in call.args] == [f"*{v}"] and not call.keywords:
                out[m.group(1)] = call.func.id
    return out


NAMING_CALLS = {"expression.parse_identifier", "exp.parse_identifier", "expression.to_identifier", "exp.to_identifier",
                "expression.Var", "exp.Var", "expression.Identifier", "exp.Identifier"}


def _colname_params(fn: ast.FunctionDef) -> t.Set[str]:
    a = fn.args
    ps = list(a.posonlyargs) + list(a.args) + list(a.kwonlyargs) + ([a.vararg] if a.vararg else [])
    return {p.arg for p in ps if p is not None and p.annotation is not None and "ColumnOrName" in ast.unparse(p.annotation)}


def _tainted(fn: ast.FunctionDef, seeds: t.Set[str]) -> t.Set[str]:
    """names whose value may derive from a ColumnOrName parameter (assignments, loops, comprehensions; fixed point)"""
    tainted = set(seeds)

    def mentions(node: ast.AST) -> bool:
        return any(isinstance(n, ast.Name) and n.id in tainted for n in ast.walk(node))

    def names_of(target: ast.AST) -> t.Set[str]:
        return {n.id for n in ast.walk(target) if isinstance(n, ast.Name)}

    changed = True
    while changed:
        changed = False
        for node in ast.walk(fn):
            new: t.Set[str] = set()
            if isinstance(node, ast.Assign) and mentions(node.value):
                for tg in node.targets:
                    new |= names_of(tg)
            elif isinstance(node, (ast.AugAssign, ast.AnnAssign)) and node.value is not None and mentions(node.value):
                new |= names_of(node.target)
            elif isinstance(node, ast.For) and mentions(node.iter):
                new |= names_of(node.target)
            elif isinstance(node, ast.comprehension) and mentions(node.iter):
                new |= names_of(node.target)
            elif isinstance(node, ast.NamedExpr) and mentions(node.value):
                new |= names_of(node.target)
            if not new <= tainted:
                tainted |= new
                changed = True
    return tainted


def _resolved_loop_vars(fn: ast.FunctionDef) -> t.Set[str]:
    """loop variables of `for v in L` where `L = [col_func(x) for x in …]` and col_func = get_func_from_session('col')"""
    colfuncs = {ast.unparse(st.targets[0]) for st in ast.walk(fn) if isinstance(st, ast.Assign) and ast.unparse(st.value) == "get_func_from_session('col')"}
    lists = set()
    for st in ast.walk(fn):
        if isinstance(st, ast.Assign) and isinstance(st.value, ast.ListComp) and len(st.value.generators) == 1:
            g = st.value.generators[0]
            if isinstance(g.target, ast.Name) and not g.ifs and any(ast.unparse(st.value.elt) == f"{cf}({g.target.id})" for cf in colfuncs):
                lists.add(ast.unparse(st.targets[0]))
    out = set()
    for st in ast.walk(fn):
        if isinstance(st, ast.For) and isinstance(st.target, ast.Name) and ast.unparse(st.iter) in lists:
            reassigned = any(
                isinstance(x, (ast.Assign, ast.AugAssign)) and any(isinstance(n, ast.Name) and n.id == st.target.id for tg in (x.targets if isinstance(x, ast.Assign) else [x.target]) for n in ast.walk(tg))
                for x in ast.walk(st)
            )
            if not reassigned:
                out.add(st.target.id)
    return out


def name_sites(mod: ast.Module, modname: str) -> t.List[t.Tuple[str, str]]:
    """every place where a function makes an identifier / alias / keyword out of TEXT that derives from a ColumnOrName
    parameter: (function, 'resolved') when the text is `<resolved column>.alias_or_name`; anything else is untranslatable"""
    ob = "Gen.Functions.nameSites"
    out: t.List[t.Tuple[str, str]] = []
    for fn in mod.body:
        if not isinstance(fn, ast.FunctionDef):
            continue
        params = _colname_params(fn)
        if not params:
            continue
        tainted = _tainted(fn, params)
        resolved_vars = _resolved_loop_vars(fn)
        colfuncs = {ast.unparse(st.targets[0]) for st in ast.walk(fn) if isinstance(st, ast.Assign) and ast.unparse(st.value) == "get_func_from_session('col')"}
        resolvers = colfuncs | {"Column.ensure_col", "cls.ensure_col", "col"}
        for node in ast.walk(fn):
            if not isinstance(node, ast.Call):
                continue
            fname = ast.unparse(node.func)
            is_alias = isinstance(node.func, ast.Attribute) and node.func.attr == "alias"
            if fname not in NAMING_CALLS and not is_alias:
                continue
            kw = {k.arg: k.value for k in node.keywords}
            text = node.args[0] if node.args else kw.get("this", kw.get("name"))
            if text is None or (isinstance(text, ast.Constant) and isinstance(text.value, str)):
                continue
            if not any(isinstance(n, ast.Name) and n.id in tainted for n in ast.walk(text)):
                continue  # not made from a column argument (lambda parameter names, constants built elsewhere)
            src = ast.unparse(text)
            ok = False
            m = re.fullmatch(r"([\w.]+)\((\w+)\)\.alias_or_name", src)
            if m and m.group(1) in resolvers and m.group(2) in params:
                ok = True
            m = re.fullmatch(r"(\w+)\.alias_or_name", src)
            if m and m.group(1) in resolved_vars:
                ok = True
            if not ok:
                raise Untranslatable(ob, f"{modname}.{fn.name}: {fname}(…) is given the text {src!r}, which derives from a ColumnOrName argument but is not `<resolved column>.alias_or_name`")
            out.append((fn.name, "resolved"))
    return out


def naming_part(repo: str, engines: t.List[str]) -> t.List[str]:
    fnmod = parse(repo, "sqlframe/base/functions.py")
    altmod = parse(repo, "sqlframe/base/function_alternatives.py")
    decmod = parse(repo, "sqlframe/base/decorators.py")
    fb, ab = _module_bindings(fnmod), _module_bindings(altmod)
    ob = "Gen.Functions.unpack"

    # every function documented as taking 'a column or ONE collection of columns'
    fn_defs = {st.name: st for st in fnmod.body if isinstance(st, ast.FunctionDef)}
    alt_defs = {st.name: st for st in altmod.body if isinstance(st, ast.FunctionDef)}
    sites: t.List[t.Tuple[str, str, t.List[str], str, bool, bool]] = []
    alt_used: t.Set[str] = set()
    for name, fn in fn_defs.items():
        if _takes_collection(fn) is None:
            continue
        v = fn.args.vararg.arg if fn.args.vararg else None
        disp = _dispatches(fn, v)
        for e, alt in disp.items():
            if e not in engines:
                raise Untranslatable(ob, f"{name}: dispatch on an unknown engine flag _is_{e}")
            if alt not in alt_defs or _takes_collection(alt_defs[alt]) is None:
                raise Untranslatable(ob, f"{name}: the alternative {alt} for {e} is not a function that takes a collection")
            k, gs, gc = _unpack_site(alt_defs[alt], ab, ob)
            sites.append((name, alt, [e], k, gs, gc))
            alt_used.add(alt)
        k, gs, gc = _unpack_site(fn, fb, ob)
        sites.append((name, name, [e for e in engines if e not in disp], k, gs, gc))
    mentioned = {n.id for n in ast.walk(fnmod) if isinstance(n, ast.Name)} | {a.name for n in ast.walk(fnmod) if isinstance(n, ast.ImportFrom) for a in n.names}
    for name, fn in alt_defs.items():
        if _takes_collection(fn) is not None and name not in alt_used:
            if name in mentioned:
                raise Untranslatable(ob, f"function_alternatives.{name} takes a collection and functions.py mentions it, but not as a recognised engine dispatch")
            k, gs, gc = _unpack_site(fn, ab, ob)
            sites.append((name, name, [], k, gs, gc))  # not reachable from any public function

    # struct(): which text names a field, and what the field's value is
    ob = "Gen.Functions.struct"
    fn = find_func(fnmod.body, "struct")
    peqs = [n for n in ast.walk(fn) if isinstance(n, ast.Call) and ast.unparse(n.func) == "expression.PropertyEQ"]
    if len(peqs) != 1:
        raise Untranslatable(ob, f"{len(peqs)} PropertyEQ constructions (expected 1)")
    kw = {k.arg: k.value for k in peqs[0].keywords}
    this, value = kw.get("this"), kw.get("expression")
    if not (isinstance(this, ast.Call) and ast.unparse(this.func) == "expression.parse_identifier" and len(this.args) == 1):
        raise Untranslatable(ob, f"the field name is not expression.parse_identifier(<text>, ...): {ast.unparse(this) if this else None!r}")
    text = this.args[0]
    # the loop: `columns = [col_func(x) for x in <args>]; for column in columns:` (col_func = get_func_from_session('col'))
    loops = [n for n in ast.walk(fn) if isinstance(n, ast.For) and any(p is peqs[0] for p in ast.walk(n))]
    if len(loops) != 1 or not isinstance(loops[0].target, ast.Name) or not isinstance(loops[0].iter, ast.Name):
        raise Untranslatable(ob, "the fields are not built in one `for <column> in <columns>` loop")
    var, coll = loops[0].target.id, loops[0].iter.id
    assigns = [st for st in fn.body if isinstance(st, ast.Assign) and ast.unparse(st.targets[0]) == coll]
    getcol = [st for st in fn.body if isinstance(st, ast.Assign) and ast.unparse(st.value) == "get_func_from_session('col')"]
    resolved_all = False
    if len(assigns) == 1 and isinstance(assigns[0].value, ast.ListComp) and len(getcol) == 1:
        lc = assigns[0].value
        cf = ast.unparse(getcol[0].targets[0])
        g = lc.generators[0]
        if len(lc.generators) == 1 and not g.ifs and isinstance(g.target, ast.Name) and ast.unparse(lc.elt) == f"{cf}({g.target.id})":
            resolved_all = True
    if not resolved_all:
        raise Untranslatable(ob, f"`{coll}` is not `[col_func(x) for x in <arguments>]` with col_func = get_func_from_session('col')")
    if any(isinstance(st, (ast.Assign, ast.AugAssign)) and any(isinstance(n, ast.Name) and n.id == var for n in ast.walk(st.targets[0] if isinstance(st, ast.Assign) else st.target)) for st in ast.walk(loops[0])):
        raise Untranslatable(ob, f"the loop variable `{var}` is reassigned inside the loop")
    if ast.unparse(text) == f"{var}.alias_or_name":
        field_src = "resolved"
    else:
        raise Untranslatable(ob, f"the field name text is {ast.unparse(text)!r}, not `{var}.alias_or_name` of the resolved column")
    if value is None or ast.unparse(value) != f"{var}.column_expression":
        raise Untranslatable(ob, f"the field value is {ast.unparse(value) if value else None!r}, not `{var}.column_expression`")

    # func_metadata.wrapper: the automatic alias
    ob = "Gen.Functions.autoAlias"
    outer = find_func(decmod.body, "func_metadata")
    wrappers = [n for n in ast.walk(outer) if isinstance(n, ast.FunctionDef) and n.name == "wrapper"]
    if len(wrappers) != 1:
        raise Untranslatable(ob, "wrapper not found")
    w = wrappers[0]
    calls = [n for n in ast.walk(w) if isinstance(n, ast.Call) and ast.unparse(n) == "func(*args, **kwargs)"]
    inside = {id(x) for c in calls for x in ast.walk(c)}
    raw_uses = [n for n in ast.walk(w) if isinstance(n, ast.Name) and n.id in ("args", "kwargs") and id(n) not in inside]
    result_only = len(calls) == 1 and not raw_uses
    no_alias: t.Optional[t.List[str]] = None
    for st in ast.walk(w):
        if isinstance(st, ast.Assign) and ast.unparse(st.targets[0]) == "funcs_to_not_auto_alias" and isinstance(st.value, ast.List):
            no_alias = [e.value for e in st.value.elts if isinstance(e, ast.Constant) and isinstance(e.value, str)]
            if len(no_alias) != len(st.value.elts):
                raise Untranslatable(ob, "funcs_to_not_auto_alias is not a list of string constants")
    if no_alias is None:
        raise Untranslatable(ob, "funcs_to_not_auto_alias not found")
    fmt = [n for n in ast.walk(w) if isinstance(n, ast.JoinedStr) and ast.unparse(n) == "f'{func.__name__}__{col_name}__'"]
    if len(fmt) != 1:
        raise Untranslatable(ob, "the alias is not f'{func.__name__}__{col_name}__'")
    finds = [ast.unparse(n) for n in ast.walk(w) if isinstance(n, ast.Call) and ast.unparse(n.func).endswith(".find")]
    if finds != ["result.column_expression.find(exp.Identifier)", "result.column_expression.find(exp.Literal)"]:
        raise Untranslatable(ob, f"the alias text is not read from the RESULT's first Identifier, else first Literal: {finds}")

    nsites = name_sites(fnmod, "functions") + name_sites(altmod, "function_alternatives")

    out = []
    out.append("/-- which function a `cols` collection is flattened with: sqlglot.helper.flatten (lists are spliced, `str` and Column")
    out.append("    are not iterable), sqlglot.helper.ensure_list on the first parameter, a module-level SQL function of that name")
    out.append("    (its result, a Column, is not iterable), or a name that is not bound in the module at all -/")
    out.append("inductive Flattener | flatten | ensureList | sqlFunction | unbound")
    out.append("  deriving DecidableEq, Repr, Inhabited")
    out.append("")
    out.append("/-- one 'a column or ONE collection of columns' site: the public function, the function that holds the site, the")
    out.append("    engines that reach it, the flattener, and whether `isinstance(cols[0], (str, Column))` names str / Column -/")
    out.append("structure UnpackSite where")
    out.append("  api : String")
    out.append("  impl : String")
    out.append("  engines : List Engine")
    out.append("  flattener : Flattener")
    out.append("  guardStr : Bool")
    out.append("  guardColumn : Bool")
    out.append("  deriving DecidableEq, Repr")
    out.append("")
    out.append("def unpackSites : List UnpackSite := [")
    out.append(",\n".join(f"  ⟨{lean_str(a)}, {lean_str(i)}, [{', '.join('.' + e for e in es)}], .{k}, {_b(gs)}, {_b(gc)}⟩" for a, i, es, k, gs, gc in sites))
    out.append("]")
    out.append("")
    out.append("/-- the text a struct field is named by: the resolved column's `alias_or_name`, or the caller's raw argument -/")
    out.append("inductive NameSource | resolved | raw")
    out.append("  deriving DecidableEq, Repr, Inhabited")
    out.append(f"def structFieldName : NameSource := .{field_src}")
    out.append("/-- every place in functions.py / function_alternatives.py where an identifier, alias or keyword is made out of TEXT")
    out.append("    that derives from a ColumnOrName argument (function, source of the text) -/")
    out.append("def nameSites : List (String × NameSource) := [" + ", ".join(f"({lean_str(f)}, .{k})" for f, k in nsites) + "]")
    out.append("/-- `func_metadata.wrapper` reads `args` / `kwargs` only to call the function: the automatic alias (and the whole")
    out.append("    result) is a function of the function's RESULT -/")
    out.append(f"def autoAliasFromResultOnly : Bool := {_b(result_only)}")
    out.append("def noAutoAlias : List String := [" + ", ".join(lean_str(x) for x in no_alias) + "]")
    out.append("")
    return out


def static_part(repo: str) -> str:
    colmod = parse(repo, "sqlframe/base/column.py")
    fnmod = parse(repo, "sqlframe/base/functions.py")
    C = find_class(colmod, "Column")

    # Column.ensure_col: `col = get_func_from_session("col"); return col(value)`
    fn = find_func(C.body, "ensure_col")
    body = [s for s in fn.body if not (isinstance(s, ast.Expr) and isinstance(s.value, ast.Constant))]
    ok = (
        len(body) == 2
        and isinstance(body[0], ast.Assign)
        and ast.unparse(body[0]) in ("col = get_func_from_session('col')",)
        and isinstance(body[1], ast.Return)
        and ast.unparse(body[1].value) == "col(value)"
    )
    if not ok:
        raise Untranslatable("Gen.Functions.ensure_col", f"body is not `col = get_func_from_session('col'); return col(value)`: {ast.unparse(fn)[:200]!r}")

    # functions.col: `if isinstance(column_name, str): <to_column ...> return Column(col_expression)` / `return Column(column_name)`
    fn = find_func(fnmod.body, "col")
    ifs = [s for s in fn.body if isinstance(s, ast.If)]
    rets = [s for s in fn.body if isinstance(s, ast.Return)]
    if len(ifs) != 1 or not _is_isinstance(ifs[0].test, "column_name", "str") or ifs[0].orelse or len(rets) != 1:
        raise Untranslatable("Gen.Functions.col", "shape `if isinstance(column_name, str): ...; return Column(column_name)` not recognised")
    str_src = ast.unparse(ifs[0])
    inner_rets = [s for s in ast.walk(ifs[0]) if isinstance(s, ast.Return)]
    if len(inner_rets) != 1 or ast.unparse(inner_rets[0].value) != "Column(col_expression)":
        raise Untranslatable("Gen.Functions.col", "string branch does not return Column(col_expression)")
    assigns = [s for s in ifs[0].body if isinstance(s, ast.Assign) and ast.unparse(s.targets[0]) == "col_expression"]
    if len(assigns) != 1 or "expression.to_column(column_name" not in ast.unparse(assigns[0].value):
        raise Untranslatable("Gen.Functions.col", "string branch does not build expression.to_column(column_name, ...)")
    col_str = "columnRef"
    col_other = _coercion_call(rets[0].value, "column_name", "Gen.Functions.col")
    del str_src

    # functions.lit: `if isinstance(value, str): return Column(expression.Literal.string(value))`
    fn = find_func(fnmod.body, "lit")
    lit_str = None
    for st in fn.body:
        if isinstance(st, ast.If) and _is_isinstance(st.test, "value", "str"):
            r = [s for s in st.body if isinstance(s, ast.Return)]
            if len(r) == 1 and ast.unparse(r[0].value) == "Column(expression.Literal.string(value))":
                lit_str = "stringLiteral"
    if lit_str is None:
        raise Untranslatable("Gen.Functions.lit", "`if isinstance(value, str): return Column(expression.Literal.string(value))` not found")

    # Column.__init__: Column -> unwrap ; other non-(str|Expression) -> _lit ; str (not exp.Column) -> maybe_parse
    fn = find_func(C.body, "__init__")
    chain = [s for s in fn.body if isinstance(s, ast.If) and _is_isinstance(s.test, "expression", "Column")]
    if len(chain) != 1:
        raise Untranslatable("Gen.Functions.Column.__init__", "`if isinstance(expression, Column)` chain not found")
    node = chain[0]
    if ast.unparse(node.body[0]) != "expression = expression.expression":
        raise Untranslatable("Gen.Functions.Column.__init__", "Column branch does not unwrap `.expression`")
    if len(node.orelse) != 1 or not isinstance(node.orelse[0], ast.If):
        raise Untranslatable("Gen.Functions.Column.__init__", "second branch missing")
    second = node.orelse[0]
    if ast.unparse(second.test) != "expression is None or not isinstance(expression, (str, exp.Expression))":
        raise Untranslatable("Gen.Functions.Column.__init__", f"second test changed: {ast.unparse(second.test)!r}")
    if len(second.orelse) != 1 or not isinstance(second.orelse[0], ast.If):
        raise Untranslatable("Gen.Functions.Column.__init__", "third branch missing")
    third = second.orelse[0]
    if ast.unparse(third.test) != "not isinstance(expression, exp.Column)" or "sqlglot.maybe_parse(expression" not in ast.unparse(third.body[0]):
        raise Untranslatable("Gen.Functions.Column.__init__", "str branch is not sqlglot.maybe_parse(expression, ...)")

    # binary_op / inverse_binary_op: the str operand
    bin_str, bin_other = _str_branch_of_operand(find_func(C.body, "binary_op"), "Gen.Functions.binary_op")
    inv_str, inv_other = _str_branch_of_operand(find_func(C.body, "inverse_binary_op"), "Gen.Functions.inverse_binary_op")

    # invoke_anonymous_function / invoke_expression_over_column: every column argument goes through ensure_col
    fn = find_func(C.body, "invoke_anonymous_function")
    src = ast.unparse(fn)
    anon_ok = "[] if column is None else [cls.ensure_col(column)]" in src and "[cls.ensure_col(arg) for arg in args]" in src
    if not anon_ok:
        raise Untranslatable("Gen.Functions.invoke_anonymous_function", "arguments are not all passed through cls.ensure_col")
    fn = find_func(C.body, "invoke_expression_over_column")
    src = ast.unparse(fn)
    over_ok = "None if column is None else cls.ensure_col(column)" in src and "cls.ensure_col(x).column_expression for x in v" in src and "cls.ensure_col(v).column_expression" in src
    if not over_ok:
        raise Untranslatable("Gen.Functions.invoke_expression_over_column", "arguments are not all passed through cls.ensure_col")

    # Python operator methods that go through binary_op / inverse_binary_op (the `col + lit(1)` pattern)
    ops = []
    for st in C.body:
        if isinstance(st, ast.FunctionDef) and re.fullmatch(r"__r?(add|sub|mul|truediv|div|mod|and|or|eq|ne|gt|ge|lt|le)__", st.name):
            r = [s for s in st.body if isinstance(s, ast.Return)]
            if len(r) == 1 and isinstance(r[0].value, ast.Call) and ast.unparse(r[0].value.func) in ("self.binary_op", "self.inverse_binary_op"):
                ops.append((st.name, ast.unparse(r[0].value.func) == "self.inverse_binary_op"))
            else:
                raise Untranslatable("Gen.Functions.operators", f"{st.name} no longer delegates to binary_op/inverse_binary_op")

    engines = [e for e in ENGINE_ORDER if os.path.exists(os.path.join(repo, "sqlframe", e, "functions.py"))]
    extra = sorted(
        d
        for d in os.listdir(os.path.join(repo, "sqlframe"))
        if os.path.exists(os.path.join(repo, "sqlframe", d, "functions.py")) and d not in ENGINE_ORDER and d != "base"
    )
    if extra or len(engines) != len(ENGINE_ORDER):
        raise Untranslatable("Gen.Functions.engines", f"engine packages changed: found {engines + extra}")

    out = [HEADER.rstrip("\n")]
    out.append("-- static part: tools/gen_c16.py (ast); table: tools/props/c16_trace.py (runs the real functions)")
    out.append("namespace Sqlframe.Gen")
    out.append("")
    out.append("inductive Engine")
    for e in engines:
        out.append(f"  | {e}")
    out.append("  deriving DecidableEq, Repr, Inhabited")
    out.append("")
    out.append("def Engine.all : List Engine := [" + ", ".join("." + e for e in engines) + "]")
    out.append("def Engine.name : Engine → String")
    for e in engines:
        out.append(f"  | .{e} => {lean_str(e)}")
    out.append("")
    out.append("/-- what a Python `str` argument meets on its way into the expression tree -/")
    out.append("inductive Coercion | ensureCol | literal | parsed | text | none")
    out.append("  deriving DecidableEq, Repr, Inhabited")
    out.append("")
    out.append("/-- what one coercion entry point does with its operand, as read from the source -/")
    out.append("inductive Route | columnRef | stringLiteral | parse | columnCtor | ensureCol | literal")
    out.append("  deriving DecidableEq, Repr, Inhabited")
    out.append("")
    out.append("structure Cell where")
    out.append("  fn : String")
    out.append("  engine : Engine")
    out.append("  pos : Nat")
    out.append("  sub : Nat")
    out.append("  coercion : Coercion")
    out.append("  deriving DecidableEq, Repr")
    out.append("")
    out.append("/-- `Column.ensure_col(value)` is `col(value)` with `col` looked up in the session's functions module -/")
    out.append("def ensureColIsCol : Bool := true")
    out.append("/-- `functions.col`: a `str` becomes `expression.to_column(name)`; anything else goes to … -/")
    out.append(f"def colOnStr : Route := .{col_str}")
    out.append(f"def colOnOther : Route := .{col_other}")
    out.append("/-- `functions.lit` on a `str` -/")
    out.append(f"def litOnStr : Route := .{lit_str}")
    out.append("/-- `Column(x)`: a Column is unwrapped, a `str` is parsed by sqlglot -/")
    out.append("def columnCtorUnwrapsColumn : Bool := true")
    out.append("def columnCtorOnStr : Route := .parse")
    out.append("/-- `Column.binary_op(klass, other)` / `inverse_binary_op`: the `str` operand and the other operands -/")
    out.append(f"def binaryOpOnStr : Route := .{bin_str}")
    out.append(f"def binaryOpOnOther : Route := .{bin_other}")
    out.append(f"def inverseBinaryOpOnStr : Route := .{inv_str}")
    out.append(f"def inverseBinaryOpOnOther : Route := .{inv_other}")
    out.append("/-- every column argument of `invoke_anonymous_function` / `invoke_expression_over_column` passes `ensure_col` -/")
    out.append(f"def invokeAnonymousEnsures : Bool := {_b(anon_ok)}")
    out.append(f"def invokeOverColumnEnsures : Bool := {_b(over_ok)}")
    out.append("/-- Python operator methods of Column and whether they use `inverse_binary_op` -/")
    out.append("def operatorMethods : List (String × Bool) := [" + ", ".join(f"({lean_str(n)}, {_b(inv)})" for n, inv in ops) + "]")
    out.append("")
    out.extend(naming_part(repo, engines))
    return "\n".join(out) + "\n"


def _render_table(rows: t.List[dict], origin: str) -> str:
    out = []
    out.append("/-- where the table below came from: `traced` = tools/props/c16_trace.py ran the real functions of the")
    out.append("    current working tree; `snapshot` = copied from tools/oracle/c16_table_snapshot.json (fresh checkout only) -/")
    out.append(f"def cellsOrigin : String := {lean_str(origin)}")
    out.append("")
    out.append("/-- (function, engine, PySpark position, element of a vararg, coercion met by a string there) -/")
    out.append("def cells : List Cell := [")
    out.append(",\n".join(f"  ⟨{lean_str(r['f'])}, .{r['e']}, {r['pos']}, {r['sub']}, .{r['coercion']}⟩" for r in rows))
    out.append("]")
    out.append("")
    out.append("end Sqlframe.Gen")
    return "\n".join(out) + "\n"


def gen_functions(repo: str) -> str:
    static_text = static_part(repo)
    path = os.path.join(GEN_DIR, "Functions.lean")
    if os.path.exists(path):
        old = open(path, encoding="utf-8").read()
        i = old.find(TABLE_MARK)
        if i > 0 and old.rstrip().endswith("end Sqlframe.Gen"):
            # keep the table (the check re-derives it), refresh the static part
            return static_text.rstrip("\n") + "\n\n" + old[i:]
    # fresh checkout: run the dynamic tracer in a subprocess (this process never imports sqlframe)
    py = "/venv/bin/python" if os.path.exists("/venv/bin/python") else sys.executable
    tmp = os.path.join(GEN_DIR, f".c16_rows_{os.getpid()}.json")
    try:
        os.makedirs(GEN_DIR, exist_ok=True)
        env = dict(os.environ, VERIF_REPO=repo)
        p = subprocess.run(
            [py, os.path.join(HERE, "props", "c16_trace.py"), "--repo", repo, "--json", tmp, "--rows-only"],
            capture_output=True, text=True, timeout=600, env=env,
        )
        if p.returncode == 0 and os.path.exists(tmp):
            rows = json.load(open(tmp))
            return static_text.rstrip("\n") + "\n\n" + _render_table(rows, "traced")
        print("gen_c16: tracer subprocess failed: " + (p.stderr or "")[-400:], file=sys.stderr)
    except Exception as e:  # noqa
        print(f"gen_c16: tracer subprocess failed: {e}", file=sys.stderr)
    finally:
        if os.path.exists(tmp):
            os.remove(tmp)
    if os.path.exists(SNAPSHOT):
        rows = json.load(open(SNAPSHOT))
        return static_text.rstrip("\n") + "\n\n" + _render_table(rows, "snapshot")
    raise Untranslatable("Gen.Functions.cells", "no table: the tracer could not run and there is no snapshot")


GENERATORS = {"Functions": gen_functions}
