#!/venv/bin/python
"""
mk_c02_pyspark.py — runs C02 programs on live PySpark (local JVM) and records what PySpark returns.

  PYSPARK_PYTHON=/venv/bin/python /venv/bin/python tools/oracle/mk_c02_pyspark.py            # rebuild tools/oracle/c02_pyspark.json
  ... mk_c02_pyspark.py --stdin  < cases.json                                                 # results for the given programs on stdout (last line)

The recorded file is what the quick tier validates the Lean specification (`runSpec`) against.
"""
from __future__ import annotations

import json
import os
import random
import sys

HERE = os.path.dirname(os.path.abspath(__file__))
sys.path.insert(0, os.path.dirname(HERE))
sys.path.insert(0, os.path.join(os.path.dirname(HERE), "props"))
os.environ.setdefault("PYSPARK_PYTHON", "/venv/bin/python")

import c02  # noqa: E402
import vlib  # noqa: E402


def make_base_spark(session, cols, rows):
    ddl = ", ".join(f"{c} bigint" for c in cols)
    return session.createDataFrame([tuple(r) for r in rows], schema=ddl)


def run_all(cases):
    from pyspark.sql import SparkSession
    from pyspark.sql import functions as F

    s = (SparkSession.builder.master("local[1]").config("spark.ui.enabled", "false").config("spark.sql.shuffle.partitions", "1")
         .config("spark.sql.crossJoin.enabled", "true").getOrCreate())
    s.sparkContext.setLogLevel("ERROR")
    out = []
    for c in cases:
        try:
            cols, rows = c02.run_program(c, s, F, make_base_spark)
            out.append({"cols": cols, "rows": rows})
        except Exception as e:  # noqa
            out.append({"err": f"{type(e).__name__}: {str(e)[:120]}".replace("\n", " ")})
    s.stop()
    return out


def standard_cases():
    """a fixed sample of the check's own generator (seed-independent) plus the corpus"""
    rng = random.Random("c02-oracle")
    cases = c02.corpus_cases()
    single = c02.single_join_cases(rng, False)
    chains = c02.chain_cases(rng, False)
    spelled = c02.spelled_cases(rng, False)
    rnd = c02.random_cases(rng, 150)
    rng.shuffle(single)
    rng.shuffle(chains)
    # every spelling x on-form for independent inputs, then a spread of the rest
    keep = [c for c in single if c["origin"].startswith("single:independent0") and c["origin"].split(":")[4] in ("mixed",)]
    rest = [c for c in single if c not in keep]
    ands = [c for c in rest if c["origin"].split(":")[3:4] == ["and"]]
    rest = [c for c in rest if c not in ands]
    cases += keep + ands[:60] + rest[:400] + chains[:160] + spelled + rnd
    return cases


def main():
    if "--stdin" in sys.argv:
        cases = json.load(sys.stdin)
        print(json.dumps(run_all(cases)))
        return
    cases = standard_cases()
    res = run_all(cases)
    # the scope hypotheses each program violates (from the Lean model), so the oracle can stand in for the
    # specification when the model cannot be built
    try:
        outs = c02.run_driver(cases)
    except Exception:
        outs = [{} for _ in cases]
    rec = []
    for c, r, o in zip(cases, res, outs):
        rec.append({"frames": c["frames"], "origin": c.get("origin", ""), "pyspark": r, "scope": o.get("scope", [])})
    path = os.path.join(HERE, "c02_pyspark.json")
    with open(path, "w") as f:
        json.dump({"_doc": "PySpark 3.5.9 (local JVM) results for C02 programs; rebuilt by tools/oracle/mk_c02_pyspark.py", "cases": rec}, f, separators=(",", ":"))
    print(f"wrote {len(rec)} programs to {path}", file=sys.stderr)


if __name__ == "__main__":
    main()
