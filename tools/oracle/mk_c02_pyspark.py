#!/venv/bin/python
"""
mk_c02_pyspark.py — runs C02 programs on live PySpark (local JVM) and records what PySpark returns.

  PYSPARK_PYTHON=/venv/bin/python /venv/bin/python tools/oracle/mk_c02_pyspark.py            # re-record the standard sample (programs recorded earlier are kept; --fresh drops them)
  ... mk_c02_pyspark.py --add                                                                 # record only the programs of the standard sample that are not in the file yet
  ... mk_c02_pyspark.py --stdin  < cases.json                                                 # results for the given programs on stdout (last line)

The recorded file is what the quick tier validates the Lean specification (`runSpec`) against.
"""
from __future__ import annotations

import json
import os
import random
import sys

HERE = os.path.dirname(os.path.abspath(__file__))
sys.path.insert(0, os.path.dirname(HERE))
sys.path.insert(0, os.path.join(os.path.dirname(HERE), "props"))
os.environ.setdefault("PYSPARK_PYTHON", "/venv/bin/python")

import c02  # noqa: E402
import vlib  # noqa: E402


def make_base_spark(session, cols, rows):
    ddl = ", ".join((f"{c} bigint" if c02.plain_ident(c) else f"`{c}` bigint") for c in cols)
    return session.createDataFrame([tuple(r) for r in rows], schema=ddl)


def run_all(cases):
    from pyspark.sql import SparkSession
    from pyspark.sql import functions as F

    s = (SparkSession.builder.master("local[1]").config("spark.ui.enabled", "false").config("spark.sql.shuffle.partitions", "1")
         .config("spark.sql.crossJoin.enabled", "true").getOrCreate())
    s.sparkContext.setLogLevel("ERROR")
    out = []
    for c in cases:
        try:
            cols, rows = c02.run_program(c, s, F, make_base_spark)
            out.append({"cols": cols, "rows": rows})
        except Exception as e:  # noqa
            out.append({"err": f"{type(e).__name__}: {str(e)[:120]}".replace("\n", " ")})
    s.stop()
    return out


def standard_cases():
    """a fixed sample of the check's own generator (seed-independent) plus the corpus"""
    rng = random.Random("c02-oracle")
    cases = c02.corpus_cases()
    single = c02.single_join_cases(rng, False)
    chains = c02.chain_cases(rng, False)
    spelled = c02.spelled_cases(rng, False)
    rnd = c02.random_cases(rng, 150)
    rng.shuffle(single)
    rng.shuffle(chains)
    # every spelling x on-form for independent inputs, then a spread of the rest
    keep = [c for c in single if c["origin"].startswith("single:independent0") and c["origin"].split(":")[4] in ("mixed",)]
    rest = [c for c in single if c not in keep]
    ands = [c for c in rest if c["origin"].split(":")[3:4] == ["and"]]
    rest = [c for c in rest if c not in ands]
    cases += keep + ands[:60] + rest[:400] + chains[:160] + spelled + rnd
    # families added later (their own generator state, so that the sample above stays what it was)
    rng2 = random.Random("c02-oracle-2")
    quoted = c02.quoted_cases(rng2, False)
    star = c02.star_cases(rng2, False)
    sql = c02.sql_cases(rng2, False)
    operand = c02.operand_cases(rng2, False)
    for fam, n in ((quoted, 260), (star, 520), (sql, 300), (operand, 320)):
        rng2.shuffle(fam)
        cases += fam[:n]
    return cases


def main():
    if "--stdin" in sys.argv:
        cases = json.load(sys.stdin)
        print(json.dumps(run_all(cases)))
        return
    cases = standard_cases()
    if "--add" in sys.argv:
        # only the programs of today's standard sample that are not recorded yet
        have0 = {vlib.digest(r["frames"]) for r in json.load(open(os.path.join(HERE, "c02_pyspark.json")))["cases"]}
        cases = [c for c in cases if vlib.digest(c["frames"]) not in have0]
        print(f"{len(cases)} new programs", file=sys.stderr)
    res = run_all(cases)
    # the scope hypotheses each program violates (from the Lean model), so the oracle can stand in for the
    # specification when the model cannot be built
    try:
        outs = c02.run_driver(cases)
    except Exception:
        outs = [{} for _ in cases]
    rec = []
    for c, r, o in zip(cases, res, outs):
        rec.append({"frames": c["frames"], "origin": c.get("origin", ""), "pyspark": r, "scope": o.get("scope", [])})
    path = os.path.join(HERE, "c02_pyspark.json")
    # programs recorded earlier that today's generator no longer produces stay in the file (the recorded set only grows)
    if os.path.exists(path) and "--fresh" not in sys.argv:
        have = {vlib.digest(r["frames"]) for r in rec}
        for r in json.load(open(path))["cases"]:
            if vlib.digest(r["frames"]) not in have:
                rec.append(r)
                have.add(vlib.digest(r["frames"]))
    with open(path, "w") as f:
        json.dump({"_doc": "PySpark 3.5.9 (local JVM) results for C02 programs; rebuilt by tools/oracle/mk_c02_pyspark.py", "cases": rec}, f, separators=(",", ":"))
    print(f"wrote {len(rec)} programs to {path}", file=sys.stderr)


if __name__ == "__main__":
    main()
