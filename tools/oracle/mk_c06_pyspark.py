#!/venv/bin/python
"""
mk_c06_pyspark.py — runs C06 programs on live PySpark (local JVM) and records what PySpark returns.

  PYSPARK_PYTHON=/venv/bin/python /venv/bin/python tools/oracle/mk_c06_pyspark.py            # rebuild tools/oracle/c06_pyspark.json
  ... mk_c06_pyspark.py --stdin  < cases.json                                                 # results for the given programs on stdout (last line)

The recorded file is what the quick tier validates the Lean specification (`aggSpec` / `cubeSpec` through `specRunG`)
against; the thorough tier runs the JVM again on the same programs plus a sample of the run's own random programs.
"""
from __future__ import annotations

import json
import os
import random
import sys

HERE = os.path.dirname(os.path.abspath(__file__))
sys.path.insert(0, os.path.dirname(HERE))
sys.path.insert(0, os.path.join(os.path.dirname(HERE), "props"))
os.environ.setdefault("PYSPARK_PYTHON", "/venv/bin/python")

import c06  # noqa: E402


def make_df(session, schema, rows):
    ddl = ", ".join(f"{c} {'bigint' if k == 'int' else 'string'}" for c, k in schema)
    return session.createDataFrame([tuple(r) for r in rows], schema=ddl)


def run_all(cases):
    from pyspark.sql import SparkSession
    from pyspark.sql import functions as F

    s = SparkSession.builder.master("local[1]").config("spark.ui.enabled", "false").config("spark.sql.shuffle.partitions", "1").getOrCreate()
    s.sparkContext.setLogLevel("ERROR")
    out = []
    for c in cases:
        try:
            df = make_df(s, c["schema"], c["rows"])
            for st in c["steps"]:
                df = c06.apply_step(df, st, F)
            out.append({"cols": list(df.columns), "rows": [[c06.canon(v) for v in r] for r in df.collect()]})
        except Exception as e:  # noqa
            out.append({"err": f"{type(e).__name__}: {str(e)[:160]}".replace("\n", " ")})
    s.stop()
    return out


def standard_cases():
    """the check's fixed families plus a seed-independent sample of its random generator"""
    rng = random.Random("c06-oracle")
    stats = {"ops": {}, "fns": {}, "key_styles": {}, "post": {"where": 0, "select": 0, "group": 0}}
    cases = c06.hand_cases() + c06.const_key_cases()
    cases += [c06.gen_case(rng, stats) for _ in range(250)]
    return cases


def main():
    if "--stdin" in sys.argv:
        cases = json.load(sys.stdin)
        print(json.dumps(run_all(cases)))
        return
    cases = standard_cases()
    res = run_all(cases)
    rec = [{"schema": c["schema"], "rows": c["rows"], "steps": c["steps"], "pyspark": r} for c, r in zip(cases, res)]
    path = os.path.join(HERE, "c06_pyspark.json")
    with open(path, "w") as f:
        json.dump({"_doc": "PySpark 3.5.9 (local JVM) results for C06 programs; rebuilt by tools/oracle/mk_c06_pyspark.py", "cases": rec}, f, separators=(",", ":"))
    print(f"wrote {len(rec)} programs to {path}; {sum('err' in r for r in res)} raised", file=sys.stderr)


if __name__ == "__main__":
    main()
