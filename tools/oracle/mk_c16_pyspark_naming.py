#!/venv/bin/python
"""
mk_c16_pyspark_naming.py — record, from live PySpark 3.5.9, what the C16 specification says about NAMES and about
the list form of *cols functions, for the unusual column names of tools/props/c16_exec.py:

  * struct(<name>)            the field is the referenced column, named by the LAST part of the reference
                              (struct('s.x') -> field x; struct('`a.b`') -> field a.b; struct('tq.ab') -> field ab)
  * struct / array / create_map given names as varargs, the same names in ONE list, and col(name) objects: one result
  * map_concat(['m1', 'm2']) = map_concat('m1', 'm2')

Run:  PYSPARK_PYTHON=/venv/bin/python /venv/bin/python tools/oracle/mk_c16_pyspark_naming.py [--check]
Writes tools/oracle/c16_pyspark_naming.json (committed); with --check it compares a fresh recording with the file and
exits 1 on a difference (the thorough tier of ./check C16 does that).
"""
from __future__ import annotations

import json
import os
import sys

HERE = os.path.dirname(os.path.abspath(__file__))
OUT = os.path.join(HERE, "c16_pyspark_naming.json")
REFS = ["ab", "`a.b`", "s.x", "Cd", "1x", "select", "x", "my col", "tq.ab", "`my col`", "cd"]


def record() -> dict:
    os.environ.setdefault("PYSPARK_PYTHON", "/venv/bin/python")
    import pyspark
    from pyspark.sql import SparkSession
    from pyspark.sql import functions as F

    spark = SparkSession.builder.master("local[1]").config("spark.ui.enabled", "false").getOrCreate()
    spark.sparkContext.setLogLevel("ERROR")
    base = spark.createDataFrame([(1, 2, 3, 4, 5, 6, 7, 8, 9)], ["x", "ab", "a.b", "Cd", "1x", "select", "my col", "a", "b"])
    df = base.select("*", F.struct(F.lit(20).alias("x"), F.lit(21).alias("y")).alias("s"), F.create_map(F.lit("k"), F.lit(1)).alias("m1"), F.create_map(F.lit("j"), F.lit(2)).alias("m2")).alias("tq")

    def fields(d):
        return [f.name for f in d.schema.fields[0].dataType.fields]

    out: dict = {"pyspark_version": pyspark.__version__, "refs": {}}
    for ref in REFS:
        r: dict = {}
        forms = {
            "varargs_str": lambda: df.select(F.struct(ref, "x")),
            "list_str": lambda: df.select(F.struct([ref, "x"])),
            "varargs_col": lambda: df.select(F.struct(F.col(ref), F.col("x"))),
            "list_col": lambda: df.select(F.struct([F.col(ref), F.col("x")])),
        }
        seen = {}
        for k, mk in forms.items():
            d = mk()
            seen[k] = (fields(d), [list(d.collect()[0][0])])
        r["struct_fields"] = seen["varargs_col"][0]
        r["struct_values"] = seen["varargs_col"][1]
        r["struct_forms_agree"] = all(v == seen["varargs_col"] for v in seen.values())
        r["struct_single_field"] = fields(df.select(F.struct(ref)))
        arr = {
            "varargs_str": df.select(F.array(ref)).collect()[0][0],
            "list_str": df.select(F.array([ref])).collect()[0][0],
            "varargs_col": df.select(F.array(F.col(ref))).collect()[0][0],
        }
        r["array_value"] = arr["varargs_col"]
        r["array_forms_agree"] = all(v == arr["varargs_col"] for v in arr.values())
        r["array_result_name_agrees"] = df.select(F.array(ref)).columns == df.select(F.array(F.col(ref))).columns == df.select(F.array([ref])).columns
        mp = {
            "varargs_str": df.select(F.create_map(ref, "x")).collect()[0][0],
            "list_str": df.select(F.create_map([ref, "x"])).collect()[0][0],
            "varargs_col": df.select(F.create_map(F.col(ref), F.col("x"))).collect()[0][0],
        }
        r["create_map_forms_agree"] = all(v == mp["varargs_col"] for v in mp.values())
        out["refs"][ref] = r
    out["map_concat_list_form"] = {
        "list_str": df.select(F.map_concat(["m1", "m2"])).collect()[0][0],
        "varargs_str": df.select(F.map_concat("m1", "m2")).collect()[0][0],
        "list_col": df.select(F.map_concat([F.col("m1"), F.col("m2")])).collect()[0][0],
    }
    spark.stop()
    return out


def main() -> int:
    rec = record()
    if "--check" in sys.argv:
        old = json.load(open(OUT))
        same = json.dumps(old, sort_keys=True) == json.dumps(rec, sort_keys=True)
        print("same" if same else "DIFFERENT")
        if not same:
            print(json.dumps(rec, indent=1))
        return 0 if same else 1
    with open(OUT, "w") as f:
        json.dump(rec, f, indent=1, sort_keys=True)
    print(json.dumps(rec, indent=1)[:3000])
    return 0


if __name__ == "__main__":
    sys.exit(main())
