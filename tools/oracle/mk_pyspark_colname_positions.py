#!/venv/bin/python
"""
mk_pyspark_colname_positions.py — record, from PySpark 3.5.9 ITSELF, which argument positions of
pyspark.sql.functions accept a column *name* (annotation mentions "ColumnOrName").

Static part (always): Python `ast` over site-packages/pyspark/sql/functions.py — no import of pyspark.
Optional part (--jvm): for every recorded position, call the real PySpark function on a live JVM
with a unique string in that position and read the unresolved expression tree: the string must
appear as an UnresolvedAttribute ('name), not as a literal.  The result is stored per position as
"jvm": "attribute" | "literal" | "error:<type>" | null (not run).

Writes tools/oracle/pyspark_colname_positions.json (committed).  Run once; the check only reads it.
"""
from __future__ import annotations

import ast
import json
import os
import sys

HERE = os.path.dirname(os.path.abspath(__file__))
SRC = "/venv/lib/python3.12/site-packages/pyspark/sql/functions.py"
OUT = os.path.join(HERE, "pyspark_colname_positions.json")


def is_overload(fn: ast.FunctionDef) -> bool:
    return any("overload" in ast.unparse(d) for d in fn.decorator_list)


def static_table() -> dict:
    mod = ast.parse(open(SRC, encoding="utf-8").read())
    funcs = {}
    for n in mod.body:
        if isinstance(n, ast.FunctionDef) and not n.name.startswith("_") and not is_overload(n):
            funcs[n.name] = n  # the last (non-overload) definition wins
    # module-level aliases `name = other`
    aliases = {}
    for n in mod.body:
        if isinstance(n, ast.Assign) and len(n.targets) == 1 and isinstance(n.targets[0], ast.Name) and isinstance(n.value, ast.Name) and n.value.id in funcs:
            aliases[n.targets[0].id] = n.value.id
    table = {}
    for name, fn in sorted(funcs.items()):
        params = []
        a = fn.args
        pos = list(a.posonlyargs) + list(a.args)
        ndef = len(a.defaults)
        for i, p in enumerate(pos):
            ann = ast.unparse(p.annotation) if p.annotation is not None else ""
            params.append({"index": i, "name": p.arg, "kind": "pos", "annotation": ann, "has_default": i >= len(pos) - ndef, "colname": "ColumnOrName" in ann})
        if a.vararg is not None:
            ann = ast.unparse(a.vararg.annotation) if a.vararg.annotation is not None else ""
            params.append({"index": len(pos), "name": a.vararg.arg, "kind": "vararg", "annotation": ann, "has_default": True, "colname": "ColumnOrName" in ann})
        for p, d in zip(a.kwonlyargs, a.kw_defaults):
            ann = ast.unparse(p.annotation) if p.annotation is not None else ""
            params.append({"index": None, "name": p.arg, "kind": "kwonly", "annotation": ann, "has_default": d is not None, "colname": "ColumnOrName" in ann})
        table[name] = {"params": params}
    for al, tgt in aliases.items():
        table[al] = dict(table[tgt], alias_of=tgt)
    return table


def main() -> int:
    import importlib.metadata

    table = static_table()
    out = {
        "_doc": "argument positions of pyspark.sql.functions whose annotation mentions ColumnOrName, by static inspection (ast) of PySpark's own source; 'jvm' = what a live JVM did with a string in that position (attribute / literal / error) when --jvm was used",
        "pyspark_version": importlib.metadata.version("pyspark"),
        "source": SRC,
        "functions": table,
    }
    if "--jvm" in sys.argv:
        sys.path.insert(0, os.path.join(os.path.dirname(HERE), "props"))
        import c16_jvm_confirm  # type: ignore

        c16_jvm_confirm.confirm(out)
    with open(OUT, "w") as f:
        json.dump(out, f, indent=1, sort_keys=True)
    n = sum(1 for v in table.values() for p in v["params"] if p["colname"])
    print(f"{len(table)} functions, {n} ColumnOrName positions -> {OUT}")
    return 0


if __name__ == "__main__":
    sys.exit(main())
