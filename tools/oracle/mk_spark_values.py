#!/venv/bin/python
"""
mk_spark_values.py — record what live PySpark 3.5.9 returns for the fixed C17 case set
(tools/props/c17_cases.py: all_cases()) into tools/oracle/spark_values.json (committed).

Run once:  PYSPARK_PYTHON=/venv/bin/python /venv/bin/python tools/oracle/mk_spark_values.py
Session settings: local[1], UTC session time zone, ANSI off (Spark 3.5 default).
"""
import json
import os
import sys

HERE = os.path.dirname(os.path.abspath(__file__))
sys.path.insert(0, os.path.join(os.path.dirname(HERE), "props"))
os.environ.setdefault("PYSPARK_PYTHON", "/venv/bin/python")


def spark_session():
    from pyspark.sql import SparkSession

    spark = (
        SparkSession.builder.master("local[1]")
        .config("spark.ui.enabled", "false")
        .config("spark.sql.session.timeZone", "UTC")
        .config("spark.sql.shuffle.partitions", "1")
        .getOrCreate()
    )
    spark.sparkContext.setLogLevel("ERROR")
    return spark


def main() -> int:
    import c17_cases as K
    import pyspark
    from pyspark.sql import functions as F

    spark = spark_session()
    if "--cases" in sys.argv:
        # live evaluation of an arbitrary case list (thorough tier of ./check C17): JSON in, JSON out
        cases = json.load(open(sys.argv[sys.argv.index("--cases") + 1]))
        res = K.evaluate(F, lambda rows, schema: spark.createDataFrame(rows, schema), cases)
        with open(sys.argv[sys.argv.index("--out") + 1], "w") as f:
            json.dump(res, f)
        spark.stop()
        return 0
    cases = K.all_cases()
    if "--update" in sys.argv:
        # keep the recorded value of every case that is unchanged (same id, same content); evaluate the others
        old = {c["id"]: c for c in json.load(open(os.path.join(HERE, "spark_values.json")))["cases"]}
        todo = [i for i, c in enumerate(cases) if c["id"] not in old or K.case_key(old[c["id"]]) != K.case_key(c)]
        fresh = K.evaluate(F, lambda rows, schema: spark.createDataFrame(rows, schema), [cases[i] for i in todo])
        res = [old[c["id"]]["spark"] if c["id"] in old else None for c in cases]
        for i, r in zip(todo, fresh):
            res[i] = r
        print(f"{len(todo)} cases evaluated, {len(cases) - len(todo)} kept")
    else:
        res = K.evaluate(F, lambda rows, schema: spark.createDataFrame(rows, schema), cases)
    out = {
        "_doc": "values returned by live PySpark for tools/props/c17_cases.all_cases(); key = case id; the case itself is stored so a stale file is detected",
        "pyspark_version": pyspark.__version__,
        "settings": {"master": "local[1]", "spark.sql.session.timeZone": "UTC", "spark.sql.ansi.enabled": spark.conf.get("spark.sql.ansi.enabled")},
        "cases": [dict({"id": c["id"], "fn": c["fn"], "args": c["args"], "pre": c.get("pre"), "post": c.get("post"), "group": c["group"], "spark": r}, **{k: c[k] for k in ("xargs", "prog", "rows") if k in c}) for c, r in zip(cases, res)],
    }
    with open(os.path.join(HERE, "spark_values.json"), "w") as f:
        json.dump(out, f, indent=0, sort_keys=True)
    n_err = sum(1 for r in res if "error" in r)
    print(f"{len(cases)} cases recorded, {n_err} errors")
    for c, r in zip(cases, res):
        if "error" in r:
            print("  ", c["id"], json.dumps(c["args"])[:80], r["error"][:120])
    spark.stop()
    return 0


if __name__ == "__main__":
    sys.exit(main())
