"""
gen_c19.py — translator part for C19: sqlframe/base/types.py (Row, _create_row) and sqlframe/testing/utils.py
(assertDataFrameEqual, assertSchemaEqual) compared with the INSTALLED pyspark's pyspark/sql/types.py and
pyspark/testing/utils.py  ->  Gen/RowCompat.lean  (namespace Sqlframe.Gen.RowCompat).

Two kinds of facts are extracted (Python `ast`, nothing is imported):
  * decisions the hand transcriptions in Impl/C19Row.lean branch on: the comparison guarding `Row.__call__`,
    whether `Row.__new__(**kwargs)` / `_create_row` convert Decimal to float, whether args+kwargs is rejected,
    the prefix `Row.__getattr__` refuses, the index types `Row.__getitem__` hands to the tuple, what the two accessors
    raise when the name is no field / the row is short, the one attribute `__setattr__` lets through, the default and
    the container kinds of `asDict(recursive)`, the class's bases and every dunder it defines beyond pyspark's;
    the defaults of checkRowOrder / rtol / atol (both packages); per container kind of `compare_vals` which
    conjuncts are present (length, key set) and HOW a map's values are paired (by key / by position); how each of the
    two row lists is sorted (a sorted copy / the caller's list in place / not at all); the None guards and when the
    schemas are compared;
  * SOURCE IDENTITY: for each Row method and each (nested) helper function, is sqlframe's body the same as
    pyspark's after erasing annotations, docstrings, the `t.` typing prefix and the exception constructors
    (RowError / SQLFrameException / DataFrameDiffError / SchemaDiffError  vs  PySpark*Error)?  The names that are
    identical are listed; Props/C19.lean requires the list to contain every method the equivalence theorem
    transcribes once for both packages.
Anything outside the expected shapes raises Untranslatable.
"""
from __future__ import annotations

import ast
import os
import re
import typing as t

from translate import HEADER, Untranslatable, find_class, find_func, lean_str, parse

OB = "Gen.RowCompat"
PYSPARK_DIR = os.environ.get("VERIF_PYSPARK", "/venv/lib/python3.12/site-packages/pyspark")

ROW_METHODS = ["__new__", "asDict", "__contains__", "__call__", "__getitem__", "__getattr__", "__setattr__", "__reduce__", "__repr__"]
HELPER_FUNCS = [
    "compare_vals",
    "compare_rows",
    "assert_rows_equal",
    "compare_schemas_ignore_nullable",
    "compare_structfields_ignore_nullable",
    "compare_datatypes_ignore_nullable",
]
ERR_NAMES = {"RowError", "SQLFrameException", "DataFrameDiffError", "SchemaDiffError", "PySparkValueError", "PySparkTypeError", "PySparkAssertionError", "PySparkException"}


def _u(n: ast.AST) -> str:
    return ast.unparse(n)


def _parse_file(path: str) -> ast.Module:
    with open(path, encoding="utf-8") as f:
        return ast.parse(f.read(), filename=path)


class _Norm(ast.NodeTransformer):
    """erase what is allowed to differ between the two packages"""

    def visit_FunctionDef(self, node: ast.FunctionDef) -> ast.AST:
        node.returns = None
        node.decorator_list = []
        for a in node.args.args + node.args.kwonlyargs + node.args.posonlyargs:
            a.annotation = None
        if node.args.vararg:
            node.args.vararg.annotation = None
        if node.args.kwarg:
            node.args.kwarg.annotation = None
        if node.body and isinstance(node.body[0], ast.Expr) and isinstance(node.body[0].value, ast.Constant) and isinstance(node.body[0].value.value, str):
            node.body = node.body[1:] or [ast.Pass()]
        self.generic_visit(node)
        return node

    def visit_Call(self, node: ast.Call) -> ast.AST:
        self.generic_visit(node)
        if isinstance(node.func, ast.Name) and node.func.id in ERR_NAMES:
            return ast.Call(func=ast.Name(id="DOMAIN_ERROR", ctx=ast.Load()), args=[], keywords=[])
        return node

    def visit_Attribute(self, node: ast.Attribute) -> ast.AST:
        self.generic_visit(node)
        # `types.Row` (sqlframe.testing) vs `Row` (pyspark.testing)
        if isinstance(node.value, ast.Name) and node.value.id in ("types", "t") and node.attr in ("Row", "StructType", "StructField"):
            return ast.Name(id=node.attr, ctx=ast.Load())
        return node


def _norm(fn: ast.FunctionDef) -> str:
    import copy

    return ast.unparse(_Norm().visit(copy.deepcopy(fn)))


def _nested_funcs(fn: ast.FunctionDef) -> t.Dict[str, ast.FunctionDef]:
    out: t.Dict[str, ast.FunctionDef] = {}
    for n in ast.walk(fn):
        if isinstance(n, ast.FunctionDef) and n is not fn:
            out[n.name] = n
    return out


def _defaults(fn: ast.FunctionDef, ob: str) -> t.Dict[str, str]:
    names = [a.arg for a in fn.args.args]
    defs = fn.args.defaults
    out = {}
    for a, d in zip(names[len(names) - len(defs) :], defs):
        if not isinstance(d, ast.Constant):
            raise Untranslatable(ob, f"default of {a} is not a literal")
        out[a] = repr(d.value)
    for k in ("checkRowOrder", "rtol", "atol"):
        if k not in out:
            raise Untranslatable(ob, f"assertDataFrameEqual has no default for {k}")
    return out


CMP = {ast.Gt: "gt", ast.GtE: "ge", ast.Lt: "lt", ast.LtE: "le", ast.NotEq: "ne", ast.Eq: "eq"}


EXC = {
    "AttributeError": "attributeError",
    "KeyError": "keyError",
    "IndexError": "indexError",
    "ValueError": "valueError",
    "TypeError": "typeError",
    "RuntimeError": "runtimeError",
    "RowError": "domainError",
    "SQLFrameException": "domainError",
}


def _nodoc(fn: ast.FunctionDef) -> t.List[ast.stmt]:
    return [s for s in fn.body if not (isinstance(s, ast.Expr) and isinstance(s.value, ast.Constant))]


def _raised(st: ast.stmt, ob: str) -> str:
    """the exception class of `raise X(...)`, as a Gen.RowCompat.Exc constructor"""
    if not (isinstance(st, ast.Raise) and isinstance(st.exc, ast.Call) and isinstance(st.exc.func, ast.Name) and st.cause is None):
        raise Untranslatable(ob, f"expected `raise X(...)`, found {_u(st)[:60]!r}")
    if st.exc.func.id not in EXC:
        raise Untranslatable(ob, f"unknown exception class {st.exc.func.id}")
    return EXC[st.exc.func.id]


def _handlers(tr: ast.Try, ob: str) -> t.Dict[str, str]:
    """what a lookup `self.__fields__.index(item)` / tuple index ends in: per built-in exception the class that
    reaches the caller (the exception itself when no handler names it)"""
    if tr.orelse or tr.finalbody:
        raise Untranslatable(ob, "try with else/finally")
    out = {"IndexError": "indexError", "ValueError": "valueError"}
    seen: t.Set[str] = set()
    for h in tr.handlers:
        if not isinstance(h.type, ast.Name) or h.type.id not in out or len(h.body) != 1:
            raise Untranslatable(ob, f"unsupported handler {_u(h)[:80]!r}")
        if h.type.id in seen:
            continue  # a second handler for the same class is dead code
        seen.add(h.type.id)
        out[h.type.id] = _raised(h.body[0], ob)
    return out


def _accessors(row: ast.ClassDef) -> t.Dict[str, t.Any]:
    d: t.Dict[str, t.Any] = {}
    # __getattr__: `if item.startswith(<lit>): raise AttributeError(item)` then the lookup in __fields__
    ob = OB + ".Row.__getattr__"
    b = _nodoc(find_func(row.body, "__getattr__"))
    if not (len(b) == 2 and isinstance(b[0], ast.If) and isinstance(b[1], ast.Try) and not b[0].orelse and len(b[0].body) == 1):
        raise Untranslatable(ob, "expected a prefix guard followed by one try statement")
    g = b[0].test
    if not (
        isinstance(g, ast.Call)
        and _u(g.func) == "item.startswith"
        and len(g.args) == 1
        and not g.keywords
        and isinstance(g.args[0], ast.Constant)
        and isinstance(g.args[0].value, str)
    ):
        raise Untranslatable(ob, f"unsupported guard {_u(g)[:80]!r}")
    d["getattrGuardPrefix"] = g.args[0].value
    d["getattrGuardRaises"] = _raised(b[0].body[0], ob)
    if [_u(x) for x in b[1].body] != ["idx = self.__fields__.index(item)", "return self[idx]"]:
        raise Untranslatable(ob, f"unsupported lookup {[_u(x) for x in b[1].body]!r}")
    h = _handlers(b[1], ob)
    d["getattrNoField"], d["getattrShort"] = h["ValueError"], h["IndexError"]

    # __getitem__: `if isinstance(item, (int, slice)): return super().__getitem__(item)` then the lookup
    ob = OB + ".Row.__getitem__"
    b = _nodoc(find_func(row.body, "__getitem__"))
    if not (len(b) == 2 and isinstance(b[0], ast.If) and isinstance(b[1], ast.Try) and not b[0].orelse):
        raise Untranslatable(ob, "expected an isinstance guard followed by one try statement")
    g = b[0].test
    if not (isinstance(g, ast.Call) and _u(g.func) == "isinstance" and len(g.args) == 2 and _u(g.args[0]) == "item"):
        raise Untranslatable(ob, f"unsupported guard {_u(g)[:80]!r}")
    ty = g.args[1]
    names = [_u(x) for x in ty.elts] if isinstance(ty, ast.Tuple) else [_u(ty)]
    if not set(names) <= {"int", "slice"}:
        raise Untranslatable(ob, f"index types {names!r}")
    d["getitemInt"], d["getitemSlice"] = "int" in names, "slice" in names
    if [_u(x) for x in b[0].body] != ["return super(Row, self).__getitem__(item)"]:
        raise Untranslatable(ob, f"unsupported index branch {[_u(x) for x in b[0].body]!r}")
    if [_u(x) for x in b[1].body] != ["idx = self.__fields__.index(item)", "return super(Row, self).__getitem__(idx)"]:
        raise Untranslatable(ob, f"unsupported lookup {[_u(x) for x in b[1].body]!r}")
    h = _handlers(b[1], ob)
    d["getitemNoField"], d["getitemShort"] = h["ValueError"], h["IndexError"]

    # __setattr__: `if key != <lit>: raise RuntimeError(...)`; `self.__dict__[key] = value`
    ob = OB + ".Row.__setattr__"
    b = _nodoc(find_func(row.body, "__setattr__"))
    if not (
        len(b) == 2
        and isinstance(b[0], ast.If)
        and not b[0].orelse
        and len(b[0].body) == 1
        and isinstance(b[0].test, ast.Compare)
        and _u(b[0].test.left) == "key"
        and len(b[0].test.ops) == 1
        and isinstance(b[0].test.ops[0], ast.NotEq)
        and isinstance(b[0].test.comparators[0], ast.Constant)
        and isinstance(b[0].test.comparators[0].value, str)
        and _u(b[1]) == "self.__dict__[key] = value"
    ):
        raise Untranslatable(ob, "unsupported body")
    d["setattrAllowed"] = b[0].test.comparators[0].value
    d["setattrRaises"] = _raised(b[0].body[0], ob)

    # asDict: default of `recursive`; which container kinds `conv` descends into
    ob = OB + ".Row.asDict"
    fn = find_func(row.body, "asDict")
    if [a.arg for a in fn.args.args] != ["self", "recursive"] or len(fn.args.defaults) != 1 or not isinstance(fn.args.defaults[0], ast.Constant) or not isinstance(fn.args.defaults[0].value, bool):
        raise Untranslatable(ob, "unsupported signature")
    d["asDictRecursiveDefault"] = fn.args.defaults[0].value
    b = _nodoc(fn)
    if not (
        len(b) == 2
        and isinstance(b[0], ast.If)
        and _u(b[0].test) == "not hasattr(self, '__fields__')"
        and not b[0].orelse
        and len(b[0].body) == 1
        and isinstance(b[1], ast.If)
        and _u(b[1].test) == "recursive"
    ):
        raise Untranslatable(ob, "unsupported body")
    d["asDictNoFields"] = _raised(b[0].body[0], ob)
    if [_u(x) for x in b[1].orelse] != ["return dict(zip(self.__fields__, self))"]:
        raise Untranslatable(ob, f"unsupported non-recursive branch {[_u(x) for x in b[1].orelse]!r}")
    rb = b[1].body
    if not (len(rb) == 2 and isinstance(rb[0], ast.FunctionDef) and rb[0].name == "conv" and _u(rb[1]) == "return dict(zip(self.__fields__, (conv(o) for o in self)))"):
        raise Untranslatable(ob, "unsupported recursive branch")
    want = {
        "Row": "return obj.asDict(True)",
        "list": "return [conv(o) for o in obj]",
        "dict": "return dict(((k, conv(v)) for k, v in obj.items()))",
    }
    kinds: t.List[str] = []
    cb = _nodoc(rb[0])
    if len(cb) != 1:
        raise Untranslatable(ob, "conv: expected one if/elif chain")
    node: t.Any = cb[0]
    while True:
        if isinstance(node, ast.If):
            tst = node.test
            if not (isinstance(tst, ast.Call) and _u(tst.func) == "isinstance" and len(tst.args) == 2 and _u(tst.args[0]) == "obj" and _u(tst.args[1]) in want):
                raise Untranslatable(ob, f"conv: unsupported test {_u(tst)[:80]!r}")
            k = _u(tst.args[1])
            if [_u(x) for x in node.body] != [want[k]] or k in kinds:
                raise Untranslatable(ob, f"conv: unsupported branch for {k}: {[_u(x) for x in node.body]!r}")
            kinds.append(k)
            if len(node.orelse) != 1:
                raise Untranslatable(ob, "conv: the chain must end in `else: return obj`")
            node = node.orelse[0]
        else:
            if _u(node) != "return obj":
                raise Untranslatable(ob, f"conv: unsupported final branch {_u(node)[:60]!r}")
            break
    d["convRow"], d["convList"], d["convDict"] = "Row" in kinds, "list" in kinds, "dict" in kinds
    return d


CONJ = {
    "len(val1) == len(val2)": "lenEq",
    "len(val1.keys()) == len(val2.keys())": "lenEq",
    "val1.keys() == val2.keys()": "keysEq",
    "all((compare_vals(x, y) for x, y in zip(val1, val2)))": "zipAll",
    "all((compare_vals(val1[k], val2[k]) for k in val1.keys()))": "byKey",
    "all((compare_vals(val1[k], val2[k]) for k in val1))": "byKey",
    "all((compare_vals(x, y) for x, y in zip(val1.values(), val2.values())))": "byPosition",
}


def _compare_vals(fn: ast.FunctionDef) -> t.Dict[str, t.Any]:
    """the container branches of compare_vals: which conjuncts each has, and how a map's values are paired"""
    ob = OB + ".compare_vals"
    b = _nodoc(fn)
    if not (len(b) == 2 and isinstance(b[0], ast.If) and _u(b[1]) == "return True"):
        raise Untranslatable(ob, "expected one if/elif chain followed by `return True`")
    kinds: t.Dict[str, t.List[str]] = {}
    order: t.List[str] = []
    node: t.Any = b[0]
    final: t.List[ast.stmt] = []
    while True:
        tst = _Norm().visit(ast.parse(_u(node.test), mode="eval").body)
        m = re.fullmatch(r"isinstance\(val1, (\w+)\) and isinstance\(val2, (\w+)\)", _u(tst))
        if not m or m.group(1) != m.group(2) or m.group(1) not in ("list", "Row", "dict", "float") or m.group(1) in order:
            raise Untranslatable(ob, f"unsupported test {_u(node.test)[:80]!r}")
        k = m.group(1)
        order.append(k)
        if k == "float":
            d_float = [_u(x) for x in node.body] == ["if abs(val1 - val2) > atol + rtol * abs(val2):\n    return False"]
        else:
            if not (len(node.body) == 1 and isinstance(node.body[0], ast.Return) and node.body[0].value is not None):
                raise Untranslatable(ob, f"{k}: expected a single return")
            v = node.body[0].value
            conj = v.values if isinstance(v, ast.BoolOp) and isinstance(v.op, ast.And) else [v]
            names = []
            for c in conj:
                if _u(c) not in CONJ:
                    raise Untranslatable(ob, f"{k}: unsupported conjunct {_u(c)[:100]!r}")
                names.append(CONJ[_u(c)])
            kinds[k] = names
        if not node.orelse:
            raise Untranslatable(ob, "the chain has no final else")
        if len(node.orelse) == 1 and isinstance(node.orelse[0], ast.If) and _u(node.orelse[0].test).startswith("isinstance("):
            node = node.orelse[0]
            continue
        final = node.orelse
        break
    if order != ["list", "Row", "dict", "float"]:
        raise Untranslatable(ob, f"container kinds {order!r}")
    if [_u(x) for x in final] != ["if val1 != val2:\n    return False"]:
        raise Untranslatable(ob, f"unsupported final branch {[_u(x) for x in final]!r}")
    out: t.Dict[str, t.Any] = {"floatFormula": d_float}
    for k, allowed, need in (("list", {"lenEq", "zipAll"}, {"zipAll"}), ("Row", {"lenEq", "zipAll"}, {"zipAll"})):
        if not (need <= set(kinds[k]) <= allowed) or kinds[k][-1] != "zipAll":
            raise Untranslatable(ob, f"{k}: conjuncts {kinds[k]!r}")
    pair = [c for c in kinds["dict"] if c in ("byKey", "byPosition")]
    if len(pair) != 1 or kinds["dict"][-1] != pair[0] or not set(kinds["dict"]) <= {"lenEq", "keysEq", "byKey", "byPosition"}:
        raise Untranslatable(ob, f"dict: conjuncts {kinds['dict']!r}")
    out["listLenChecked"] = "lenEq" in kinds["list"]
    out["rowZipTruncates"] = "lenEq" not in kinds["Row"]
    out["dictLenChecked"] = "lenEq" in kinds["dict"]
    out["dictKeysChecked"] = "keysEq" in kinds["dict"]
    out["dictPairing"] = pair[0]
    return out


SORT_KEYS = ("lambda x: str(x)", "str", "lambda x: repr(x)", "repr")   # str(row) is repr(row): Row defines __repr__ only


def _tail(adf: ast.FunctionDef) -> t.Dict[str, t.Any]:
    """what assertDataFrameEqual does around the row comparison: None guards, schema comparison, conversion of
    the two arguments to lists, the sort of each list, the final comparison"""
    ob = OB + ".assertDataFrameEqual"
    tail = [s for s in _nodoc(adf) if not isinstance(s, (ast.FunctionDef, ast.Import, ast.ImportFrom))]
    d: t.Dict[str, t.Any] = {"noneBothAccepts": False, "noneOneRaises": False, "schemaWhen": "never", "sortActual": "none", "sortExpected": "none"}
    conv_seen = {"actual": False, "expected": False}
    for s in tail[:-1]:
        src = _u(s)
        if isinstance(s, ast.If) and _u(s.test) == "actual is None and expected is None":
            if [_u(x) for x in s.body] != ["return True"] or len(s.orelse) != 1 or not isinstance(s.orelse[0], ast.If):
                raise Untranslatable(ob, "unsupported None guard")
            e = s.orelse[0]
            if _u(e.test) != "actual is None or expected is None" or e.orelse or len(e.body) != 1 or not isinstance(e.body[0], ast.Raise):
                raise Untranslatable(ob, "unsupported None guard (second branch)")
            d["noneBothAccepts"], d["noneOneRaises"] = True, True
        elif isinstance(s, ast.If) and [_u(x) for x in s.body] == ["assertSchemaEqual(actual.schema, expected.schema)"] and not s.orelse:
            tests = {
                "not isinstance(actual, list) and (not isinstance(expected, list))": "bothFrames",
                "not isinstance(expected, list)": "expectedFrame",
            }
            if _u(s.test) not in tests:
                raise Untranslatable(ob, f"unsupported schema condition {_u(s.test)[:80]!r}")
            d["schemaWhen"] = tests[_u(s.test)]
        elif isinstance(s, ast.If) and _u(s.test) in ("not isinstance(actual, list)", "not isinstance(expected, list)"):
            w = "actual" if "actual" in _u(s.test) else "expected"
            if [_u(x) for x in s.body] != [f"{w}_list = {w}.collect()"] or [_u(x) for x in s.orelse] != [f"{w}_list = {w}"]:
                raise Untranslatable(ob, f"unsupported conversion of {w}: {src[:100]!r}")
            conv_seen[w] = True
        elif isinstance(s, ast.If) and _u(s.test) == "not checkRowOrder" and not s.orelse:
            for x in s.body:
                sx = _u(x)
                hit = None
                for w in ("actual", "expected"):
                    for key in SORT_KEYS:
                        if sx == f"{w}_list = sorted({w}_list, key={key})":
                            hit = (w, "copy")
                        elif sx == f"{w}_list.sort(key={key})":
                            hit = (w, "inPlace")
                if hit is None:
                    raise Untranslatable(ob, f"unsupported sort step {sx[:80]!r}")
                d["sort" + hit[0].capitalize()] = hit[1]
        else:
            raise Untranslatable(ob, f"unsupported statement {src[:80]!r}")
    if not all(conv_seen.values()):
        raise Untranslatable(ob, "the conversion of actual / expected to lists was not found")
    if not tail or _u(tail[-1]) != "assert_rows_equal(actual_list, expected_list)":
        raise Untranslatable(ob, f"unexpected final statement {_u(tail[-1])[:80] if tail else None!r}")
    d["comparesLists"] = True
    d["sortsBoth"] = d["sortActual"] != "none" and d["sortExpected"] != "none"
    return d


def extract(repo: str) -> t.Dict[str, t.Any]:
    sf_types = parse(repo, "sqlframe/base/types.py")
    sf_test = parse(repo, "sqlframe/testing/utils.py")
    try:
        ps_types = _parse_file(os.path.join(PYSPARK_DIR, "sql", "types.py"))
        ps_test = _parse_file(os.path.join(PYSPARK_DIR, "testing", "utils.py"))
    except FileNotFoundError as e:
        raise Untranslatable(OB, f"installed pyspark source not found: {e}")
    sf_row = find_class(sf_types, "Row")
    ps_row = find_class(ps_types, "Row")
    d: t.Dict[str, t.Any] = {}

    # ---- decisions of sqlframe's Row ------------------------------------------------------------
    conv = "float(x) if isinstance(x, Decimal) else x"
    cr = find_func(sf_types.body, "_create_row")
    stmts = [_u(s) for s in cr.body]
    if stmts == [f"row = Row(*[{conv} for x in values])", "row.__fields__ = fields", "return row"]:
        d["decCreateRow"] = True
    elif stmts == ["row = Row(*values)", "row.__fields__ = fields", "return row"]:
        d["decCreateRow"] = False
    else:
        raise Untranslatable(OB + "._create_row", f"unsupported body {stmts!r}")
    new = find_func(sf_row.body, "__new__")
    body = [s for s in new.body if not (isinstance(s, ast.Expr) and isinstance(s.value, ast.Constant))]
    if len(body) != 2 or not all(isinstance(s, ast.If) for s in body):
        raise Untranslatable(OB + ".Row.__new__", "expected two `if` statements")
    g, k = body
    d["bothGuard"] = _u(g.test) == "args and kwargs" and len(g.body) == 1 and isinstance(g.body[0], ast.Raise) and not g.orelse
    if not d["bothGuard"]:
        raise Untranslatable(OB + ".Row.__new__", "the args-and-kwargs guard changed")
    if _u(k.test) != "kwargs" or [_u(s) for s in k.orelse] != ["return tuple.__new__(cls, args)"]:
        raise Untranslatable(OB + ".Row.__new__", "unsupported kwargs/args branches")
    kb = [_u(s) for s in k.body]
    if kb == [f"row = tuple.__new__(cls, [{conv} for x in kwargs.values()])", "row.__fields__ = list(kwargs.keys())", "return row"]:
        d["decKwargs"] = True
    elif kb == ["row = tuple.__new__(cls, list(kwargs.values()))", "row.__fields__ = list(kwargs.keys())", "return row"]:
        d["decKwargs"] = False
    else:
        raise Untranslatable(OB + ".Row.__new__", f"unsupported kwargs branch {kb!r}")
    call = find_func(sf_row.body, "__call__")
    cb = [s for s in call.body if not (isinstance(s, ast.Expr) and isinstance(s.value, ast.Constant))]
    if not (
        len(cb) == 2
        and isinstance(cb[0], ast.If)
        and isinstance(cb[0].test, ast.Compare)
        and _u(cb[0].test.left) == "len(args)"
        and len(cb[0].test.ops) == 1
        and _u(cb[0].test.comparators[0]) == "len(self)"
        and type(cb[0].test.ops[0]) in CMP
        and len(cb[0].body) == 1
        and isinstance(cb[0].body[0], ast.Raise)
        and _u(cb[1]) == "return _create_row(self, args)"
    ):
        raise Untranslatable(OB + ".Row.__call__", "unsupported body")
    d["callGuard"] = CMP[type(cb[0].test.ops[0])]


    # ---- __getattr__ / __getitem__ / __setattr__ / asDict ---------------------------------------
    d.update(_accessors(sf_row))
    d["rowBases"] = [_u(b) for b in sf_row.bases]

    # ---- source identity of the Row methods -----------------------------------------------------
    same_methods: t.List[str] = []
    diff_methods: t.List[str] = []
    for m in ROW_METHODS:
        try:
            a, b = find_func(sf_row.body, m), find_func(ps_row.body, m)
        except Untranslatable:
            diff_methods.append(m)
            continue
        na, nb = _norm(a), _norm(b)
        if m == "__new__" and d["decKwargs"]:
            na = na.replace(f"[{conv} for x in kwargs.values()]", "list(kwargs.values())")
        (same_methods if na == nb else diff_methods).append(m)
    d["sameMethods"], d["diffMethods"] = same_methods, diff_methods
    # attributes sqlframe's Row has beyond pyspark's
    sf_names = {n.name for n in sf_row.body if isinstance(n, ast.FunctionDef)}
    ps_names = {n.name for n in ps_row.body if isinstance(n, ast.FunctionDef)}
    d["extraMethods"] = sorted(sf_names - ps_names)
    d["missingMethods"] = sorted(ps_names - sf_names)
    # dunder methods / class-level assignments beyond pyspark's change the tuple semantics the model relies on
    d["extraDunders"] = sorted(n for n in sf_names - ps_names if n.startswith("__"))

    def _assigned(cls: ast.ClassDef) -> t.Set[str]:
        out: t.Set[str] = set()
        for n in cls.body:
            if isinstance(n, ast.Assign):
                out |= {_u(x) for x in n.targets}
            elif isinstance(n, ast.AnnAssign):
                out.add(_u(n.target))
        return out

    d["classAssigns"] = sorted(_assigned(sf_row) - _assigned(ps_row))

    # ---- the assertion helpers ------------------------------------------------------------------
    sf_adf, ps_adf = find_func(sf_test.body, "assertDataFrameEqual"), find_func(ps_test.body, "assertDataFrameEqual")
    sf_ase, ps_ase = find_func(sf_test.body, "assertSchemaEqual"), find_func(ps_test.body, "assertSchemaEqual")
    d["sfDefaults"], d["psDefaults"] = _defaults(sf_adf, OB + ".assertDataFrameEqual"), _defaults(ps_adf, OB + ".pyspark.assertDataFrameEqual")
    sf_nested = {**_nested_funcs(sf_adf), **_nested_funcs(sf_ase)}
    ps_nested = {**_nested_funcs(ps_adf), **_nested_funcs(ps_ase)}
    same_funcs, diff_funcs = [], []
    for f in HELPER_FUNCS:
        if f in sf_nested and f in ps_nested and _norm(sf_nested[f]) == _norm(ps_nested[f]):
            same_funcs.append(f)
        else:
            diff_funcs.append(f)
    d["sameFuncs"], d["diffFuncs"] = same_funcs, diff_funcs

    # the statements of assertSchemaEqual itself (around its nested functions), exception classes erased
    class _AnyRaise(ast.NodeTransformer):
        def visit_Raise(self, node: ast.Raise) -> ast.AST:
            return ast.Raise(exc=ast.Name(id="E", ctx=ast.Load()), cause=None)

    def _top(fn: ast.FunctionDef) -> t.List[str]:
        import copy

        tail = [x for x in _nodoc(fn) if not isinstance(x, (ast.FunctionDef, ast.Import, ast.ImportFrom))]
        return [_u(ast.fix_missing_locations(_AnyRaise().visit(_Norm().visit(copy.deepcopy(x))))) for x in tail]

    d["schemaTopSame"] = _top(sf_ase) == _top(ps_ase)
    # the tail of assertDataFrameEqual: None guards, schema comparison, conversion to lists, optional sort, comparison
    d.update(_tail(sf_adf))
    sort_stmt = "if not checkRowOrder:\n    actual_list = sorted(actual_list, key=lambda x: str(x))\n    expected_list = sorted(expected_list, key=lambda x: str(x))"
    ps_tail = [_u(s) for s in ps_adf.body if not isinstance(s, (ast.FunctionDef, ast.Import, ast.ImportFrom))]
    d["psSortsBoth"] = sort_stmt in ps_tail
    # decisions inside compare_vals / assert_rows_equal the Lean transcription branches on
    if "compare_vals" not in sf_nested:
        raise Untranslatable(OB + ".compare_vals", "not found")
    d.update(_compare_vals(sf_nested["compare_vals"]))
    are = _u(sf_nested["assert_rows_equal"]) if "assert_rows_equal" in sf_nested else ""
    d["zipLongest"] = "zipped = list(zip_longest(rows1, rows2))" in are
    if not d["zipLongest"] and "zipped = list(zip(rows1, rows2))" not in are:
        raise Untranslatable(OB + ".assert_rows_equal", "how the two row lists are zipped was not recognised")
    for k in ("listLenChecked", "rowZipTruncates", "dictLenChecked", "dictKeysChecked", "floatFormula", "zipLongest"):
        if not d[k] and "compare_vals" in same_funcs and "assert_rows_equal" in same_funcs:
            raise Untranslatable(OB, f"translator out of sync: {k} not recognised although the source equals pyspark's")
    return d


def _b(x: bool) -> str:
    return "true" if x else "false"


def _ls(xs: t.Iterable[str]) -> str:
    return "[" + ", ".join(lean_str(x) for x in xs) + "]"


def gen_rowcompat(repo: str) -> str:
    d = extract(repo)
    L = [
        HEADER,
        "",
        "namespace Sqlframe.Gen.RowCompat",
        "",
        "inductive Cmp | gt | ge | lt | le | ne | eq",
        "  deriving DecidableEq, Repr, Inhabited",
        "/-- exception classes (`domainError` = the package's own RowError / SQLFrameException) -/",
        "inductive Exc | attributeError | keyError | indexError | valueError | typeError | runtimeError | domainError",
        "  deriving DecidableEq, Repr, Inhabited",
        "/-- how compare_vals pairs the values of two maps -/",
        "inductive Pairing | byKey | byPosition",
        "  deriving DecidableEq, Repr, Inhabited",
        "/-- how assertDataFrameEqual sorts one of its row lists when checkRowOrder is off -/",
        "inductive SortMode | copy | inPlace | none",
        "  deriving DecidableEq, Repr, Inhabited",
        "/-- when assertDataFrameEqual compares the schemas of its arguments -/",
        "inductive SchemaWhen | bothFrames | expectedFrame | never",
        "  deriving DecidableEq, Repr, Inhabited",
        "",
        "/-- `Row.__getattr__`: `if item.startswith(<prefix>): raise <getattrGuardRaises>` -/",
        f"def getattrGuardPrefix : String := {lean_str(d['getattrGuardPrefix'])}",
        f"def getattrGuardRaises : Exc := .{d['getattrGuardRaises']}",
        "/-- what reaches the caller of `row.name` when the name is no field / the row has fewer values than fields -/",
        f"def getattrNoField : Exc := .{d['getattrNoField']}",
        f"def getattrShort : Exc := .{d['getattrShort']}",
        "/-- `Row.__getitem__`: which index types go to the tuple; the same two situations for `row[name]` -/",
        f"def getitemInt : Bool := {_b(d['getitemInt'])}",
        f"def getitemSlice : Bool := {_b(d['getitemSlice'])}",
        f"def getitemNoField : Exc := .{d['getitemNoField']}",
        f"def getitemShort : Exc := .{d['getitemShort']}",
        "/-- `Row.__setattr__`: the one attribute name let through, what every other name raises -/",
        f"def setattrAllowed : String := {lean_str(d['setattrAllowed'])}",
        f"def setattrRaises : Exc := .{d['setattrRaises']}",
        "/-- `Row.asDict`: default of `recursive`, what a Row class raises, which containers `conv` descends into -/",
        f"def asDictRecursiveDefault : Bool := {_b(d['asDictRecursiveDefault'])}",
        f"def asDictNoFields : Exc := .{d['asDictNoFields']}",
        f"def convRow : Bool := {_b(d['convRow'])}",
        f"def convList : Bool := {_b(d['convList'])}",
        f"def convDict : Bool := {_b(d['convDict'])}",
        "/-- bases of the class; dunder methods / class-level names sqlframe's Row defines beyond pyspark's -/",
        f"def rowBases : List String := {_ls(d['rowBases'])}",
        f"def extraDunders : List String := {_ls(d['extraDunders'])}",
        f"def classAssigns : List String := {_ls(d['classAssigns'])}",
        "",
        "/-- `Row.__call__`: `if len(args) <callGuard> len(self): raise` -/",
        f"def callGuard : Cmp := .{d['callGuard']}",
        "/-- `Row.__new__(**kwargs)` converts Decimal values to float -/",
        f"def decKwargs : Bool := {_b(d['decKwargs'])}",
        "/-- `_create_row` (Row-class call, unpickling) converts Decimal values to float -/",
        f"def decCreateRow : Bool := {_b(d['decCreateRow'])}",
        f"def bothGuard : Bool := {_b(d['bothGuard'])}",
        "",
        "/-- Row methods whose source equals the installed pyspark's (modulo annotations, docstrings, exception classes, the Decimal conversion) -/",
        f"def sameMethods : List String := {_ls(d['sameMethods'])}",
        f"def diffMethods : List String := {_ls(d['diffMethods'])}",
        f"def extraMethods : List String := {_ls(d['extraMethods'])}",
        f"def missingMethods : List String := {_ls(d['missingMethods'])}",
        "",
        "/-- nested functions of assertDataFrameEqual / assertSchemaEqual whose source equals pyspark's -/",
        f"def sameFuncs : List String := {_ls(d['sameFuncs'])}",
        f"def diffFuncs : List String := {_ls(d['diffFuncs'])}",
        "/-- the statements of assertSchemaEqual around its nested functions equal pyspark's (exception classes erased) -/",
        f"def schemaTopSame : Bool := {_b(d['schemaTopSame'])}",
        "",
        f"def sfCheckRowOrderDefault : String := {lean_str(d['sfDefaults']['checkRowOrder'])}",
        f"def sfRtolDefault : String := {lean_str(d['sfDefaults']['rtol'])}",
        f"def sfAtolDefault : String := {lean_str(d['sfDefaults']['atol'])}",
        f"def psCheckRowOrderDefault : String := {lean_str(d['psDefaults']['checkRowOrder'])}",
        f"def psRtolDefault : String := {lean_str(d['psDefaults']['rtol'])}",
        f"def psAtolDefault : String := {lean_str(d['psDefaults']['atol'])}",
        "",
        "/-- decisions of sqlframe's helper the transcription branches on -/",
        f"def sortsBoth : Bool := {_b(d['sortsBoth'])}",
        f"def psSortsBoth : Bool := {_b(d['psSortsBoth'])}",
        f"def listLenChecked : Bool := {_b(d['listLenChecked'])}",
        f"def rowZipTruncates : Bool := {_b(d['rowZipTruncates'])}",
        f"def dictLenChecked : Bool := {_b(d['dictLenChecked'])}",
        f"def dictKeysChecked : Bool := {_b(d['dictKeysChecked'])}",
        f"def dictPairing : Pairing := .{d['dictPairing']}",
        f"def sortActual : SortMode := .{d['sortActual']}",
        f"def sortExpected : SortMode := .{d['sortExpected']}",
        f"def noneBothAccepts : Bool := {_b(d['noneBothAccepts'])}",
        f"def noneOneRaises : Bool := {_b(d['noneOneRaises'])}",
        f"def schemaWhen : SchemaWhen := .{d['schemaWhen']}",
        f"def floatFormula : Bool := {_b(d['floatFormula'])}",
        f"def zipLongest : Bool := {_b(d['zipLongest'])}",
        "",
        "end Sqlframe.Gen.RowCompat",
    ]
    return "\n".join(L) + "\n"


GENERATORS = {"RowCompat": gen_rowcompat}
