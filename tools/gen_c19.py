"""
gen_c19.py — translator part for C19: sqlframe/base/types.py (Row, _create_row) and sqlframe/testing/utils.py
(assertDataFrameEqual, assertSchemaEqual) compared with the INSTALLED pyspark's pyspark/sql/types.py and
pyspark/testing/utils.py  ->  Gen/RowCompat.lean  (namespace Sqlframe.Gen.RowCompat).

Two kinds of facts are extracted (Python `ast`, nothing is imported):
  * decisions the hand transcriptions in Impl/C19Row.lean branch on: the comparison guarding `Row.__call__`,
    whether `Row.__new__(**kwargs)` / `_create_row` convert Decimal to float, whether args+kwargs is rejected,
    the defaults of checkRowOrder / rtol / atol (both packages), the shapes of the helper's sort / zip steps;
  * SOURCE IDENTITY: for each Row method and each (nested) helper function, is sqlframe's body the same as
    pyspark's after erasing annotations, docstrings, the `t.` typing prefix and the exception constructors
    (RowError / SQLFrameException / DataFrameDiffError / SchemaDiffError  vs  PySpark*Error)?  The names that are
    identical are listed; Props/C19.lean requires the list to contain every method the equivalence theorem
    transcribes once for both packages.
Anything outside the expected shapes raises Untranslatable.
"""
from __future__ import annotations

import ast
import os
import re
import typing as t

from translate import HEADER, Untranslatable, find_class, find_func, lean_str, parse

OB = "Gen.RowCompat"
PYSPARK_DIR = os.environ.get("VERIF_PYSPARK", "/venv/lib/python3.12/site-packages/pyspark")

ROW_METHODS = ["__new__", "asDict", "__contains__", "__call__", "__getitem__", "__getattr__", "__setattr__", "__reduce__", "__repr__"]
HELPER_FUNCS = [
    "compare_vals",
    "compare_rows",
    "assert_rows_equal",
    "compare_schemas_ignore_nullable",
    "compare_structfields_ignore_nullable",
    "compare_datatypes_ignore_nullable",
]
ERR_NAMES = {"RowError", "SQLFrameException", "DataFrameDiffError", "SchemaDiffError", "PySparkValueError", "PySparkTypeError", "PySparkAssertionError", "PySparkException"}


def _u(n: ast.AST) -> str:
    return ast.unparse(n)


def _parse_file(path: str) -> ast.Module:
    with open(path, encoding="utf-8") as f:
        return ast.parse(f.read(), filename=path)


class _Norm(ast.NodeTransformer):
    """erase what is allowed to differ between the two packages"""

    def visit_FunctionDef(self, node: ast.FunctionDef) -> ast.AST:
        node.returns = None
        node.decorator_list = []
        for a in node.args.args + node.args.kwonlyargs + node.args.posonlyargs:
            a.annotation = None
        if node.args.vararg:
            node.args.vararg.annotation = None
        if node.args.kwarg:
            node.args.kwarg.annotation = None
        if node.body and isinstance(node.body[0], ast.Expr) and isinstance(node.body[0].value, ast.Constant) and isinstance(node.body[0].value.value, str):
            node.body = node.body[1:] or [ast.Pass()]
        self.generic_visit(node)
        return node

    def visit_Call(self, node: ast.Call) -> ast.AST:
        self.generic_visit(node)
        if isinstance(node.func, ast.Name) and node.func.id in ERR_NAMES:
            return ast.Call(func=ast.Name(id="DOMAIN_ERROR", ctx=ast.Load()), args=[], keywords=[])
        return node

    def visit_Attribute(self, node: ast.Attribute) -> ast.AST:
        self.generic_visit(node)
        # `types.Row` (sqlframe.testing) vs `Row` (pyspark.testing)
        if isinstance(node.value, ast.Name) and node.value.id in ("types", "t") and node.attr in ("Row", "StructType", "StructField"):
            return ast.Name(id=node.attr, ctx=ast.Load())
        return node


def _norm(fn: ast.FunctionDef) -> str:
    import copy

    return ast.unparse(_Norm().visit(copy.deepcopy(fn)))


def _nested_funcs(fn: ast.FunctionDef) -> t.Dict[str, ast.FunctionDef]:
    out: t.Dict[str, ast.FunctionDef] = {}
    for n in ast.walk(fn):
        if isinstance(n, ast.FunctionDef) and n is not fn:
            out[n.name] = n
    return out


def _defaults(fn: ast.FunctionDef, ob: str) -> t.Dict[str, str]:
    names = [a.arg for a in fn.args.args]
    defs = fn.args.defaults
    out = {}
    for a, d in zip(names[len(names) - len(defs) :], defs):
        if not isinstance(d, ast.Constant):
            raise Untranslatable(ob, f"default of {a} is not a literal")
        out[a] = repr(d.value)
    for k in ("checkRowOrder", "rtol", "atol"):
        if k not in out:
            raise Untranslatable(ob, f"assertDataFrameEqual has no default for {k}")
    return out


CMP = {ast.Gt: "gt", ast.GtE: "ge", ast.Lt: "lt", ast.LtE: "le", ast.NotEq: "ne", ast.Eq: "eq"}


def extract(repo: str) -> t.Dict[str, t.Any]:
    sf_types = parse(repo, "sqlframe/base/types.py")
    sf_test = parse(repo, "sqlframe/testing/utils.py")
    try:
        ps_types = _parse_file(os.path.join(PYSPARK_DIR, "sql", "types.py"))
        ps_test = _parse_file(os.path.join(PYSPARK_DIR, "testing", "utils.py"))
    except FileNotFoundError as e:
        raise Untranslatable(OB, f"installed pyspark source not found: {e}")
    sf_row = find_class(sf_types, "Row")
    ps_row = find_class(ps_types, "Row")
    d: t.Dict[str, t.Any] = {}

    # ---- decisions of sqlframe's Row ------------------------------------------------------------
    conv = "float(x) if isinstance(x, Decimal) else x"
    cr = find_func(sf_types.body, "_create_row")
    stmts = [_u(s) for s in cr.body]
    if stmts == [f"row = Row(*[{conv} for x in values])", "row.__fields__ = fields", "return row"]:
        d["decCreateRow"] = True
    elif stmts == ["row = Row(*values)", "row.__fields__ = fields", "return row"]:
        d["decCreateRow"] = False
    else:
        raise Untranslatable(OB + "._create_row", f"unsupported body {stmts!r}")
    new = find_func(sf_row.body, "__new__")
    body = [s for s in new.body if not (isinstance(s, ast.Expr) and isinstance(s.value, ast.Constant))]
    if len(body) != 2 or not all(isinstance(s, ast.If) for s in body):
        raise Untranslatable(OB + ".Row.__new__", "expected two `if` statements")
    g, k = body
    d["bothGuard"] = _u(g.test) == "args and kwargs" and len(g.body) == 1 and isinstance(g.body[0], ast.Raise) and not g.orelse
    if not d["bothGuard"]:
        raise Untranslatable(OB + ".Row.__new__", "the args-and-kwargs guard changed")
    if _u(k.test) != "kwargs" or [_u(s) for s in k.orelse] != ["return tuple.__new__(cls, args)"]:
        raise Untranslatable(OB + ".Row.__new__", "unsupported kwargs/args branches")
    kb = [_u(s) for s in k.body]
    if kb == [f"row = tuple.__new__(cls, [{conv} for x in kwargs.values()])", "row.__fields__ = list(kwargs.keys())", "return row"]:
        d["decKwargs"] = True
    elif kb == ["row = tuple.__new__(cls, list(kwargs.values()))", "row.__fields__ = list(kwargs.keys())", "return row"]:
        d["decKwargs"] = False
    else:
        raise Untranslatable(OB + ".Row.__new__", f"unsupported kwargs branch {kb!r}")
    call = find_func(sf_row.body, "__call__")
    cb = [s for s in call.body if not (isinstance(s, ast.Expr) and isinstance(s.value, ast.Constant))]
    if not (
        len(cb) == 2
        and isinstance(cb[0], ast.If)
        and isinstance(cb[0].test, ast.Compare)
        and _u(cb[0].test.left) == "len(args)"
        and len(cb[0].test.ops) == 1
        and _u(cb[0].test.comparators[0]) == "len(self)"
        and type(cb[0].test.ops[0]) in CMP
        and len(cb[0].body) == 1
        and isinstance(cb[0].body[0], ast.Raise)
        and _u(cb[1]) == "return _create_row(self, args)"
    ):
        raise Untranslatable(OB + ".Row.__call__", "unsupported body")
    d["callGuard"] = CMP[type(cb[0].test.ops[0])]

    # ---- source identity of the Row methods -----------------------------------------------------
    same_methods: t.List[str] = []
    diff_methods: t.List[str] = []
    for m in ROW_METHODS:
        try:
            a, b = find_func(sf_row.body, m), find_func(ps_row.body, m)
        except Untranslatable:
            diff_methods.append(m)
            continue
        na, nb = _norm(a), _norm(b)
        if m == "__new__" and d["decKwargs"]:
            na = na.replace(f"[{conv} for x in kwargs.values()]", "list(kwargs.values())")
        (same_methods if na == nb else diff_methods).append(m)
    d["sameMethods"], d["diffMethods"] = same_methods, diff_methods
    # attributes sqlframe's Row has beyond pyspark's
    sf_names = {n.name for n in sf_row.body if isinstance(n, ast.FunctionDef)}
    ps_names = {n.name for n in ps_row.body if isinstance(n, ast.FunctionDef)}
    d["extraMethods"] = sorted(sf_names - ps_names)
    d["missingMethods"] = sorted(ps_names - sf_names)

    # ---- the assertion helpers ------------------------------------------------------------------
    sf_adf, ps_adf = find_func(sf_test.body, "assertDataFrameEqual"), find_func(ps_test.body, "assertDataFrameEqual")
    sf_ase, ps_ase = find_func(sf_test.body, "assertSchemaEqual"), find_func(ps_test.body, "assertSchemaEqual")
    d["sfDefaults"], d["psDefaults"] = _defaults(sf_adf, OB + ".assertDataFrameEqual"), _defaults(ps_adf, OB + ".pyspark.assertDataFrameEqual")
    sf_nested = {**_nested_funcs(sf_adf), **_nested_funcs(sf_ase)}
    ps_nested = {**_nested_funcs(ps_adf), **_nested_funcs(ps_ase)}
    same_funcs, diff_funcs = [], []
    for f in HELPER_FUNCS:
        if f in sf_nested and f in ps_nested and _norm(sf_nested[f]) == _norm(ps_nested[f]):
            same_funcs.append(f)
        else:
            diff_funcs.append(f)
    d["sameFuncs"], d["diffFuncs"] = same_funcs, diff_funcs
    # the tail of assertDataFrameEqual: conversion to lists, optional sort, comparison
    tail = [_u(s) for s in sf_adf.body if not isinstance(s, (ast.FunctionDef, ast.Import, ast.ImportFrom))]
    sort_stmt = "if not checkRowOrder:\n    actual_list = sorted(actual_list, key=lambda x: str(x))\n    expected_list = sorted(expected_list, key=lambda x: str(x))"
    d["sortsBoth"] = sort_stmt in tail
    d["comparesLists"] = bool(tail) and tail[-1] == "assert_rows_equal(actual_list, expected_list)"
    if not d["comparesLists"]:
        raise Untranslatable(OB + ".assertDataFrameEqual", f"unexpected final statement {tail[-1] if tail else None!r}")
    if not d["sortsBoth"]:
        srt = [s for s in tail if "sorted(" in s]
        if srt:
            raise Untranslatable(OB + ".assertDataFrameEqual", f"unsupported sort step {srt[0][:80]!r}")
    ps_tail = [_u(s) for s in ps_adf.body if not isinstance(s, (ast.FunctionDef, ast.Import, ast.ImportFrom))]
    d["psSortsBoth"] = sort_stmt in ps_tail
    # decisions inside compare_vals / assert_rows_equal the Lean transcription branches on
    cv = _u(sf_nested["compare_vals"]) if "compare_vals" in sf_nested else ""
    d["listLenChecked"] = "len(val1) == len(val2) and all((compare_vals(x, y) for x, y in zip(val1, val2)))" in cv
    d["rowZipTruncates"] = "return all((compare_vals(x, y) for x, y in zip(val1, val2)))" in cv
    d["dictKeysChecked"] = "len(val1.keys()) == len(val2.keys()) and val1.keys() == val2.keys() and all((compare_vals(val1[k], val2[k]) for k in val1.keys()))" in cv
    d["floatFormula"] = "if abs(val1 - val2) > atol + rtol * abs(val2):" in cv
    are = _u(sf_nested["assert_rows_equal"]) if "assert_rows_equal" in sf_nested else ""
    d["zipLongest"] = "zipped = list(zip_longest(rows1, rows2))" in are
    for k in ("listLenChecked", "rowZipTruncates", "dictKeysChecked", "floatFormula", "zipLongest"):
        if not d[k] and "compare_vals" in same_funcs and "assert_rows_equal" in same_funcs:
            raise Untranslatable(OB, f"translator out of sync: {k} not recognised although the source equals pyspark's")
    return d


def _b(x: bool) -> str:
    return "true" if x else "false"


def _ls(xs: t.Iterable[str]) -> str:
    return "[" + ", ".join(lean_str(x) for x in xs) + "]"


def gen_rowcompat(repo: str) -> str:
    d = extract(repo)
    L = [
        HEADER,
        "",
        "namespace Sqlframe.Gen.RowCompat",
        "",
        "inductive Cmp | gt | ge | lt | le | ne | eq",
        "  deriving DecidableEq, Repr, Inhabited",
        "",
        "/-- `Row.__call__`: `if len(args) <callGuard> len(self): raise` -/",
        f"def callGuard : Cmp := .{d['callGuard']}",
        "/-- `Row.__new__(**kwargs)` converts Decimal values to float -/",
        f"def decKwargs : Bool := {_b(d['decKwargs'])}",
        "/-- `_create_row` (Row-class call, unpickling) converts Decimal values to float -/",
        f"def decCreateRow : Bool := {_b(d['decCreateRow'])}",
        f"def bothGuard : Bool := {_b(d['bothGuard'])}",
        "",
        "/-- Row methods whose source equals the installed pyspark's (modulo annotations, docstrings, exception classes, the Decimal conversion) -/",
        f"def sameMethods : List String := {_ls(d['sameMethods'])}",
        f"def diffMethods : List String := {_ls(d['diffMethods'])}",
        f"def extraMethods : List String := {_ls(d['extraMethods'])}",
        f"def missingMethods : List String := {_ls(d['missingMethods'])}",
        "",
        "/-- nested functions of assertDataFrameEqual / assertSchemaEqual whose source equals pyspark's -/",
        f"def sameFuncs : List String := {_ls(d['sameFuncs'])}",
        f"def diffFuncs : List String := {_ls(d['diffFuncs'])}",
        "",
        f"def sfCheckRowOrderDefault : String := {lean_str(d['sfDefaults']['checkRowOrder'])}",
        f"def sfRtolDefault : String := {lean_str(d['sfDefaults']['rtol'])}",
        f"def sfAtolDefault : String := {lean_str(d['sfDefaults']['atol'])}",
        f"def psCheckRowOrderDefault : String := {lean_str(d['psDefaults']['checkRowOrder'])}",
        f"def psRtolDefault : String := {lean_str(d['psDefaults']['rtol'])}",
        f"def psAtolDefault : String := {lean_str(d['psDefaults']['atol'])}",
        "",
        "/-- decisions of sqlframe's helper the transcription branches on -/",
        f"def sortsBoth : Bool := {_b(d['sortsBoth'])}",
        f"def psSortsBoth : Bool := {_b(d['psSortsBoth'])}",
        f"def listLenChecked : Bool := {_b(d['listLenChecked'])}",
        f"def rowZipTruncates : Bool := {_b(d['rowZipTruncates'])}",
        f"def dictKeysChecked : Bool := {_b(d['dictKeysChecked'])}",
        f"def floatFormula : Bool := {_b(d['floatFormula'])}",
        f"def zipLongest : Bool := {_b(d['zipLongest'])}",
        "",
        "end Sqlframe.Gen.RowCompat",
    ]
    return "\n".join(L) + "\n"


GENERATORS = {"RowCompat": gen_rowcompat}
