"""
gen_c11.py — translator part for C11: Gen/Row.lean (Row._unique_field_names as a loop kind + suffix format)
and Gen/Actions.lean (which statement list each action sends: the `optimize` flag handed to
`_get_expressions`, whether show()/count() wrap first, isEmpty's composition; WHICH LIMIT node of the statement
`limit` consults before it merges -- the open SELECT's own, or the first one anywhere in the tree (CTE bodies
included) --, where it puts the new LIMIT, where show() takes its rows from and what count() counts).
"""
from __future__ import annotations

import ast
import re
import typing as t

from translate import HEADER, Untranslatable, find_class, find_func, parse


def gen_row(repo: str) -> str:
    cls = find_class(parse(repo, "sqlframe/base/types.py"), "Row")
    fn = find_func(cls.body, "_unique_field_names")
    ob = "Gen.Row.uniqueFieldNames"
    # expected shape:
    #   fields = []
    #   for i, field in enumerate(self.__fields__):
    #       (if|while) field in fields:
    #           field = field + "_" + str(i)
    #       fields.append(field)
    #   return fields
    body = [s for s in fn.body if not (isinstance(s, ast.Expr) and isinstance(s.value, ast.Constant))]
    if len(body) != 3 or not isinstance(body[1], ast.For):
        raise Untranslatable(ob, "unexpected body shape")
    loop = body[1]
    if ast.unparse(loop.target) != "(i, field)" or ast.unparse(loop.iter) != "enumerate(self.__fields__)":
        raise Untranslatable(ob, f"unexpected loop header {ast.unparse(loop.target)} in {ast.unparse(loop.iter)}")
    if len(loop.body) != 2:
        raise Untranslatable(ob, "unexpected loop body")
    guard, app = loop.body
    if isinstance(guard, ast.If):
        kind = "ifOnce"
    elif isinstance(guard, ast.While):
        kind = "whileFresh"
    else:
        raise Untranslatable(ob, "guard is neither if nor while")
    if ast.unparse(guard.test) != "field in fields" or guard.orelse:
        raise Untranslatable(ob, f"unexpected guard {ast.unparse(guard.test)}")
    if len(guard.body) != 1 or ast.unparse(guard.body[0]) != "field = field + '_' + str(i)":
        raise Untranslatable(ob, f"unexpected renaming {ast.unparse(guard.body[0])}")
    if ast.unparse(app) != "fields.append(field)":
        raise Untranslatable(ob, "unexpected append")
    if ast.unparse(body[2]) != "return fields":
        raise Untranslatable(ob, "unexpected return")
    out = [HEADER, "namespace Sqlframe.Gen", ""]
    out.append("inductive UniqueLoop | ifOnce | whileFresh deriving DecidableEq, Repr")
    out.append("/-- `Row._unique_field_names`: a clashing field gets the suffix once (`if`) or until fresh (`while`) -/")
    out.append(f"def uniqueLoop : UniqueLoop := .{kind}")
    out.append('/-- the suffix appended for position i: `"_" + str(i)` -/')
    out.append('def uniqueSuffix (i : Nat) : String := "_" ++ toString i')
    out.append("")
    out.append("end Sqlframe.Gen")
    return "\n".join(out) + "\n"


def _optimize_flag(fn: ast.FunctionDef, ob: str) -> bool:
    calls = [
        n
        for n in ast.walk(fn)
        if isinstance(n, ast.Call) and isinstance(n.func, ast.Attribute) and n.func.attr == "_get_expressions"
    ]
    if len(calls) != 1:
        raise Untranslatable(ob, f"expected one _get_expressions call in {fn.name}, found {len(calls)}")
    for kw in calls[0].keywords:
        if kw.arg == "optimize":
            if isinstance(kw.value, ast.Constant) and isinstance(kw.value.value, bool):
                return kw.value.value
            raise Untranslatable(ob, "optimize= is not a literal")
    return True  # _get_expressions' default


def _strip_doc(body: t.Sequence[ast.stmt]) -> t.List[ast.stmt]:
    return [s for s in body if not (isinstance(s, ast.Expr) and isinstance(s.value, ast.Constant) and isinstance(s.value.value, str))]


def _limit_lookup(fn: ast.FunctionDef) -> str:
    """`limit(self, num)`: which LIMIT node is consulted before merging.

    understood shapes (anything else is Untranslatable):
        [if limit_exp := <lookup>:  num = <merge>(num, int(limit_exp.expression.this))]
        return self.copy(expression=self.expression.limit(num))
    or the same with `limit_exp = <lookup>` followed by `if limit_exp:` / `if limit_exp is not None:`;
    <lookup> is  self.expression.args.get('limit')   -> ownBlock   (the LIMIT of the statement's outer SELECT)
             or  self.expression.args['limit']        -> Untranslatable (raises when absent)
             or  self.expression.find(exp.Limit)      -> wholeTree  (breadth-first over the whole tree, WITH clause included)
    """
    ob = "Gen.Actions.limit"
    args = [a.arg for a in fn.args.args]
    if args != ["self", "num"] or fn.args.vararg or fn.args.kwarg or fn.args.kwonlyargs:
        raise Untranslatable(ob, f"unexpected signature ({', '.join(args)})")
    body = _strip_doc(fn.body)
    if not body or not isinstance(body[-1], ast.Return) or body[-1].value is None:
        raise Untranslatable(ob, "limit does not end in a return")
    ret = ast.unparse(body[-1].value)
    if ret != "self.copy(expression=self.expression.limit(num))":
        raise Untranslatable(ob, f"the LIMIT is not put on a copy of the statement's outer SELECT: {ret[:100]}")
    pre = body[:-1]
    if not pre:
        return "noLookup"
    var, lookup, guard = None, None, None
    if len(pre) == 1 and isinstance(pre[0], ast.If) and isinstance(pre[0].test, ast.NamedExpr):
        guard = pre[0]
        var, lookup = ast.unparse(guard.test.target), guard.test.value
    elif (
        len(pre) == 2
        and isinstance(pre[0], ast.Assign)
        and len(pre[0].targets) == 1
        and isinstance(pre[0].targets[0], ast.Name)
        and isinstance(pre[1], ast.If)
        and ast.unparse(pre[1].test) in (pre[0].targets[0].id, pre[0].targets[0].id + " is not None")
    ):
        guard = pre[1]
        var, lookup = pre[0].targets[0].id, pre[0].value
    else:
        raise Untranslatable(ob, "unexpected statements before the return: " + "; ".join(ast.unparse(x)[:60] for x in pre))
    if guard.orelse or len(guard.body) != 1:
        raise Untranslatable(ob, "the guard has an else branch or more than one statement")
    st = guard.body[0]
    want = re.compile(r"^num = (min|max)\((num, int\(%s\.expression\.this\)|int\(%s\.expression\.this\), num)\)$" % (re.escape(var), re.escape(var)))
    if not want.match(ast.unparse(st)):
        raise Untranslatable(ob, f"unexpected use of the LIMIT found: {ast.unparse(st)[:100]}")
    lk = ast.unparse(lookup)
    if lk == "self.expression.args.get('limit')":
        return "ownBlock"
    if lk == "self.expression.find(exp.Limit)":
        return "wholeTree"
    raise Untranslatable(ob, f"unknown place to look for an existing LIMIT: {lk[:100]}")


def _show_rows(fn: ast.FunctionDef) -> None:
    """show(): the printed rows are `<self | df>.limit(n).collect()`, every one of them is added, in order"""
    ob = "Gen.Actions.show"
    res = [s for s in fn.body if isinstance(s, ast.Assign) and ast.unparse(s.targets[0]) == "result"]
    if len(res) != 1 or ast.unparse(res[0].value) not in ("self.limit(n).collect()", "df.limit(n).collect()"):
        raise Untranslatable(ob, "show() does not take its rows from `limit(n).collect()`")
    loops = [n for n in ast.walk(fn) if isinstance(n, ast.For)]
    if len(loops) != 1 or ast.unparse(loops[0].iter) != "result" or [ast.unparse(x) for x in loops[0].body] != ["table.add_row(list(row))"]:
        raise Untranslatable(ob, "show() does not add every collected row to the table")
    hdr = [n for n in ast.walk(fn) if isinstance(n, ast.Assign) and ast.unparse(n.targets[0]) == "table.field_names"]
    if len(hdr) != 1 or ast.unparse(hdr[0].value) != "row._unique_field_names":
        raise Untranslatable(ob, "show() does not take its header from `row._unique_field_names`")


def _count_expr(fn: ast.FunctionDef) -> None:
    """count(): `select('count(*)', ...)` on the wrapped statement, the answer is the first cell of the first row"""
    ob = "Gen.Actions.count"
    sel = [n for n in ast.walk(fn) if isinstance(n, ast.Call) and isinstance(n.func, ast.Attribute) and n.func.attr == "select"]
    if len(sel) != 1 or len(sel[0].args) != 1 or not (isinstance(sel[0].args[0], ast.Constant) and str(sel[0].args[0].value).replace(" ", "").lower() == "count(*)"):
        raise Untranslatable(ob, "count() does not select count(*)")
    if ast.unparse(sel[0].func.value) != "df.expression":
        raise Untranslatable(ob, f"count() selects from {ast.unparse(sel[0].func.value)[:60]}, not from the wrapped statement")
    body = _strip_doc(fn.body)
    if ast.unparse(body[-1]) != "return df.collect()[0][0]":
        raise Untranslatable(ob, "count() does not return the first cell of the first row")
    # the counting statement is the collected statement frozen into a CTE with the select list replaced -- and nothing else:
    # any further rewrite of it (dropping / editing clauses anywhere in the tree) is not understood
    stmts = [ast.unparse(x) for x in body if not (isinstance(x, ast.If) and ast.unparse(x.test) == "not self.session._has_connection"
                                                   and all(isinstance(y, ast.Raise) for y in x.body) and not x.orelse)]
    want = ["df = self._convert_leaf_to_cte()", "df = self.copy(expression=df.expression.select('count(*)', append=False))", "return df.collect()[0][0]"]
    if stmts != want:
        extra = [x for x in stmts if x not in want]
        raise Untranslatable(ob, "count() does more to the statement than wrap it and select count(*): " + "; ".join(x[:80] for x in (extra or stmts)[:3]))


def gen_actions(repo: str) -> str:
    df = find_class(parse(repo, "sqlframe/base/dataframe.py"), "BaseDataFrame")
    duck = find_class(parse(repo, "sqlframe/duckdb/dataframe.py"), "DuckDBDataFrame")
    ob = "Gen.Actions"
    out = [HEADER, "namespace Sqlframe.Gen", ""]
    collect = find_func(df.body, "collect")
    if ast.unparse(collect.body[-1]) != "return self._collect()":
        raise Untranslatable(ob, "collect is not `return self._collect()`")
    out.append("/-- the `optimize` flag each action hands to `_get_expressions` (the statement list it sends) -/")
    out.append(f"def collectOptimize : Bool := {str(_optimize_flag(find_func(df.body, '_collect'), ob)).lower()}")
    out.append(f"def toPandasOptimize : Bool := {str(_optimize_flag(find_func(df.body, 'toPandas'), ob)).lower()}")
    ta = find_func(duck.body, "toArrow")
    uses_collect = any(
        isinstance(n, ast.Call) and isinstance(n.func, ast.Attribute) and n.func.attr == "_collect" and ast.unparse(n.func.value) == "self"
        for n in ast.walk(ta)
    )
    out.append("/-- DuckDB `toArrow` runs the very statements of `collect` (it calls `self._collect(skip_rows=True)`) -/")
    out.append(f"def toArrowUsesCollect : Bool := {str(uses_collect).lower()}")
    # isEmpty: `return not bool(self.select(F.lit(True)).head())`
    ie = find_func(df.body, "isEmpty")
    ret = [s for s in ie.body if isinstance(s, ast.Return)]
    shape = ast.unparse(ret[0].value) if ret else ""
    ok = shape in ("not bool(self.select(F.lit(True)).head())", "not self.select(F.lit(True)).head()")
    if not ok:
        raise Untranslatable(ob, f"isEmpty has an unknown shape: {shape}")
    out.append("/-- isEmpty = `not bool(self.select(lit(True)).head())` -/")
    out.append("def isEmptyViaSelectHead : Bool := true")
    # first: return self.head()
    fi = find_func(df.body, "first")
    if ast.unparse(fi.body[-1]) != "return self.head()":
        raise Untranslatable(ob, "first is not `return self.head()`")
    out.append("def firstIsHead : Bool := true")
    # head: result for n is None is seq_get(collected, 0), else collected
    hd = find_func(df.body, "head")
    src = ast.unparse(hd)
    if "if n is None:\n        return seq_get(collected, 0)\n    return collected" not in src:
        raise Untranslatable(ob, "head's result selection has an unknown shape")
    out.append("def headNoneReturnsFirst : Bool := true")
    if "collected = df.collect()" not in src:
        raise Untranslatable(ob, "head does not collect the limited DataFrame")
    # limit: which LIMIT node it consults
    out.append("/-- where `limit(n)` looks for a LIMIT to merge with: the statement's outer SELECT (`args.get('limit')`), the first")
    out.append("    LIMIT node anywhere in the tree, CTE bodies included (`find(exp.Limit)`), or nowhere -/")
    out.append("inductive LimitLookup | ownBlock | wholeTree | noLookup deriving DecidableEq, Repr")
    out.append(f"def limitLookup : LimitLookup := .{_limit_lookup(find_func(df.body, 'limit'))}")
    out.append("/-- `limit` returns `self.copy(expression=self.expression.limit(num))`: the new LIMIT goes on a copy of the outer SELECT -/")
    out.append("def limitOnOuterCopy : Bool := true")
    _show_rows(find_func(df.body, "show"))
    out.append("/-- show() prints every row of `limit(n).collect()` under `row._unique_field_names` -/")
    out.append("def showViaLimitCollect : Bool := true")
    _count_expr(find_func(df.body, "count"))
    out.append("/-- count() is the first cell of `select('count(*)')` over the wrapped statement -/")
    out.append("def countStarOverWrapped : Bool := true")
    out.append("")
    out.append("end Sqlframe.Gen")
    return "\n".join(out) + "\n"


GENERATORS = {"Row": gen_row, "Actions": gen_actions}
