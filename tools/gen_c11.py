"""
gen_c11.py — translator part for C11: Gen/Row.lean (Row._unique_field_names as a loop kind + suffix format)
and Gen/Actions.lean (which statement list each action sends: the `optimize` flag handed to
`_get_expressions`, whether show()/count() wrap first, isEmpty's composition).
"""
from __future__ import annotations

import ast

from translate import HEADER, Untranslatable, find_class, find_func, parse


def gen_row(repo: str) -> str:
    cls = find_class(parse(repo, "sqlframe/base/types.py"), "Row")
    fn = find_func(cls.body, "_unique_field_names")
    ob = "Gen.Row.uniqueFieldNames"
    # expected shape:
    #   fields = []
    #   for i, field in enumerate(self.__fields__):
    #       (if|while) field in fields:
    #           field = field + "_" + str(i)
    #       fields.append(field)
    #   return fields
    body = [s for s in fn.body if not (isinstance(s, ast.Expr) and isinstance(s.value, ast.Constant))]
    if len(body) != 3 or not isinstance(body[1], ast.For):
        raise Untranslatable(ob, "unexpected body shape")
    loop = body[1]
    if ast.unparse(loop.target) != "(i, field)" or ast.unparse(loop.iter) != "enumerate(self.__fields__)":
        raise Untranslatable(ob, f"unexpected loop header {ast.unparse(loop.target)} in {ast.unparse(loop.iter)}")
    if len(loop.body) != 2:
        raise Untranslatable(ob, "unexpected loop body")
    guard, app = loop.body
    if isinstance(guard, ast.If):
        kind = "ifOnce"
    elif isinstance(guard, ast.While):
        kind = "whileFresh"
    else:
        raise Untranslatable(ob, "guard is neither if nor while")
    if ast.unparse(guard.test) != "field in fields" or guard.orelse:
        raise Untranslatable(ob, f"unexpected guard {ast.unparse(guard.test)}")
    if len(guard.body) != 1 or ast.unparse(guard.body[0]) != "field = field + '_' + str(i)":
        raise Untranslatable(ob, f"unexpected renaming {ast.unparse(guard.body[0])}")
    if ast.unparse(app) != "fields.append(field)":
        raise Untranslatable(ob, "unexpected append")
    if ast.unparse(body[2]) != "return fields":
        raise Untranslatable(ob, "unexpected return")
    out = [HEADER, "namespace Sqlframe.Gen", ""]
    out.append("inductive UniqueLoop | ifOnce | whileFresh deriving DecidableEq, Repr")
    out.append("/-- `Row._unique_field_names`: a clashing field gets the suffix once (`if`) or until fresh (`while`) -/")
    out.append(f"def uniqueLoop : UniqueLoop := .{kind}")
    out.append('/-- the suffix appended for position i: `"_" + str(i)` -/')
    out.append('def uniqueSuffix (i : Nat) : String := "_" ++ toString i')
    out.append("")
    out.append("end Sqlframe.Gen")
    return "\n".join(out) + "\n"


def _optimize_flag(fn: ast.FunctionDef, ob: str) -> bool:
    calls = [
        n
        for n in ast.walk(fn)
        if isinstance(n, ast.Call) and isinstance(n.func, ast.Attribute) and n.func.attr == "_get_expressions"
    ]
    if len(calls) != 1:
        raise Untranslatable(ob, f"expected one _get_expressions call in {fn.name}, found {len(calls)}")
    for kw in calls[0].keywords:
        if kw.arg == "optimize":
            if isinstance(kw.value, ast.Constant) and isinstance(kw.value.value, bool):
                return kw.value.value
            raise Untranslatable(ob, "optimize= is not a literal")
    return True  # _get_expressions' default


def gen_actions(repo: str) -> str:
    df = find_class(parse(repo, "sqlframe/base/dataframe.py"), "BaseDataFrame")
    duck = find_class(parse(repo, "sqlframe/duckdb/dataframe.py"), "DuckDBDataFrame")
    ob = "Gen.Actions"
    out = [HEADER, "namespace Sqlframe.Gen", ""]
    collect = find_func(df.body, "collect")
    if ast.unparse(collect.body[-1]) != "return self._collect()":
        raise Untranslatable(ob, "collect is not `return self._collect()`")
    out.append("/-- the `optimize` flag each action hands to `_get_expressions` (the statement list it sends) -/")
    out.append(f"def collectOptimize : Bool := {str(_optimize_flag(find_func(df.body, '_collect'), ob)).lower()}")
    out.append(f"def toPandasOptimize : Bool := {str(_optimize_flag(find_func(df.body, 'toPandas'), ob)).lower()}")
    ta = find_func(duck.body, "toArrow")
    uses_collect = any(
        isinstance(n, ast.Call) and isinstance(n.func, ast.Attribute) and n.func.attr == "_collect" and ast.unparse(n.func.value) == "self"
        for n in ast.walk(ta)
    )
    out.append("/-- DuckDB `toArrow` runs the very statements of `collect` (it calls `self._collect(skip_rows=True)`) -/")
    out.append(f"def toArrowUsesCollect : Bool := {str(uses_collect).lower()}")
    # isEmpty: `return not bool(self.select(F.lit(True)).head())`
    ie = find_func(df.body, "isEmpty")
    ret = [s for s in ie.body if isinstance(s, ast.Return)]
    shape = ast.unparse(ret[0].value) if ret else ""
    ok = shape in ("not bool(self.select(F.lit(True)).head())", "not self.select(F.lit(True)).head()")
    if not ok:
        raise Untranslatable(ob, f"isEmpty has an unknown shape: {shape}")
    out.append("/-- isEmpty = `not bool(self.select(lit(True)).head())` -/")
    out.append("def isEmptyViaSelectHead : Bool := true")
    # first: return self.head()
    fi = find_func(df.body, "first")
    if ast.unparse(fi.body[-1]) != "return self.head()":
        raise Untranslatable(ob, "first is not `return self.head()`")
    out.append("def firstIsHead : Bool := true")
    # head: result for n is None is seq_get(collected, 0), else collected
    hd = find_func(df.body, "head")
    src = ast.unparse(hd)
    if "if n is None:\n        return seq_get(collected, 0)\n    return collected" not in src:
        raise Untranslatable(ob, "head's result selection has an unknown shape")
    out.append("def headNoneReturnsFirst : Bool := true")
    out.append("")
    out.append("end Sqlframe.Gen")
    return "\n".join(out) + "\n"


GENERATORS = {"Row": gen_row, "Actions": gen_actions}
