#!/usr/bin/env python3
"""regenerates MANIFEST.json from tools/manifest_src.json (claimed checks) + properties.jsonl"""
import json, os
HERE = os.path.dirname(os.path.abspath(__file__))
ROOT = os.path.dirname(HERE)
src = json.load(open(os.path.join(HERE, "manifest_src.json")))
md = os.path.join(HERE, "manifest.d")
for fn in sorted(os.listdir(md)):
    if fn.endswith(".json") and fn[:-5] in src.get("enabled", []):
        src["checks"][fn[:-5]] = json.load(open(os.path.join(md, fn)))
props = [json.loads(l) for l in open(os.path.join(ROOT, "properties.jsonl"))]
checks = []
na = []
for p in props:
    pid = p["id"]
    c = src["checks"].get(pid)
    if c:
        checks.append({
            "property_id": pid,
            "quick_cmd": f"./check {pid} --tier quick",
            "thorough_cmd": f"./check {pid} --tier thorough",
            "evidence_file": f"evidence/{pid}.json",
            "replay_cmd_template": f"./check {pid} --replay {{path}}",
            "engine": "lean4-model+correspondence",
            "level_claimed": {"category": c.get("category", "proof"), "text": c["text"], "design_ref": c.get("design_ref", f"DESIGN.md §5 {pid}")},
            "level_note": c["note"],
            "technique": c["technique"],
        })
    else:
        na.append({"property_id": pid, "reason": src["not_applicable"].get(pid, "check not built yet in this round; nothing is claimed for it")})
m = {
    "version": 1,
    "setup_cmd": "cd lean && /venv/bin/python ../tools/translate.py && lake build",
    "hooks": {"guard": "SQLFRAME_VERIF", "enable": "no hooks are needed: every observable is reachable from outside (see DESIGN.md §2.5)", "baseline_off_cmd": json.load(open("/root/.vp/BASELINE.json"))["cmd"] if os.path.exists("/root/.vp/BASELINE.json") else src["baseline_cmd"], "source_commits": [], "add_only": True},
    "engines": [{"name": "lean4-model+correspondence", "path": "lean/ + tools/", "serves_properties": [c["property_id"] for c in checks], "kind_free_text": "Lean 4 model + theorems re-checked against a model regenerated from /repo by tools/translate.py, tied to the running code by differential correspondence streams"}],
    "checks": checks,
    "notes": src.get("notes", ""),
    "not_applicable": na,
}
json.dump(m, open(os.path.join(ROOT, "MANIFEST.json"), "w"), indent=1)
print("checks:", [c["property_id"] for c in checks], "na:", len(na))
