#!/usr/bin/env python3
"""run the pinned suite (guard off) and compare the passing set with /root/.vp/BASELINE.json"""
import json, subprocess, sys, xml.etree.ElementTree as ET, os, tempfile
b = json.load(open("/root/.vp/BASELINE.json"))
out = tempfile.mktemp(suffix=".xml")
cmd = b["cmd"].replace("<file>", out)
subprocess.run(cmd, shell=True, stdout=subprocess.DEVNULL, stderr=subprocess.DEVNULL)
passed = set()
for tc in ET.parse(out).getroot().iter("testcase"):
    if not any(ch.tag in ("failure", "error", "skipped") for ch in tc):
        passed.add(f"{tc.get('classname')}::{tc.get('name')}")
os.remove(out)
stable = set(b["stable_pass"])
missing = sorted(stable - passed)
print(f"baseline {len(stable)} passed-now {len(passed)} missing {len(missing)}")
for m in missing[:20]:
    print("  MISSING", m)
sys.exit(1 if missing else 0)
