"""
gen_c02.py — translator part for C02 (joins): sqlframe/base/dataframe.py -> Gen/Joins.lean

Extracted decisions (all from the Python `ast`, sqlframe is never imported)
  * module constant JOIN_TYPE_MAPPING (dict of string literals)                         -> `joinTypeMapping`
  * `join`: the leading `if` statements that rewrite `how`
      `(on is None) and ("cross" not in how)`  ->  how = "cross"
      `(on is not None) and ("cross" in how)`  ->  how = "inner"
    translated test by test into a sequential decision chain                            -> `rewriteHow`
  * `join_type = JOIN_TYPE_MAPPING.get(how, how).replace("_", " ")`                     -> `joinTypeOf`
  * `select_columns = self_columns if join_type in [<lits>] else self_columns + other_columns`
                                                     -> `leftOnlyJoinTypes`, `leftOnlyKeeps`, `selectColumnsOrder`
  * `if join_type != "cross":` (the join types that get no ON clause)                   -> `noConditionJoinType`
  * the name-join branch test `isinstance(join_columns[0].expression, exp.Column)`      -> checked
  * `coalesce(left.sql(..), right.sql(..)).alias(left.alias_or_name) if join_type == "full outer" else left.alias_or_name`
                                                     -> `coalesceJoinType`, `coalesceArgs`, `keyAliasFrom`
  * the de-duplication comprehension `if column_name not in [<join column names>]`      -> `dedupKeysOnly`
  * `select_column_names = join_column_names + select_column_names`                     -> `keysFirst`
  * `_resolve_ambiguous_columns`: `list(reversed(ctes)) if joins[0].side == "right" else ctes`
                                                     -> `resolveReversed`
  * `_handle_join_column_names_only`: left column = first (left-to-right) candidate CTE having the key, `break`
                                                     -> `keyLeftmostFirst`
  * `crossJoin`: `self.join.__wrapped__(self, other, how="cross")`                     -> `crossJoinHow`
  * name branch: which rendering of a column name (`Column.alias_or_name`, quote-preserving, vs
    `expression.alias_or_name`, sqlglot's plain name) each site uses: the select list, the key list, and the
    right-hand side of the de-duplication test        -> `selectNameRender`, `keyNameRender`, `dedupKeyRender`

Gen/JoinMerge.lean (second module):
  * `_add_ctes_to_expression`: the loop over the other side's CTEs as a small symbolic execution: are earlier
    renames applied to a CTE before its name is tested, is the rename recorded under the OLD name (the alias is
    tracked through `cte.set("alias", ..)`), is the new name added to the set of taken names, is every CTE
    appended                                          -> `mergeRenamesBeforeTest`, `mergeKeyIsOldName`, `mergeRecordsNewName`
  * `_expand_star`: `*` = the current select list; `t.*` = the columns of CTE t, qualified with t or bare
                                                     -> `starPlainFromSelect`, `starQualifiedByCte`
  * `_ensure_and_normalize_cols`: stars are expanded before `_resolve_ambiguous_columns` -> `expandBeforeResolve`
  * `select`: star positions are removed from the display-name lists back to front  -> `starPopsBackToFront`

Anything outside this sub-language raises Untranslatable: the module is replaced by its committed baseline and the
obligation is reported broken.
"""
from __future__ import annotations

import ast
import typing as t

from translate import HEADER, Untranslatable, find_class, find_func, lean_str, parse

OB = "Gen.Joins"
SRC = "sqlframe/base/dataframe.py"


def _strip_doc(body: t.Sequence[ast.stmt]) -> t.List[ast.stmt]:
    body = list(body)
    while body and isinstance(body[0], ast.Expr) and isinstance(body[0].value, ast.Constant) and isinstance(body[0].value.value, str):
        body = body[1:]
    return body


def _const_str(node: ast.AST, ob: str) -> str:
    if isinstance(node, ast.Constant) and isinstance(node.value, str):
        return node.value
    raise Untranslatable(ob, f"expected a string literal, got {ast.unparse(node)!r}")


# ----------------------------------------------------------------------------------------------
# JOIN_TYPE_MAPPING
# ----------------------------------------------------------------------------------------------


def _mapping(mod: ast.Module) -> t.List[t.Tuple[str, str]]:
    ob = OB + ".JOIN_TYPE_MAPPING"
    found = [n for n in mod.body if isinstance(n, ast.Assign) and any(isinstance(x, ast.Name) and x.id == "JOIN_TYPE_MAPPING" for x in n.targets)]
    found += [n for n in mod.body if isinstance(n, ast.AnnAssign) and isinstance(n.target, ast.Name) and n.target.id == "JOIN_TYPE_MAPPING"]
    if len(found) != 1:
        raise Untranslatable(ob, f"{len(found)} module-level assignments")
    val = found[0].value
    if not isinstance(val, ast.Dict):
        raise Untranslatable(ob, f"not a dict literal: {ast.unparse(val)[:60]!r}")
    out = []
    for k, v in zip(val.keys, val.values):
        if k is None:
            raise Untranslatable(ob, "dict unpacking")
        out.append((_const_str(k, ob), _const_str(v, ob)))
    if len({k for k, _ in out}) != len(out):
        raise Untranslatable(ob, "duplicate keys")
    # no other statement may touch it
    for n in ast.walk(mod):
        if isinstance(n, (ast.Subscript, ast.Attribute)) and isinstance(getattr(n, "value", None), ast.Name) and n.value.id == "JOIN_TYPE_MAPPING":  # type: ignore
            if isinstance(n, ast.Subscript) or n.attr not in ("get",):  # type: ignore
                raise Untranslatable(ob, f"unsupported use {ast.unparse(n)!r}")
    return out


# ----------------------------------------------------------------------------------------------
# the `how` rewrites
# ----------------------------------------------------------------------------------------------


def _rewrite_test(node: ast.expr, ob: str) -> str:
    """boolean combination of `on is [not] None`, `"lit" [not] in how`, `how ==/!= "lit"` and
    `JOIN_TYPE_MAPPING.get(how, how).replace(a, b) ==/!= "lit"` -> Lean Bool term over the state st = (on is None, how)"""
    if isinstance(node, ast.BoolOp):
        j = " && " if isinstance(node.op, ast.And) else " || "
        return "(" + j.join(_rewrite_test(v, ob) for v in node.values) + ")"
    if isinstance(node, ast.UnaryOp) and isinstance(node.op, ast.Not):
        return "(!" + _rewrite_test(node.operand, ob) + ")"
    if isinstance(node, ast.Compare) and len(node.ops) == 1:
        a, op, b = node.left, node.ops[0], node.comparators[0]
        if isinstance(a, ast.Name) and a.id == "on" and isinstance(b, ast.Constant) and b.value is None:
            if isinstance(op, ast.Is):
                return "st.1"
            if isinstance(op, ast.IsNot):
                return "(!st.1)"
        if isinstance(b, ast.Name) and b.id == "how" and isinstance(a, ast.Constant) and isinstance(a.value, str):
            if isinstance(op, ast.In):
                return f"(strContains {lean_str(a.value)} st.2)"
            if isinstance(op, ast.NotIn):
                return f"(!(strContains {lean_str(a.value)} st.2))"
        if isinstance(b, ast.Constant) and isinstance(b.value, str) and isinstance(op, (ast.Eq, ast.NotEq)):
            sym = "==" if isinstance(op, ast.Eq) else "!="
            if isinstance(a, ast.Name) and a.id == "how":
                return f"(st.2 {sym} {lean_str(b.value)})"
            if ast.unparse(a) == JT_EXPR[0]:
                return f"(joinTypeOf st.2 {sym} {lean_str(b.value)})"
    raise Untranslatable(ob, f"unsupported test {ast.unparse(node)!r}")


JT_EXPR = [""]  # source text of the join_type expression, filled by gen_joins before the rewrites are read


def _is_logger_call(s: ast.stmt) -> bool:
    return (
        isinstance(s, ast.Expr)
        and isinstance(s.value, ast.Call)
        and isinstance(s.value.func, ast.Attribute)
        and isinstance(s.value.func.value, ast.Name)
        and s.value.func.value.id == "logger"
    )


def _rewrites(body: t.List[ast.stmt]) -> t.Tuple[t.List[t.Tuple[str, str]], int]:
    """leading statements of join() up to `other_df = ...`: imports and
    `if <test>: [logger...]; how = <lit>` / `if <test>: [logger...]; on = lit(True)`; returns (test, new state) pairs"""
    ob = OB + ".rewriteArgs"
    out: t.List[t.Tuple[str, str]] = []
    i = 0
    while i < len(body):
        s = body[i]
        if isinstance(s, (ast.ImportFrom, ast.Import)):
            i += 1
            continue
        pre = _assign_to(s, "how")
        if pre is not None:
            # `how = how.lower().replace("_", "")`: a chain of str methods applied to `how`, before every rewrite
            if out or PRE_HOW[0]:
                raise Untranslatable(ob, "how is re-assigned unconditionally after a rewrite")
            PRE_HOW[0] = _str_chain(pre, ob)
            i += 1
            continue
        if isinstance(s, ast.If):
            if s.orelse:
                raise Untranslatable(ob, "rewrite with an else branch")
            stmts = [x for x in s.body if not _is_logger_call(x)]
            if len(stmts) != 1 or not (isinstance(stmts[0], ast.Assign) and len(stmts[0].targets) == 1 and isinstance(stmts[0].targets[0], ast.Name)):
                raise Untranslatable(ob, f"unsupported body {ast.unparse(s)[:80]!r}")
            tgt, val = stmts[0].targets[0].id, stmts[0].value
            if tgt == "how":
                out.append((_rewrite_test(s.test, ob), f"(st.1, {lean_str(_const_str(val, ob))})"))
            elif tgt == "on" and ast.unparse(val) == "lit(True)":
                out.append((_rewrite_test(s.test, ob), "(false, st.2)"))
                ON_TRUE[0] = True
            else:
                raise Untranslatable(ob, f"unsupported assignment {ast.unparse(stmts[0])!r}")
            i += 1
            continue
        break
    return out, i


ON_TRUE = [False]
PRE_HOW: t.List[t.List[str]] = [[]]  # Lean functions applied to `how` before the rewrites, innermost first


def _str_chain(node: ast.expr, ob: str) -> t.List[str]:
    """`how.lower().replace(a, b)...` -> list of Lean String -> String terms, innermost first"""
    if isinstance(node, ast.Name) and node.id == "how":
        return []
    if isinstance(node, ast.Call) and isinstance(node.func, ast.Attribute) and not node.keywords:
        inner = _str_chain(node.func.value, ob)
        m = node.func.attr
        if m == "lower" and not node.args:
            return inner + ["strLower"]
        if m == "replace" and len(node.args) == 2:
            a, b = _const_str(node.args[0], ob), _const_str(node.args[1], ob)
            if len(a) == 1 and b == "":
                return inner + [f"(strRemoveChar {lean_char(a)})"]
            if len(a) == 1 and len(b) == 1:
                return inner + [f"(strReplaceChar {lean_char(a)} {lean_char(b)})"]
    raise Untranslatable(ob, f"unsupported normalisation of how: {ast.unparse(node)!r}")


# ----------------------------------------------------------------------------------------------
# join()
# ----------------------------------------------------------------------------------------------


def _assign_to(s: ast.stmt, name: str) -> t.Optional[ast.expr]:
    if isinstance(s, ast.Assign) and len(s.targets) == 1 and isinstance(s.targets[0], ast.Name) and s.targets[0].id == name:
        return s.value
    if isinstance(s, ast.AnnAssign) and isinstance(s.target, ast.Name) and s.target.id == name and s.value is not None:
        return s.value
    return None


def _find_assign(body: t.Sequence[ast.stmt], name: str, ob: str, which: int = 0) -> ast.expr:
    vals = [v for v in (_assign_to(s, name) for s in body) if v is not None]
    if len(vals) <= which:
        raise Untranslatable(ob, f"assignment to {name} (#{which}) not found")
    return vals[which]


SIDE = {"self_columns": "Side.self", "other_columns": "Side.other"}


def _side_list(node: ast.expr, ob: str) -> t.List[str]:
    if isinstance(node, ast.Name) and node.id in SIDE:
        return [SIDE[node.id]]
    if isinstance(node, ast.BinOp) and isinstance(node.op, ast.Add):
        return _side_list(node.left, ob) + _side_list(node.right, ob)
    raise Untranslatable(ob, f"unsupported column list {ast.unparse(node)!r}")


def _join_parts(fn: ast.FunctionDef) -> t.Dict[str, t.Any]:
    body = _strip_doc(fn.body)
    jts = [v for v in (_assign_to(s_, "join_type") for s_ in body) if v is not None]
    JT_EXPR[0] = ast.unparse(jts[0]) if jts else ""
    ON_TRUE[0] = False
    PRE_HOW[0] = []
    rewrites, i = _rewrites(body)
    rest = body[i:]
    d: t.Dict[str, t.Any] = {"rewrites": rewrites, "onTrue": ON_TRUE[0], "preHow": list(PRE_HOW[0])}
    # does join() make the other side report the name its last CTE has in the merged expression?
    sync = "other_df.expression.ctes[-1].set('alias', join_expression.ctes[-1].args['alias'].copy())"
    touching = [ast.unparse(s_) for s_ in rest if isinstance(s_, ast.Expr) and ast.unparse(s_).startswith("other_df.expression")]
    if touching not in ([], [sync]):
        raise Untranslatable(OB + ".rightNameSynced", f"unsupported statements on other_df.expression: {touching}")
    d["synced"] = touching == [sync]
    # new_df.display_name_mapping = {**X.display_name_mapping, **Y.display_name_mapping}: the later entry wins
    ob_d = OB + ".joinDisplayOrder"
    dm = [s_ for s_ in rest if isinstance(s_, ast.Assign) and ast.unparse(s_.targets[0]) == "new_df.display_name_mapping"]
    if not dm:
        d["displayOrder"] = ["Side.self"]
    elif len(dm) == 1 and isinstance(dm[0].value, ast.Dict) and all(k is None for k in dm[0].value.keys):
        srcs = [ast.unparse(v) for v in dm[0].value.values]
        names = {"self.display_name_mapping": "Side.self", "other_df.display_name_mapping": "Side.other", "other.display_name_mapping": "Side.other"}
        if any(x not in names for x in srcs) or len(set(srcs)) != len(srcs):
            raise Untranslatable(ob_d, f"unsupported merge {srcs}")
        d["displayOrder"] = [names[x] for x in reversed(srcs)]  # precedence: first wins
    else:
        raise Untranslatable(ob_d, "unsupported assignment to new_df.display_name_mapping")
    jx = [ast.unparse(v) for v in (_assign_to(s_, "join_expression") for s_ in rest) if v is not None]
    if jx[:1] != ["self._add_ctes_to_expression(self.expression, other_df.expression.ctes)"] or ast.unparse(_find_assign(rest, "other_df", OB + ".join")) != "other._convert_leaf_to_cte()":
        raise Untranslatable(OB + ".join", f"unsupported merge of the two sides: {jx[:1]}")

    # join_type = JOIN_TYPE_MAPPING.get(how, how).replace("_", " ")
    ob = OB + ".joinTypeOf"
    jt = _find_assign(rest, "join_type", ob)
    ok = (
        isinstance(jt, ast.Call)
        and isinstance(jt.func, ast.Attribute)
        and jt.func.attr == "replace"
        and len(jt.args) == 2
        and not jt.keywords
        and isinstance(jt.func.value, ast.Call)
        and ast.unparse(jt.func.value) == "JOIN_TYPE_MAPPING.get(how, how)"
    )
    if not ok:
        raise Untranslatable(ob, f"unsupported shape {ast.unparse(jt)!r}")
    a, b = _const_str(jt.args[0], ob), _const_str(jt.args[1], ob)
    if len(a) != 1 or len(b) != 1:
        raise Untranslatable(ob, f"replace({a!r}, {b!r}) is not a single-character replacement")
    d["replace"] = (a, b)
    if len([1 for s in rest if _assign_to(s, "join_type") is not None]) != 1 or len([1 for s in ast.walk(fn) if isinstance(s, ast.Assign) and any(isinstance(x, ast.Name) and x.id == "join_type" for x in s.targets)]) != 1:
        raise Untranslatable(ob, "join_type assigned more than once")
    # `how` must not be re-assigned after the rewrites
    for s in rest:
        for n in ast.walk(s):
            if isinstance(n, ast.Assign) and any(isinstance(x, ast.Name) and x.id == "how" for x in n.targets):
                raise Untranslatable(OB + ".rewriteArgs", "how is re-assigned after the leading rewrites")

    # self_columns / other_columns come from the join expression / the other frame
    ob = OB + ".selectColumns"
    sc = ast.unparse(_find_assign(rest, "self_columns", ob))
    oc = ast.unparse(_find_assign(rest, "other_columns", ob))
    if sc != "self._get_outer_select_columns(join_expression)" or oc != "self._get_outer_select_columns(other_df.expression)":
        raise Untranslatable(ob, f"self_columns = {sc}; other_columns = {oc}")
    sel = _find_assign(rest, "select_columns", ob)
    if not (isinstance(sel, ast.IfExp) and isinstance(sel.test, ast.Compare) and len(sel.test.ops) == 1 and isinstance(sel.test.ops[0], ast.In)
            and isinstance(sel.test.left, ast.Name) and sel.test.left.id == "join_type" and isinstance(sel.test.comparators[0], (ast.List, ast.Tuple, ast.Set))):
        raise Untranslatable(ob, f"unsupported shape {ast.unparse(sel)!r}")
    d["leftOnly"] = [_const_str(x, ob) for x in sel.test.comparators[0].elts]
    d["leftOnlyKeeps"] = _side_list(sel.body, ob)
    d["order"] = _side_list(sel.orelse, ob)

    # if join_type != "cross": <name branch | expression branch> else: plain
    ob = OB + ".branches"
    ifs = [s for s in rest if isinstance(s, ast.If)]
    if len(ifs) != 1:
        raise Untranslatable(ob, f"{len(ifs)} top-level if statements after the rewrites")
    top = ifs[0]
    tt = top.test
    if not (isinstance(tt, ast.Compare) and len(tt.ops) == 1 and isinstance(tt.ops[0], ast.NotEq) and isinstance(tt.left, ast.Name) and tt.left.id == "join_type"):
        raise Untranslatable(ob, f"unsupported guard {ast.unparse(tt)!r}")
    d["noCond"] = _const_str(tt.comparators[0], ob)
    else_body = _strip_doc(top.orelse)
    plain = ast.unparse(_find_assign(else_body, "select_column_names", ob))
    if plain != "[column.alias_or_name for column in select_columns]" or ast.unparse(_find_assign(else_body, "join_clause", ob)) != "None":
        raise Untranslatable(ob, f"unsupported no-condition branch {plain!r}")
    inner = [s for s in _strip_doc(top.body) if isinstance(s, ast.If)]
    if len(inner) != 1:
        raise Untranslatable(ob, "name/expression branch not found")
    nb = inner[0]
    if ast.unparse(nb.test) != "isinstance(join_columns[0].expression, exp.Column)":
        raise Untranslatable(ob, f"unsupported name-join test {ast.unparse(nb.test)!r}")
    name_body, expr_body = _strip_doc(nb.body), _strip_doc(nb.orelse)

    # expression branch
    eb = ast.unparse(_find_assign(expr_body, "select_column_names", ob))
    ec = ast.unparse(_find_assign(expr_body, "join_clause", ob))
    if eb != "[column.alias_or_name for column in select_columns]" or ec != "self._normalize_join_clause(join_columns, join_expression)":
        raise Untranslatable(ob, f"unsupported expression branch {eb!r} / {ec!r}")

    # name branch: join_column_names
    ob = OB + ".nameBranch"
    jcn = _find_assign(name_body, "join_column_names", ob)
    if not (isinstance(jcn, ast.ListComp) and len(jcn.generators) == 1 and not jcn.generators[0].ifs and ast.unparse(jcn.generators[0].target) == "(left_col, right_col)"
            and ast.unparse(jcn.generators[0].iter) == "join_column_pairs"):
        raise Untranslatable(ob, f"unsupported join_column_names {ast.unparse(jcn)[:100]!r}")
    e = jcn.elt
    plain_names = {"left_col.alias_or_name": "Side.self", "right_col.alias_or_name": "Side.other",
                   "left_col.expression.alias_or_name": "Side.self", "right_col.expression.alias_or_name": "Side.other"}
    key_render = {"left_col.alias_or_name": "Render.quoted", "right_col.alias_or_name": "Render.quoted",
                  "left_col.expression.alias_or_name": "Render.plain", "right_col.expression.alias_or_name": "Render.plain"}
    if not isinstance(e, ast.IfExp):
        # no COALESCE at all: every key is taken as a plain name
        if ast.unparse(e) not in plain_names:
            raise Untranslatable(ob, f"unsupported join_column_names element {ast.unparse(e)[:100]!r}")
        d["coalesceType"] = None
        d["keyNameRender"] = key_render[ast.unparse(e)]
        d["plainKeyFrom"] = plain_names[ast.unparse(e)]
        d["keyAliasFrom"] = plain_names[ast.unparse(e)]
        d["coalesceArgs"] = []
    else:
        if not (isinstance(e.test, ast.Compare) and len(e.test.ops) == 1 and isinstance(e.test.ops[0], ast.Eq) and isinstance(e.test.left, ast.Name) and e.test.left.id == "join_type"):
            raise Untranslatable(ob, f"unsupported COALESCE condition {ast.unparse(e.test)!r}")
        d["coalesceType"] = _const_str(e.test.comparators[0], ob)
        if ast.unparse(e.orelse) not in plain_names:
            raise Untranslatable(ob, f"unsupported plain key {ast.unparse(e.orelse)!r}")
        d["plainKeyFrom"] = plain_names[ast.unparse(e.orelse)]
        d["keyNameRender"] = key_render[ast.unparse(e.orelse)]
        c = e.body
        if not (isinstance(c, ast.Call) and isinstance(c.func, ast.Attribute) and c.func.attr == "alias" and len(c.args) == 1 and ast.unparse(c.args[0]) in plain_names
                and isinstance(c.func.value, ast.Call) and isinstance(c.func.value.func, ast.Name) and c.func.value.func.id == "coalesce"):
            raise Untranslatable(ob, f"unsupported COALESCE item {ast.unparse(c)[:100]!r}")
        d["keyAliasFrom"] = plain_names[ast.unparse(c.args[0])]
        args = []
        for a_ in c.func.value.args:
            src = ast.unparse(a_)
            if src.startswith("left_col.sql("):
                args.append("Side.self")
            elif src.startswith("right_col.sql("):
                args.append("Side.other")
            else:
                raise Untranslatable(ob, f"unsupported COALESCE argument {src!r}")
        d["coalesceArgs"] = args

    # de-duplication and order
    scn = [v for v in (_assign_to(s, "select_column_names") for s in name_body) if v is not None]
    if len(scn) != 3:
        raise Untranslatable(ob, f"{len(scn)} assignments to select_column_names in the name branch (3 expected)")
    first, dedup, final = scn
    if not (isinstance(first, ast.ListComp) and len(first.generators) == 1 and ast.unparse(first.generators[0].iter) == "select_columns"
            and ast.unparse(first.generators[0].target) == "column" and not first.generators[0].ifs):
        raise Untranslatable(ob, f"unsupported initial select_column_names {ast.unparse(first)[:80]!r}")
    # how each select column is named: `column.alias_or_name` (quote-preserving) or `column.expression.alias_or_name`
    # (plain), optionally guarded by the star test `... if not isinstance(column.expression.this, exp.Star) else column.sql()`
    fe = first.elt
    if isinstance(fe, ast.IfExp):
        if ast.unparse(fe.test) != "not isinstance(column.expression.this, exp.Star)" or ast.unparse(fe.orelse) != "column.sql()":
            raise Untranslatable(ob, f"unsupported select column naming {ast.unparse(fe)[:100]!r}")
        fe = fe.body
    sel_render = {"column.alias_or_name": "Render.quoted", "column.expression.alias_or_name": "Render.plain"}
    if ast.unparse(fe) not in sel_render:
        raise Untranslatable(ob, f"unsupported select column naming {ast.unparse(fe)[:100]!r}")
    d["selectNameRender"] = sel_render[ast.unparse(fe)]
    if not (isinstance(dedup, ast.ListComp) and ast.unparse(dedup.elt) == "column_name" and ast.unparse(dedup.generators[0].iter) == "select_column_names"
            and ast.unparse(dedup.generators[0].target) == "column_name" and len(dedup.generators[0].ifs) == 1):
        raise Untranslatable(ob, f"unsupported de-duplication {ast.unparse(dedup)[:80]!r}")
    cond = dedup.generators[0].ifs[0]
    if not (isinstance(cond, ast.Compare) and len(cond.ops) == 1 and isinstance(cond.ops[0], ast.NotIn) and ast.unparse(cond.left) == "column_name"):
        raise Untranslatable(ob, f"unsupported de-duplication test {ast.unparse(cond)[:80]!r}")
    # the right-hand side: a comprehension (list / set / generator), inline or bound to a name earlier in the branch,
    # over `join_column_names` (the keys as listed) or over `join_column_pairs` (the key columns themselves)
    rhs = cond.comparators[0]
    if isinstance(rhs, ast.Name):
        bound = [v for v in (_assign_to(s, rhs.id) for s in name_body) if v is not None]
        if len(bound) != 1:
            raise Untranslatable(ob, f"de-duplication compares with {rhs.id}, assigned {len(bound)} times")
        rhs = bound[0]
    if not (isinstance(rhs, (ast.ListComp, ast.SetComp, ast.GeneratorExp)) and len(rhs.generators) == 1 and not rhs.generators[0].ifs):
        raise Untranslatable(ob, f"unsupported de-duplication test {ast.unparse(cond)[:80]!r}")
    it, tg, el = ast.unparse(rhs.generators[0].iter), ast.unparse(rhs.generators[0].target), ast.unparse(rhs.elt)
    if it == "join_column_names" and el in (f"{tg}.alias_or_name if not isinstance({tg}, str) else {tg}", f"{tg} if isinstance({tg}, str) else {tg}.alias_or_name"):
        d["dedupKeyRender"] = "none"   # the entries of join_column_names as they are (a COALESCE item by its quote-preserving alias)
    elif it == "join_column_pairs" and tg in ("(left_col, right_col)", "(left_col, _)") and el in key_render and el.startswith("left_col"):
        d["dedupKeyRender"] = "some " + key_render[el]
    else:
        raise Untranslatable(ob, f"unsupported de-duplication test {ast.unparse(cond)[:120]!r}")
    d["dedupKeysOnly"] = True
    fs = ast.unparse(final)
    if fs == "join_column_names + select_column_names":
        d["keysFirst"] = True
    elif fs == "select_column_names + join_column_names":
        d["keysFirst"] = False
    else:
        raise Untranslatable(ob, f"unsupported final select_column_names {fs!r}")
    # the helper that pairs the key columns
    pairs = [s for s in name_body if isinstance(s, ast.Assign) and ast.unparse(s.targets[0]) == "(join_column_pairs, join_clause)"]
    if len(pairs) != 1 or not ast.unparse(pairs[0].value).startswith("self._handle_join_column_names_only(join_columns, join_expression, other_df, table_names)"):
        raise Untranslatable(ob, "call of _handle_join_column_names_only not found")
    return d


def _resolve_order(fn: ast.FunctionDef) -> t.Tuple[str, bool, bool]:
    ob = OB + ".resolveReversed"
    found = []
    for n in ast.walk(fn):
        v = _assign_to(n, "ctes") if isinstance(n, (ast.Assign, ast.AnnAssign)) else None
        if v is not None:
            found.append(v)
    if len(found) != 1:
        raise Untranslatable(ob, f"{len(found)} assignments to ctes")
    v = found[0]
    plain, rev = "self.expression.ctes", "list(reversed(self.expression.ctes))"
    if isinstance(v, ast.IfExp):
        t_ = v.test
        if not (isinstance(t_, ast.Compare) and len(t_.ops) == 1 and isinstance(t_.ops[0], ast.Eq)
                and ast.unparse(t_.left) == "self.expression.args['joins'][0].args.get('side', '')"):
            raise Untranslatable(ob, f"unsupported test {ast.unparse(t_)!r}")
        side = _const_str(t_.comparators[0], ob)
        b, o = ast.unparse(v.body), ast.unparse(v.orelse)
        if {b, o} - {plain, rev}:
            raise Untranslatable(ob, f"unsupported branches {b!r} / {o!r}")
        return side, b == rev, o == rev
    s = ast.unparse(v)
    if s == plain:
        return "", False, False
    if s == rev:
        return "", True, True
    raise Untranslatable(ob, f"unsupported shape {s!r}")


def _key_leftmost(fn: ast.FunctionDef) -> bool:
    """`for cte in potential_ctes: if <has key>: ... break` — the first candidate wins"""
    ob = OB + ".keyLeftmostFirst"
    pot = None
    for s in fn.body:
        v = _assign_to(s, "potential_ctes")
        if v is not None:
            pot = v
    if pot is None or not isinstance(pot, ast.ListComp) or len(pot.generators) != 1:
        raise Untranslatable(ob, "potential_ctes is not a comprehension over join_expression.ctes")
    it = ast.unparse(pot.generators[0].iter)
    if it == "join_expression.ctes":
        list_reversed = False
    elif it in ("reversed(join_expression.ctes)", "join_expression.ctes[::-1]", "list(reversed(join_expression.ctes))"):
        list_reversed = True
    else:
        raise Untranslatable(ob, f"potential_ctes iterates over {it!r}")
    conds = [ast.unparse(c) for c in pot.generators[0].ifs]
    if ast.unparse(pot.elt) != "cte" or conds != ["cte.alias_or_name in table_names and cte.alias_or_name != other_df.latest_cte_name"]:
        raise Untranslatable(ob, f"unsupported candidate filter {conds}")
    for n in ast.walk(fn):
        if isinstance(n, ast.For) and ast.unparse(n.iter) == "potential_ctes":
            ifs = [s for s in n.body if isinstance(s, ast.If)]
            lookup_render = {"join_column.alias_or_name in cte.this.named_selects": "Render.quoted",
                             "join_column.expression.alias_or_name in cte.this.named_selects": "Render.plain"}
            if len(ifs) == 1 and ast.unparse(ifs[0].test) in lookup_render:
                # `named_selects` are plain names: the two renderings differ for a key that needs quoting
                KEY_LOOKUP[0] = lookup_render[ast.unparse(ifs[0].test)]
                has_break = any(isinstance(x, ast.Break) for x in ifs[0].body)
                lc = [ast.unparse(s.value) for s in ifs[0].body if isinstance(s, ast.Assign) and ast.unparse(s.targets[0]) == "left_column"]
                rc = [ast.unparse(s.value) for s in ifs[0].body if isinstance(s, ast.Assign) and ast.unparse(s.targets[0]) == "right_column"]
                if lc != ["join_column.copy().set_table_name(cte.alias_or_name)"] or rc != ["join_column.copy().set_table_name(other_df.latest_cte_name)"]:
                    raise Untranslatable(ob, f"unsupported key pairing {lc} / {rc}")
                if not has_break:
                    raise Untranslatable(ob, "no break after the first matching CTE")
                return not list_reversed
            raise Untranslatable(ob, "unsupported loop body over potential_ctes")
        if isinstance(n, ast.For) and ast.unparse(n.iter) in ("reversed(potential_ctes)", "potential_ctes[::-1]"):
            return list_reversed
    raise Untranslatable(ob, "loop over potential_ctes not found")


KEY_LOOKUP = ["Render.plain"]


def _display_of_string(fn: ast.FunctionDef) -> bool:
    ob = OB + ".stringDisplayIsColumnPart"
    v = _find_assign(_strip_doc(fn.body), "user_display_names", ob)
    if not (isinstance(v, ast.ListComp) and ast.unparse(v.generators[0].iter) == "user_input" and ast.unparse(v.generators[0].target) == "x"):
        raise Untranslatable(ob, f"unsupported shape {ast.unparse(v)[:80]!r}")
    e = ast.unparse(v.elt)
    if e == "x.expression.meta.get('display_name') if isinstance(x, Column) else x":
        return False
    if e == "(x if isinstance(x, Column) else Column.ensure_col(x)).expression.meta.get('display_name', x)":
        return True
    raise Untranslatable(ob, f"unsupported display name expression {e!r}")


def gen_joins(repo: str) -> str:
    mod = parse(repo, SRC)
    cls = find_class(mod, "BaseDataFrame")
    mapping = _mapping(mod)
    join = find_func(cls.body, "join")
    decos = [ast.unparse(d) for d in join.decorator_list]
    if decos != ["operation(Operation.FROM)"]:
        raise Untranslatable(OB + ".join", f"decorators {decos}")
    params = [a.arg for a in join.args.args]
    if params[:4] != ["self", "other", "on", "how"]:
        raise Untranslatable(OB + ".join", f"parameters {params}")
    defaults = [ast.unparse(x) for x in join.args.defaults]
    if defaults != ["None", "'inner'"]:
        raise Untranslatable(OB + ".join", f"defaults {defaults}")
    d = _join_parts(join)
    d["displayColumnPart"] = _display_of_string(find_func(cls.body, "_update_display_name_mapping"))
    side, rev_match, rev_else = _resolve_order(find_func(cls.body, "_resolve_ambiguous_columns"))
    leftmost = _key_leftmost(find_func(cls.body, "_handle_join_column_names_only"))
    cj = find_func(cls.body, "crossJoin")
    ret = [s for s in _strip_doc(cj.body) if isinstance(s, ast.Return)]
    if len(ret) != 1 or not isinstance(ret[0].value, ast.Call) or ast.unparse(ret[0].value.func) != "self.join.__wrapped__":
        raise Untranslatable(OB + ".crossJoin", "unsupported body")
    call = ret[0].value
    kws = {k.arg: k.value for k in call.keywords}
    if [ast.unparse(a) for a in call.args] != ["self", "other"] or set(kws) != {"how"}:
        raise Untranslatable(OB + ".crossJoin", f"unsupported call {ast.unparse(call)!r}")
    cross_how = _const_str(kws["how"], OB + ".crossJoin")

    o: t.List[str] = [HEADER, "namespace Sqlframe.Gen", ""]
    o.append("/-- Python `needle in hay` on strings -/")
    o.append("def strContainsL (n : List Char) : List Char → Bool")
    o.append("  | [] => n.isEmpty")
    o.append("  | c :: cs => n.isPrefixOf (c :: cs) || strContainsL n cs")
    o.append("def strContains (needle hay : String) : Bool := strContainsL needle.toList hay.toList")
    o.append("/-- Python `s.replace(a, b)` for single characters -/")
    o.append("def strReplaceChar (a b : Char) (s : String) : String := String.ofList (s.toList.map (fun c => if c = a then b else c))")
    o.append("/-- Python `s.replace(a, '')` for a single character -/")
    o.append("def strRemoveChar (a : Char) (s : String) : String := String.ofList (s.toList.filter (fun c => c != a))")
    o.append("/-- Python `s.lower()` on the ASCII letters (the only ones that can lower-case into a documented spelling) -/")
    o.append("def asciiLower (c : Char) : Char :=")
    o.append("  match c with")
    for k in range(26):
        o.append(f"  | '{chr(65 + k)}' => '{chr(97 + k)}'")
    o.append("  | c => c")
    o.append("def strLower (s : String) : String := String.ofList (s.toList.map asciiLower)")
    o.append("")
    o.append("/-- JOIN_TYPE_MAPPING -/")
    o.append("def joinTypeMapping : List (String × String) := [")
    o.append(",\n".join(f"  ({lean_str(k)}, {lean_str(v)})" for k, v in mapping))
    o.append("]")
    o.append("def joinTypeLookup (how : String) : List (String × String) → Option String")
    o.append("  | [] => none")
    o.append("  | (k, v) :: rest => if k = how then some v else joinTypeLookup how rest")
    o.append("")
    a, b = d["replace"]
    o.append("/-- `join_type = JOIN_TYPE_MAPPING.get(how, how).replace(a, b)` -/")
    o.append(f"def joinTypeOf (how : String) : String := strReplaceChar {lean_char(a)} {lean_char(b)} ((joinTypeLookup how joinTypeMapping).getD how)")
    o.append("")
    o.append("/-- the rewrites of (`on is None`, `how`) at the top of `join`, in source order; `on = lit(True)` makes `on` non-None -/")
    o.append("def rewriteArgsCore (onNone : Bool) (how : String) : Bool × String :=")
    o.append("  let st : Bool × String := (onNone, how)")
    for test, val in d["rewrites"]:
        o.append(f"  let st := if {test} then {val} else st")
    o.append("  st")
    o.append("/-- what `join` does to `how` before anything reads it (`how = how.lower().replace('_', '')`; identity when absent) -/")
    pre = "how"
    for f in d["preHow"]:
        pre = f"{f} ({pre})" if pre != "how" else f"{f} how"
    o.append(f"def preHow (how : String) : String := {pre}")
    o.append("def rewriteArgs (onNone : Bool) (how : String) : Bool × String := rewriteArgsCore onNone (preHow how)")
    o.append("def rewriteHow (onNone : Bool) (how : String) : String := (rewriteArgs onNone how).2")
    o.append(f"def rewriteCount : Nat := {len(d['rewrites'])}")
    o.append("/-- does `join` hand the other side's *merged* CTE name to `_handle_self_join` / `_handle_join_column_names_only`? -/")
    o.append(f"def rightNameSynced : Bool := {str(d['synced']).lower()}")
    o.append(f"/-- `_update_display_name_mapping`: a plain string `a.c` is displayed as its column part `c` -/")
    o.append(f"def stringDisplayIsColumnPart : Bool := {str(d['displayColumnPart']).lower()}")
    o.append("")
    o.append("inductive Side | self | other deriving DecidableEq, Repr")
    o.append("/-- the two renderings of a column name: `Column.alias_or_name` (quote-preserving: a name that is not a plain identifier")
    o.append("    comes with the input dialect's quotes) and `expression.alias_or_name` (sqlglot's plain name) -/")
    o.append("inductive Render | quoted | plain deriving DecidableEq, Repr")
    o.append("/-- name-join: how the select columns are named, how a plain key is listed in `join_column_names`, and what the")
    o.append("    de-duplication compares a select column name with (`none`: the entries of `join_column_names` as listed) -/")
    o.append(f"def selectNameRender : Render := {d['selectNameRender']}")
    o.append(f"def keyNameRender : Render := {d['keyNameRender']}")
    o.append(f"def dedupKeyRender : Option Render := {d['dedupKeyRender']}")
    o.append("/-- `_handle_join_column_names_only`: the rendering of the key that is looked up in a CTE's `named_selects` (plain names) -/")
    o.append(f"def keyLookupRender : Render := {KEY_LOOKUP[0]}")
    o.append("/-- whose display names (user spelling of a column name) the joined DataFrame keeps, in order of precedence -/")
    o.append("def joinDisplayOrder : List Side := [" + ", ".join(d["displayOrder"]) + "]")
    o.append("/-- join types whose select list is built from one side only -/")
    o.append("def leftOnlyJoinTypes : List String := [" + ", ".join(lean_str(x) for x in d["leftOnly"]) + "]")
    o.append("def leftOnlyKeeps : List Side := [" + ", ".join(d["leftOnlyKeeps"]) + "]")
    o.append("/-- `select_columns` for every other join type -/")
    o.append("def selectColumnsOrder : List Side := [" + ", ".join(d["order"]) + "]")
    o.append("/-- the join type that gets no ON clause -/")
    o.append(f"def noConditionJoinType : String := {lean_str(d['noCond'])}")
    o.append("/-- name-joins: the join type whose key columns are COALESCEd, the argument order, where the alias comes from -/")
    o.append("def coalesceJoinType : Option String := " + (f"some {lean_str(d['coalesceType'])}" if d["coalesceType"] is not None else "none"))
    o.append("def coalesceArgs : List Side := [" + ", ".join(d["coalesceArgs"]) + "]")
    o.append(f"def keyAliasFrom : Side := {d['keyAliasFrom']}")
    o.append(f"def plainKeyFrom : Side := {d['plainKeyFrom']}")
    o.append(f"def dedupKeysOnly : Bool := {str(d['dedupKeysOnly']).lower()}")
    o.append(f"def keysFirst : Bool := {str(d['keysFirst']).lower()}")
    o.append("/-- `_handle_join_column_names_only`: the left key column is taken from the first candidate CTE (left to right) -/")
    o.append(f"def keyLeftmostFirst : Bool := {str(leftmost).lower()}")
    o.append("/-- `_resolve_ambiguous_columns`: is the CTE list walked in reverse, given the side of the first join of the block? -/")
    if side:
        o.append(f"def resolveReversed (firstJoinSide : String) : Bool := if firstJoinSide == {lean_str(side)} then {str(rev_match).lower()} else {str(rev_else).lower()}")
    else:
        o.append(f"def resolveReversed (_firstJoinSide : String) : Bool := {str(rev_else).lower()}")
    o.append(f"def crossJoinHow : String := {lean_str(cross_how)}")
    o.append("")
    o.append("end Sqlframe.Gen")
    return "\n".join(o) + "\n"


# ----------------------------------------------------------------------------------------------
# Gen/JoinMerge.lean: _add_ctes_to_expression, _expand_star, the star handling of select
# ----------------------------------------------------------------------------------------------

OBM = "Gen.JoinMerge"


def _is_call_on(node: ast.AST, recv: str, meth: str) -> bool:
    return isinstance(node, ast.Call) and isinstance(node.func, ast.Attribute) and node.func.attr == meth and ast.unparse(node.func.value) == recv


def _merge_flags(fn: ast.FunctionDef) -> t.Dict[str, bool]:
    """symbolic execution of the loop `for cte in ctes:` of _add_ctes_to_expression"""
    ob = OBM + ".addCtes"
    body = _strip_doc(fn.body)
    params = [a.arg for a in fn.args.args]
    if params != ["self", "expression", "ctes"]:
        raise Untranslatable(ob, f"parameters {params}")
    src = [ast.unparse(x) for x in body]
    if len(body) != 5 or src[0] != "expression = expression.copy()" or src[1] != "with_expression = expression.args.get('with')" \
            or not isinstance(body[2], ast.If) or ast.unparse(body[2].test) != "with_expression" \
            or src[3] != "expression.set('with', exp.With(expressions=existing_ctes))" or src[4] != "return expression":
        raise Untranslatable(ob, "unsupported frame of the function (copy / with / if with_expression / set with / return)")
    top = body[2]
    if [ast.unparse(x) for x in top.orelse] != ["existing_ctes = ctes"]:
        raise Untranslatable(ob, f"unsupported branch for an expression without WITH: {[ast.unparse(x) for x in top.orelse]}")
    pre = [x for x in top.body if not isinstance(x, ast.For)]
    loops = [x for x in top.body if isinstance(x, ast.For)]
    pre_src = sorted(ast.unparse(x).split("  #")[0] for x in pre)
    want = sorted(["existing_ctes = with_expression.expressions", "existing_cte_names = {x.alias_or_name for x in existing_ctes}", "replaced_cte_names = {}"])
    if pre_src != want or len(loops) != 1 or top.body[-1] is not loops[0]:
        raise Untranslatable(ob, f"unsupported set-up before the loop: {pre_src}")
    loop = loops[0]
    if ast.unparse(loop.target) != "cte" or ast.unparse(loop.iter) != "ctes" or loop.orelse:
        raise Untranslatable(ob, f"unsupported loop header {ast.unparse(loop.target)} in {ast.unparse(loop.iter)}")
    renames_before: t.Optional[bool] = None
    seen_test = False
    appended = False
    flags: t.Dict[str, bool] = {}
    for st in loop.body:
        if appended:
            raise Untranslatable(ob, "statements after existing_ctes.append(cte)")
        u = ast.unparse(st)
        if isinstance(st, ast.If) and ast.unparse(st.test) == "replaced_cte_names":
            if [ast.unparse(x) for x in st.body] != ["cte = cte.transform(replace_id_value, replaced_cte_names)"] or st.orelse:
                raise Untranslatable(ob, f"unsupported application of the recorded renames: {u[:120]!r}")
            if seen_test:
                raise Untranslatable(ob, "recorded renames are applied after the name test")
            renames_before = True
        elif u == "cte = cte.transform(replace_id_value, replaced_cte_names)":
            if seen_test:
                raise Untranslatable(ob, "recorded renames are applied after the name test")
            renames_before = True
        elif isinstance(st, ast.If) and ast.unparse(st.test) == "cte.alias_or_name in existing_cte_names":
            if seen_test or st.orelse:
                raise Untranslatable(ob, "unsupported name test")
            seen_test = True
            flags.update(_clash_branch(st.body, ob))
        elif u == "existing_ctes.append(cte)":
            appended = True
        else:
            raise Untranslatable(ob, f"unsupported statement in the loop: {u[:120]!r}")
    if not seen_test or not appended:
        raise Untranslatable(ob, "name test or append not found in the loop")
    flags["mergeRenamesBeforeTest"] = bool(renames_before)
    return flags


def _clash_branch(stmts: t.List[ast.stmt], ob: str) -> t.Dict[str, bool]:
    """the branch taken for a CTE whose name is taken: track what `cte`'s alias is (old / new) statement by statement"""
    new_names: t.Set[str] = set()      # local names holding the new name (a string, an Identifier or a TableAlias made from it)
    alias_is_new = False
    key_old: t.Optional[bool] = None
    records_new = False
    body_rewritten = False

    def is_new_name(node: ast.AST) -> bool:
        """an expression that denotes the new name"""
        if isinstance(node, ast.Name):
            return node.id in new_names
        if isinstance(node, ast.Call) and isinstance(node.func, ast.Name) and node.func.id == "maybe_parse" and node.args:
            kw = {k.arg: ast.unparse(k.value) for k in node.keywords}
            return is_new_name(node.args[0]) and kw.get("into") in ("exp.Identifier", "exp.TableAlias") and set(kw) <= {"dialect", "into"}
        if isinstance(node, ast.Call) and isinstance(node.func, ast.Attribute) and node.func.attr == "copy" and not node.args:
            return is_new_name(node.func.value)
        if isinstance(node, ast.Attribute) and node.attr == "this":
            return is_new_name(node.value)
        if isinstance(node, ast.Call) and ast.unparse(node.func) == "exp.to_identifier" and len(node.args) == 1 and not node.keywords:
            return is_new_name(node.args[0])
        return False

    for st in stmts:
        u = ast.unparse(st)
        if isinstance(st, ast.Assign) and len(st.targets) == 1 and isinstance(st.targets[0], ast.Name):
            tgt = st.targets[0].id
            if tgt == "random_filter" and u == "random_filter = exp.Literal.string(uuid.uuid4().hex)":
                continue
            if tgt == "query" and u == "query = cte.this":
                continue
            if ast.unparse(st.value) == "self._create_hash_from_expression(cte.this)":
                if not body_rewritten:
                    raise Untranslatable(ob, "the new name is hashed before the body was made unique")
                new_names.add(tgt)
                continue
            if is_new_name(st.value):
                new_names.add(tgt)
                continue
            raise Untranslatable(ob, f"unsupported assignment in the renaming branch: {u[:120]!r}")
        if isinstance(st, ast.If) and ast.unparse(st.test) == "not isinstance(query, exp.Select)":
            # a set operation is wrapped into SELECT <its columns> FROM (<it>): value-preserving, only `query` is assigned
            if st.orelse or len(st.body) != 1 or not (isinstance(st.body[0], ast.Assign) and ast.unparse(st.body[0].targets[0]) == "query"):
                raise Untranslatable(ob, f"unsupported rewrite of a non-SELECT body: {u[:120]!r}")
            continue
        if u == "cte.set('this', query.where(exp.EQ(this=random_filter, expression=random_filter)))":
            body_rewritten = True
            continue
        if isinstance(st, ast.Expr) and _is_call_on(st.value, "cte", "set") and len(st.value.args) == 2 and ast.unparse(st.value.args[0]) == "'alias'":
            if not is_new_name(st.value.args[1]):
                raise Untranslatable(ob, f"the clashing CTE's alias is set to something that is not the new name: {u[:120]!r}")
            alias_is_new = True
            continue
        if isinstance(st, ast.Assign) and len(st.targets) == 1 and isinstance(st.targets[0], ast.Subscript) and ast.unparse(st.targets[0].value) == "replaced_cte_names":
            key = ast.unparse(st.targets[0].slice)
            if key not in ("cte.args['alias'].this", "cte.args['alias'].this.copy()"):
                raise Untranslatable(ob, f"unsupported key of the rename mapping: {key!r}")
            if not is_new_name(st.value):
                raise Untranslatable(ob, f"the rename mapping's value is not the new name: {u[:120]!r}")
            if key_old is not None:
                raise Untranslatable(ob, "the rename is recorded twice")
            key_old = not alias_is_new
            continue
        if isinstance(st, ast.Expr) and _is_call_on(st.value, "existing_cte_names", "add") and len(st.value.args) == 1 and is_new_name(st.value.args[0]):
            records_new = True
            continue
        raise Untranslatable(ob, f"unsupported statement in the renaming branch: {u[:120]!r}")
    if not alias_is_new:
        raise Untranslatable(ob, "a CTE whose name is taken keeps its name")
    if key_old is None:
        raise Untranslatable(ob, "the rename is never recorded")
    return {"mergeKeyIsOldName": key_old, "mergeRecordsNewName": records_new}


def _star_flags(cls: ast.ClassDef) -> t.Dict[str, bool]:
    ob = OBM + ".expandStar"
    fn = find_func(cls.body, "_expand_star")
    body = [x for x in _strip_doc(fn.body) if not isinstance(x, (ast.Import, ast.ImportFrom))]
    if len(body) != 2 or not isinstance(body[0], ast.If) or ast.unparse(body[1]) != "return [col]":
        raise Untranslatable(ob, "unsupported frame (if star / elif qualified star / return [col])")
    top = body[0]
    if ast.unparse(top.test) != "isinstance(col.column_expression, exp.Star)" or len(top.body) != 1 or not isinstance(top.body[0], ast.Return):
        raise Untranslatable(ob, f"unsupported plain-star branch {ast.unparse(top.test)!r}")
    plain = ast.unparse(top.body[0].value)
    if plain != "self._get_outer_select_columns(self.expression)":
        raise Untranslatable(ob, f"unsupported expansion of `*`: {plain!r}")
    if len(top.orelse) != 1 or not isinstance(top.orelse[0], ast.If) or top.orelse[0].orelse:
        raise Untranslatable(ob, "qualified-star branch not found")
    q = top.orelse[0]
    want_test = "isinstance(col.column_expression, exp.Column) and isinstance(col.column_expression.this, exp.Star) and col.column_expression.args.get('table')"
    if ast.unparse(q.test) != want_test:
        raise Untranslatable(ob, f"unsupported qualified-star test {ast.unparse(q.test)!r}")
    if len(q.body) != 2 or not isinstance(q.body[0], ast.For) or not isinstance(q.body[1], ast.Raise):
        raise Untranslatable(ob, "unsupported qualified-star branch (for cte ...: if ...: return; raise)")
    loop = q.body[0]
    if ast.unparse(loop.target) != "cte" or ast.unparse(loop.iter) != "self.expression.ctes" or len(loop.body) != 1 or not isinstance(loop.body[0], ast.If):
        raise Untranslatable(ob, f"unsupported search for the star's table: {ast.unparse(loop)[:100]!r}")
    hit = loop.body[0]
    if ast.unparse(hit.test) != "cte.alias_or_name == col.column_expression.args['table'].this" or hit.orelse or len(hit.body) != 1 or not isinstance(hit.body[0], ast.Return):
        raise Untranslatable(ob, f"unsupported table match {ast.unparse(hit.test)!r}")
    ret = hit.body[0].value
    rs = ast.unparse(ret)
    if rs == "self._get_outer_select_columns(cte)":
        qualified = False
    elif (isinstance(ret, ast.ListComp) and len(ret.generators) == 1 and not ret.generators[0].ifs and ast.unparse(ret.generators[0].target) == "x"
          and ast.unparse(ret.generators[0].iter) == "self._get_outer_select_columns(cte)"):
        el = ast.unparse(ret.elt)
        if el in ("Column.ensure_col(exp.column(x.column_alias_or_name, cte.alias_or_name))", "Column(exp.column(x.column_alias_or_name, cte.alias_or_name))"):
            qualified = True
        elif el in ("x", "Column.ensure_col(exp.column(x.column_alias_or_name))", "Column.ensure_col(x.column_alias_or_name)"):
            qualified = False
        else:
            raise Untranslatable(ob, f"unsupported expansion of `t.*`: {el!r}")
    else:
        raise Untranslatable(ob, f"unsupported expansion of `t.*`: {rs[:100]!r}")
    flags = {"starPlainFromSelect": True, "starQualifiedByCte": qualified}

    # _ensure_and_normalize_cols: normalize, then expand the stars, then resolve ambiguous names
    ob2 = OBM + ".ensureAndNormalizeCols"
    en = find_func(cls.body, "_ensure_and_normalize_cols")
    stmts = [ast.unparse(x) for x in _strip_doc(en.body) if not isinstance(x, (ast.Import, ast.ImportFrom))]
    want = [
        "cols = [col.copy() for col in self._ensure_list_of_columns(cols)]",
        "normalize(self.session, expression or self.expression, cols)",
        "if not skip_star_expansion:\n    cols = list(flatten([self._expand_star(col) for col in cols]))",
        "self._resolve_ambiguous_columns(cols)",
        "return cols",
    ]
    if stmts == want:
        flags["expandBeforeResolve"] = True
    elif sorted(stmts) == sorted(want) and stmts[0] == want[0] and stmts[-1] == want[-1] and stmts.index(want[1]) < min(stmts.index(want[2]), stmts.index(want[3])):
        flags["expandBeforeResolve"] = stmts.index(want[2]) < stmts.index(want[3])
    else:
        raise Untranslatable(ob2, f"unsupported body: {stmts}")

    # select: the positions of star arguments are removed from the two display-name lists
    ob3 = OBM + ".selectStarPositions"
    sel = find_func(cls.body, "select")
    pops = [n for n in ast.walk(sel) if isinstance(n, ast.For) and any(_is_call_on(getattr(x, "value", None), "unexpanded_columns", "pop") for x in n.body)]
    if len(pops) != 1:
        raise Untranslatable(ob3, f"{len(pops)} loops removing star positions")
    lp = pops[0]
    if sorted(ast.unparse(x) for x in lp.body) != ["unexpanded_columns.pop(index)", "user_cols.pop(index)"] or ast.unparse(lp.target) != "index":
        raise Untranslatable(ob3, f"unsupported removal {ast.unparse(lp)[:120]!r}")
    it = ast.unparse(lp.iter)
    if it in ("reversed(star_columns)", "star_columns[::-1]", "sorted(star_columns, reverse=True)"):
        flags["starPopsBackToFront"] = True
    elif it in ("star_columns", "sorted(star_columns)"):
        flags["starPopsBackToFront"] = False
    else:
        raise Untranslatable(ob3, f"unsupported order of removal {it!r}")
    finder = [n for n in ast.walk(sel) if isinstance(n, ast.For) and ast.unparse(n.iter) == "enumerate(cols)"]
    if len(finder) != 1 or ast.unparse(finder[0].body[0]) != "if '*' in (user_col if isinstance(user_col, str) else user_col.alias_or_name):\n    star_columns.append(index)":
        raise Untranslatable(ob3, "unsupported detection of star arguments")
    return flags


def gen_join_merge(repo: str) -> str:
    mod = parse(repo, SRC)
    cls = find_class(mod, "BaseDataFrame")
    flags = _merge_flags(find_func(cls.body, "_add_ctes_to_expression"))
    flags.update(_star_flags(cls))
    doc = {
        "mergeRenamesBeforeTest": "`_add_ctes_to_expression`: the renames recorded so far are applied to a CTE (its name and every identifier in its body) before its name is tested",
        "mergeKeyIsOldName": "… the rename of a CTE whose name is taken is recorded under the name it HAD (the key is read before the alias is replaced)",
        "mergeRecordsNewName": "… the new name joins the set of taken names",
        "starPlainFromSelect": "`_expand_star`: `*` is the current select list, by bare name",
        "starQualifiedByCte": "`_expand_star`: `t.*` is the column list of the CTE t, each column qualified with t",
        "expandBeforeResolve": "`_ensure_and_normalize_cols`: stars are expanded before `_resolve_ambiguous_columns` sees the list",
        "starPopsBackToFront": "`select`: the positions of star arguments are removed from the display-name lists back to front",
    }
    o: t.List[str] = [HEADER, "namespace Sqlframe.Gen", ""]
    for k in ["mergeRenamesBeforeTest", "mergeKeyIsOldName", "mergeRecordsNewName", "starPlainFromSelect", "starQualifiedByCte", "expandBeforeResolve", "starPopsBackToFront"]:
        o.append(f"/-- {doc[k]} -/")
        o.append(f"def {k} : Bool := {str(flags[k]).lower()}")
    o.append("")
    o.append("end Sqlframe.Gen")
    return "\n".join(o) + "\n"


def lean_char(c: str) -> str:
    if c == "'":
        return "'\\''"
    if c == "\\":
        return "'\\\\'"
    return "'" + c + "'"


GENERATORS = {"Joins": gen_joins, "JoinMerge": gen_join_merge}
