"""
gen_c02.py — translator part for C02 (joins): sqlframe/base/dataframe.py -> Gen/Joins.lean

Extracted decisions (all from the Python `ast`, sqlframe is never imported)
  * module constant JOIN_TYPE_MAPPING (dict of string literals)                         -> `joinTypeMapping`
  * `join`: the leading `if` statements that rewrite `how`
      `(on is None) and ("cross" not in how)`  ->  how = "cross"
      `(on is not None) and ("cross" in how)`  ->  how = "inner"
    translated test by test into a sequential decision chain                            -> `rewriteHow`
  * `join_type = JOIN_TYPE_MAPPING.get(how, how).replace("_", " ")`                     -> `joinTypeOf`
  * `select_columns = self_columns if join_type in [<lits>] else self_columns + other_columns`
                                                     -> `leftOnlyJoinTypes`, `leftOnlyKeeps`, `selectColumnsOrder`
  * `if join_type != "cross":` (the join types that get no ON clause)                   -> `noConditionJoinType`
  * the name-join branch test `isinstance(join_columns[0].expression, exp.Column)`      -> checked
  * `coalesce(left.sql(..), right.sql(..)).alias(left.alias_or_name) if join_type == "full outer" else left.alias_or_name`
                                                     -> `coalesceJoinType`, `coalesceArgs`, `keyAliasFrom`
  * the de-duplication comprehension `if column_name not in [<join column names>]`      -> `dedupKeysOnly`
  * `select_column_names = join_column_names + select_column_names`                     -> `keysFirst`
  * `_resolve_ambiguous_columns`: `list(reversed(ctes)) if joins[0].side == "right" else ctes`
                                                     -> `resolveReversed`
  * `_handle_join_column_names_only`: left column = first (left-to-right) candidate CTE having the key, `break`
                                                     -> `keyLeftmostFirst`
  * `crossJoin`: `self.join.__wrapped__(self, other, how="cross")`                     -> `crossJoinHow`

Anything outside this sub-language raises Untranslatable: Gen/Joins.lean is removed and every C02 theorem stops building.
"""
from __future__ import annotations

import ast
import typing as t

from translate import HEADER, Untranslatable, find_class, find_func, lean_str, parse

OB = "Gen.Joins"
SRC = "sqlframe/base/dataframe.py"


def _strip_doc(body: t.Sequence[ast.stmt]) -> t.List[ast.stmt]:
    body = list(body)
    while body and isinstance(body[0], ast.Expr) and isinstance(body[0].value, ast.Constant) and isinstance(body[0].value.value, str):
        body = body[1:]
    return body


def _const_str(node: ast.AST, ob: str) -> str:
    if isinstance(node, ast.Constant) and isinstance(node.value, str):
        return node.value
    raise Untranslatable(ob, f"expected a string literal, got {ast.unparse(node)!r}")


# ----------------------------------------------------------------------------------------------
# JOIN_TYPE_MAPPING
# ----------------------------------------------------------------------------------------------


def _mapping(mod: ast.Module) -> t.List[t.Tuple[str, str]]:
    ob = OB + ".JOIN_TYPE_MAPPING"
    found = [n for n in mod.body if isinstance(n, ast.Assign) and any(isinstance(x, ast.Name) and x.id == "JOIN_TYPE_MAPPING" for x in n.targets)]
    found += [n for n in mod.body if isinstance(n, ast.AnnAssign) and isinstance(n.target, ast.Name) and n.target.id == "JOIN_TYPE_MAPPING"]
    if len(found) != 1:
        raise Untranslatable(ob, f"{len(found)} module-level assignments")
    val = found[0].value
    if not isinstance(val, ast.Dict):
        raise Untranslatable(ob, f"not a dict literal: {ast.unparse(val)[:60]!r}")
    out = []
    for k, v in zip(val.keys, val.values):
        if k is None:
            raise Untranslatable(ob, "dict unpacking")
        out.append((_const_str(k, ob), _const_str(v, ob)))
    if len({k for k, _ in out}) != len(out):
        raise Untranslatable(ob, "duplicate keys")
    # no other statement may touch it
    for n in ast.walk(mod):
        if isinstance(n, (ast.Subscript, ast.Attribute)) and isinstance(getattr(n, "value", None), ast.Name) and n.value.id == "JOIN_TYPE_MAPPING":  # type: ignore
            if isinstance(n, ast.Subscript) or n.attr not in ("get",):  # type: ignore
                raise Untranslatable(ob, f"unsupported use {ast.unparse(n)!r}")
    return out


# ----------------------------------------------------------------------------------------------
# the `how` rewrites
# ----------------------------------------------------------------------------------------------


def _rewrite_test(node: ast.expr, ob: str) -> str:
    """boolean combination of `on is [not] None`, `"lit" [not] in how`, `how ==/!= "lit"` and
    `JOIN_TYPE_MAPPING.get(how, how).replace(a, b) ==/!= "lit"` -> Lean Bool term over the state st = (on is None, how)"""
    if isinstance(node, ast.BoolOp):
        j = " && " if isinstance(node.op, ast.And) else " || "
        return "(" + j.join(_rewrite_test(v, ob) for v in node.values) + ")"
    if isinstance(node, ast.UnaryOp) and isinstance(node.op, ast.Not):
        return "(!" + _rewrite_test(node.operand, ob) + ")"
    if isinstance(node, ast.Compare) and len(node.ops) == 1:
        a, op, b = node.left, node.ops[0], node.comparators[0]
        if isinstance(a, ast.Name) and a.id == "on" and isinstance(b, ast.Constant) and b.value is None:
            if isinstance(op, ast.Is):
                return "st.1"
            if isinstance(op, ast.IsNot):
                return "(!st.1)"
        if isinstance(b, ast.Name) and b.id == "how" and isinstance(a, ast.Constant) and isinstance(a.value, str):
            if isinstance(op, ast.In):
                return f"(strContains {lean_str(a.value)} st.2)"
            if isinstance(op, ast.NotIn):
                return f"(!(strContains {lean_str(a.value)} st.2))"
        if isinstance(b, ast.Constant) and isinstance(b.value, str) and isinstance(op, (ast.Eq, ast.NotEq)):
            sym = "==" if isinstance(op, ast.Eq) else "!="
            if isinstance(a, ast.Name) and a.id == "how":
                return f"(st.2 {sym} {lean_str(b.value)})"
            if ast.unparse(a) == JT_EXPR[0]:
                return f"(joinTypeOf st.2 {sym} {lean_str(b.value)})"
    raise Untranslatable(ob, f"unsupported test {ast.unparse(node)!r}")


JT_EXPR = [""]  # source text of the join_type expression, filled by gen_joins before the rewrites are read


def _is_logger_call(s: ast.stmt) -> bool:
    return (
        isinstance(s, ast.Expr)
        and isinstance(s.value, ast.Call)
        and isinstance(s.value.func, ast.Attribute)
        and isinstance(s.value.func.value, ast.Name)
        and s.value.func.value.id == "logger"
    )


def _rewrites(body: t.List[ast.stmt]) -> t.Tuple[t.List[t.Tuple[str, str]], int]:
    """leading statements of join() up to `other_df = ...`: imports and
    `if <test>: [logger...]; how = <lit>` / `if <test>: [logger...]; on = lit(True)`; returns (test, new state) pairs"""
    ob = OB + ".rewriteArgs"
    out: t.List[t.Tuple[str, str]] = []
    i = 0
    while i < len(body):
        s = body[i]
        if isinstance(s, (ast.ImportFrom, ast.Import)):
            i += 1
            continue
        pre = _assign_to(s, "how")
        if pre is not None:
            # `how = how.lower().replace("_", "")`: a chain of str methods applied to `how`, before every rewrite
            if out or PRE_HOW[0]:
                raise Untranslatable(ob, "how is re-assigned unconditionally after a rewrite")
            PRE_HOW[0] = _str_chain(pre, ob)
            i += 1
            continue
        if isinstance(s, ast.If):
            if s.orelse:
                raise Untranslatable(ob, "rewrite with an else branch")
            stmts = [x for x in s.body if not _is_logger_call(x)]
            if len(stmts) != 1 or not (isinstance(stmts[0], ast.Assign) and len(stmts[0].targets) == 1 and isinstance(stmts[0].targets[0], ast.Name)):
                raise Untranslatable(ob, f"unsupported body {ast.unparse(s)[:80]!r}")
            tgt, val = stmts[0].targets[0].id, stmts[0].value
            if tgt == "how":
                out.append((_rewrite_test(s.test, ob), f"(st.1, {lean_str(_const_str(val, ob))})"))
            elif tgt == "on" and ast.unparse(val) == "lit(True)":
                out.append((_rewrite_test(s.test, ob), "(false, st.2)"))
                ON_TRUE[0] = True
            else:
                raise Untranslatable(ob, f"unsupported assignment {ast.unparse(stmts[0])!r}")
            i += 1
            continue
        break
    return out, i


ON_TRUE = [False]
PRE_HOW: t.List[t.List[str]] = [[]]  # Lean functions applied to `how` before the rewrites, innermost first


def _str_chain(node: ast.expr, ob: str) -> t.List[str]:
    """`how.lower().replace(a, b)...` -> list of Lean String -> String terms, innermost first"""
    if isinstance(node, ast.Name) and node.id == "how":
        return []
    if isinstance(node, ast.Call) and isinstance(node.func, ast.Attribute) and not node.keywords:
        inner = _str_chain(node.func.value, ob)
        m = node.func.attr
        if m == "lower" and not node.args:
            return inner + ["strLower"]
        if m == "replace" and len(node.args) == 2:
            a, b = _const_str(node.args[0], ob), _const_str(node.args[1], ob)
            if len(a) == 1 and b == "":
                return inner + [f"(strRemoveChar {lean_char(a)})"]
            if len(a) == 1 and len(b) == 1:
                return inner + [f"(strReplaceChar {lean_char(a)} {lean_char(b)})"]
    raise Untranslatable(ob, f"unsupported normalisation of how: {ast.unparse(node)!r}")


# ----------------------------------------------------------------------------------------------
# join()
# ----------------------------------------------------------------------------------------------


def _assign_to(s: ast.stmt, name: str) -> t.Optional[ast.expr]:
    if isinstance(s, ast.Assign) and len(s.targets) == 1 and isinstance(s.targets[0], ast.Name) and s.targets[0].id == name:
        return s.value
    if isinstance(s, ast.AnnAssign) and isinstance(s.target, ast.Name) and s.target.id == name and s.value is not None:
        return s.value
    return None


def _find_assign(body: t.Sequence[ast.stmt], name: str, ob: str, which: int = 0) -> ast.expr:
    vals = [v for v in (_assign_to(s, name) for s in body) if v is not None]
    if len(vals) <= which:
        raise Untranslatable(ob, f"assignment to {name} (#{which}) not found")
    return vals[which]


SIDE = {"self_columns": "Side.self", "other_columns": "Side.other"}


def _side_list(node: ast.expr, ob: str) -> t.List[str]:
    if isinstance(node, ast.Name) and node.id in SIDE:
        return [SIDE[node.id]]
    if isinstance(node, ast.BinOp) and isinstance(node.op, ast.Add):
        return _side_list(node.left, ob) + _side_list(node.right, ob)
    raise Untranslatable(ob, f"unsupported column list {ast.unparse(node)!r}")


def _join_parts(fn: ast.FunctionDef) -> t.Dict[str, t.Any]:
    body = _strip_doc(fn.body)
    jts = [v for v in (_assign_to(s_, "join_type") for s_ in body) if v is not None]
    JT_EXPR[0] = ast.unparse(jts[0]) if jts else ""
    ON_TRUE[0] = False
    PRE_HOW[0] = []
    rewrites, i = _rewrites(body)
    rest = body[i:]
    d: t.Dict[str, t.Any] = {"rewrites": rewrites, "onTrue": ON_TRUE[0], "preHow": list(PRE_HOW[0])}
    # does join() make the other side report the name its last CTE has in the merged expression?
    sync = "other_df.expression.ctes[-1].set('alias', join_expression.ctes[-1].args['alias'].copy())"
    touching = [ast.unparse(s_) for s_ in rest if isinstance(s_, ast.Expr) and ast.unparse(s_).startswith("other_df.expression")]
    if touching not in ([], [sync]):
        raise Untranslatable(OB + ".rightNameSynced", f"unsupported statements on other_df.expression: {touching}")
    d["synced"] = touching == [sync]
    # new_df.display_name_mapping = {**X.display_name_mapping, **Y.display_name_mapping}: the later entry wins
    ob_d = OB + ".joinDisplayOrder"
    dm = [s_ for s_ in rest if isinstance(s_, ast.Assign) and ast.unparse(s_.targets[0]) == "new_df.display_name_mapping"]
    if not dm:
        d["displayOrder"] = ["Side.self"]
    elif len(dm) == 1 and isinstance(dm[0].value, ast.Dict) and all(k is None for k in dm[0].value.keys):
        srcs = [ast.unparse(v) for v in dm[0].value.values]
        names = {"self.display_name_mapping": "Side.self", "other_df.display_name_mapping": "Side.other", "other.display_name_mapping": "Side.other"}
        if any(x not in names for x in srcs) or len(set(srcs)) != len(srcs):
            raise Untranslatable(ob_d, f"unsupported merge {srcs}")
        d["displayOrder"] = [names[x] for x in reversed(srcs)]  # precedence: first wins
    else:
        raise Untranslatable(ob_d, "unsupported assignment to new_df.display_name_mapping")
    jx = [ast.unparse(v) for v in (_assign_to(s_, "join_expression") for s_ in rest) if v is not None]
    if jx[:1] != ["self._add_ctes_to_expression(self.expression, other_df.expression.ctes)"] or ast.unparse(_find_assign(rest, "other_df", OB + ".join")) != "other._convert_leaf_to_cte()":
        raise Untranslatable(OB + ".join", f"unsupported merge of the two sides: {jx[:1]}")

    # join_type = JOIN_TYPE_MAPPING.get(how, how).replace("_", " ")
    ob = OB + ".joinTypeOf"
    jt = _find_assign(rest, "join_type", ob)
    ok = (
        isinstance(jt, ast.Call)
        and isinstance(jt.func, ast.Attribute)
        and jt.func.attr == "replace"
        and len(jt.args) == 2
        and not jt.keywords
        and isinstance(jt.func.value, ast.Call)
        and ast.unparse(jt.func.value) == "JOIN_TYPE_MAPPING.get(how, how)"
    )
    if not ok:
        raise Untranslatable(ob, f"unsupported shape {ast.unparse(jt)!r}")
    a, b = _const_str(jt.args[0], ob), _const_str(jt.args[1], ob)
    if len(a) != 1 or len(b) != 1:
        raise Untranslatable(ob, f"replace({a!r}, {b!r}) is not a single-character replacement")
    d["replace"] = (a, b)
    if len([1 for s in rest if _assign_to(s, "join_type") is not None]) != 1 or len([1 for s in ast.walk(fn) if isinstance(s, ast.Assign) and any(isinstance(x, ast.Name) and x.id == "join_type" for x in s.targets)]) != 1:
        raise Untranslatable(ob, "join_type assigned more than once")
    # `how` must not be re-assigned after the rewrites
    for s in rest:
        for n in ast.walk(s):
            if isinstance(n, ast.Assign) and any(isinstance(x, ast.Name) and x.id == "how" for x in n.targets):
                raise Untranslatable(OB + ".rewriteArgs", "how is re-assigned after the leading rewrites")

    # self_columns / other_columns come from the join expression / the other frame
    ob = OB + ".selectColumns"
    sc = ast.unparse(_find_assign(rest, "self_columns", ob))
    oc = ast.unparse(_find_assign(rest, "other_columns", ob))
    if sc != "self._get_outer_select_columns(join_expression)" or oc != "self._get_outer_select_columns(other_df.expression)":
        raise Untranslatable(ob, f"self_columns = {sc}; other_columns = {oc}")
    sel = _find_assign(rest, "select_columns", ob)
    if not (isinstance(sel, ast.IfExp) and isinstance(sel.test, ast.Compare) and len(sel.test.ops) == 1 and isinstance(sel.test.ops[0], ast.In)
            and isinstance(sel.test.left, ast.Name) and sel.test.left.id == "join_type" and isinstance(sel.test.comparators[0], (ast.List, ast.Tuple, ast.Set))):
        raise Untranslatable(ob, f"unsupported shape {ast.unparse(sel)!r}")
    d["leftOnly"] = [_const_str(x, ob) for x in sel.test.comparators[0].elts]
    d["leftOnlyKeeps"] = _side_list(sel.body, ob)
    d["order"] = _side_list(sel.orelse, ob)

    # if join_type != "cross": <name branch | expression branch> else: plain
    ob = OB + ".branches"
    ifs = [s for s in rest if isinstance(s, ast.If)]
    if len(ifs) != 1:
        raise Untranslatable(ob, f"{len(ifs)} top-level if statements after the rewrites")
    top = ifs[0]
    tt = top.test
    if not (isinstance(tt, ast.Compare) and len(tt.ops) == 1 and isinstance(tt.ops[0], ast.NotEq) and isinstance(tt.left, ast.Name) and tt.left.id == "join_type"):
        raise Untranslatable(ob, f"unsupported guard {ast.unparse(tt)!r}")
    d["noCond"] = _const_str(tt.comparators[0], ob)
    else_body = _strip_doc(top.orelse)
    plain = ast.unparse(_find_assign(else_body, "select_column_names", ob))
    if plain != "[column.alias_or_name for column in select_columns]" or ast.unparse(_find_assign(else_body, "join_clause", ob)) != "None":
        raise Untranslatable(ob, f"unsupported no-condition branch {plain!r}")
    inner = [s for s in _strip_doc(top.body) if isinstance(s, ast.If)]
    if len(inner) != 1:
        raise Untranslatable(ob, "name/expression branch not found")
    nb = inner[0]
    if ast.unparse(nb.test) != "isinstance(join_columns[0].expression, exp.Column)":
        raise Untranslatable(ob, f"unsupported name-join test {ast.unparse(nb.test)!r}")
    name_body, expr_body = _strip_doc(nb.body), _strip_doc(nb.orelse)

    # expression branch
    eb = ast.unparse(_find_assign(expr_body, "select_column_names", ob))
    ec = ast.unparse(_find_assign(expr_body, "join_clause", ob))
    if eb != "[column.alias_or_name for column in select_columns]" or ec != "self._normalize_join_clause(join_columns, join_expression)":
        raise Untranslatable(ob, f"unsupported expression branch {eb!r} / {ec!r}")

    # name branch: join_column_names
    ob = OB + ".nameBranch"
    jcn = _find_assign(name_body, "join_column_names", ob)
    if not (isinstance(jcn, ast.ListComp) and len(jcn.generators) == 1 and not jcn.generators[0].ifs and ast.unparse(jcn.generators[0].target) == "(left_col, right_col)"
            and ast.unparse(jcn.generators[0].iter) == "join_column_pairs"):
        raise Untranslatable(ob, f"unsupported join_column_names {ast.unparse(jcn)[:100]!r}")
    e = jcn.elt
    plain_names = {"left_col.alias_or_name": "Side.self", "right_col.alias_or_name": "Side.other"}
    if not isinstance(e, ast.IfExp):
        # no COALESCE at all: every key is taken as a plain name
        if ast.unparse(e) not in plain_names:
            raise Untranslatable(ob, f"unsupported join_column_names element {ast.unparse(e)[:100]!r}")
        d["coalesceType"] = None
        d["plainKeyFrom"] = plain_names[ast.unparse(e)]
        d["keyAliasFrom"] = plain_names[ast.unparse(e)]
        d["coalesceArgs"] = []
    else:
        if not (isinstance(e.test, ast.Compare) and len(e.test.ops) == 1 and isinstance(e.test.ops[0], ast.Eq) and isinstance(e.test.left, ast.Name) and e.test.left.id == "join_type"):
            raise Untranslatable(ob, f"unsupported COALESCE condition {ast.unparse(e.test)!r}")
        d["coalesceType"] = _const_str(e.test.comparators[0], ob)
        if ast.unparse(e.orelse) not in plain_names:
            raise Untranslatable(ob, f"unsupported plain key {ast.unparse(e.orelse)!r}")
        d["plainKeyFrom"] = plain_names[ast.unparse(e.orelse)]
        c = e.body
        if not (isinstance(c, ast.Call) and isinstance(c.func, ast.Attribute) and c.func.attr == "alias" and len(c.args) == 1 and ast.unparse(c.args[0]) in plain_names
                and isinstance(c.func.value, ast.Call) and isinstance(c.func.value.func, ast.Name) and c.func.value.func.id == "coalesce"):
            raise Untranslatable(ob, f"unsupported COALESCE item {ast.unparse(c)[:100]!r}")
        d["keyAliasFrom"] = plain_names[ast.unparse(c.args[0])]
        args = []
        for a_ in c.func.value.args:
            src = ast.unparse(a_)
            if src.startswith("left_col.sql("):
                args.append("Side.self")
            elif src.startswith("right_col.sql("):
                args.append("Side.other")
            else:
                raise Untranslatable(ob, f"unsupported COALESCE argument {src!r}")
        d["coalesceArgs"] = args

    # de-duplication and order
    scn = [v for v in (_assign_to(s, "select_column_names") for s in name_body) if v is not None]
    if len(scn) != 3:
        raise Untranslatable(ob, f"{len(scn)} assignments to select_column_names in the name branch (3 expected)")
    first, dedup, final = scn
    if not (isinstance(first, ast.ListComp) and ast.unparse(first.generators[0].iter) == "select_columns" and not first.generators[0].ifs):
        raise Untranslatable(ob, f"unsupported initial select_column_names {ast.unparse(first)[:80]!r}")
    if not (isinstance(dedup, ast.ListComp) and ast.unparse(dedup.elt) == "column_name" and ast.unparse(dedup.generators[0].iter) == "select_column_names"
            and len(dedup.generators[0].ifs) == 1):
        raise Untranslatable(ob, f"unsupported de-duplication {ast.unparse(dedup)[:80]!r}")
    cond = dedup.generators[0].ifs[0]
    if not (isinstance(cond, ast.Compare) and len(cond.ops) == 1 and isinstance(cond.ops[0], ast.NotIn) and ast.unparse(cond.left) == "column_name"
            and isinstance(cond.comparators[0], ast.ListComp) and ast.unparse(cond.comparators[0].generators[0].iter) == "join_column_names"):
        raise Untranslatable(ob, f"unsupported de-duplication test {ast.unparse(cond)[:80]!r}")
    d["dedupKeysOnly"] = True
    fs = ast.unparse(final)
    if fs == "join_column_names + select_column_names":
        d["keysFirst"] = True
    elif fs == "select_column_names + join_column_names":
        d["keysFirst"] = False
    else:
        raise Untranslatable(ob, f"unsupported final select_column_names {fs!r}")
    # the helper that pairs the key columns
    pairs = [s for s in name_body if isinstance(s, ast.Assign) and ast.unparse(s.targets[0]) == "(join_column_pairs, join_clause)"]
    if len(pairs) != 1 or not ast.unparse(pairs[0].value).startswith("self._handle_join_column_names_only(join_columns, join_expression, other_df, table_names)"):
        raise Untranslatable(ob, "call of _handle_join_column_names_only not found")
    return d


def _resolve_order(fn: ast.FunctionDef) -> t.Tuple[str, bool, bool]:
    ob = OB + ".resolveReversed"
    found = []
    for n in ast.walk(fn):
        v = _assign_to(n, "ctes") if isinstance(n, (ast.Assign, ast.AnnAssign)) else None
        if v is not None:
            found.append(v)
    if len(found) != 1:
        raise Untranslatable(ob, f"{len(found)} assignments to ctes")
    v = found[0]
    plain, rev = "self.expression.ctes", "list(reversed(self.expression.ctes))"
    if isinstance(v, ast.IfExp):
        t_ = v.test
        if not (isinstance(t_, ast.Compare) and len(t_.ops) == 1 and isinstance(t_.ops[0], ast.Eq)
                and ast.unparse(t_.left) == "self.expression.args['joins'][0].args.get('side', '')"):
            raise Untranslatable(ob, f"unsupported test {ast.unparse(t_)!r}")
        side = _const_str(t_.comparators[0], ob)
        b, o = ast.unparse(v.body), ast.unparse(v.orelse)
        if {b, o} - {plain, rev}:
            raise Untranslatable(ob, f"unsupported branches {b!r} / {o!r}")
        return side, b == rev, o == rev
    s = ast.unparse(v)
    if s == plain:
        return "", False, False
    if s == rev:
        return "", True, True
    raise Untranslatable(ob, f"unsupported shape {s!r}")


def _key_leftmost(fn: ast.FunctionDef) -> bool:
    """`for cte in potential_ctes: if <has key>: ... break` — the first candidate wins"""
    ob = OB + ".keyLeftmostFirst"
    pot = None
    for s in fn.body:
        v = _assign_to(s, "potential_ctes")
        if v is not None:
            pot = v
    if pot is None or not isinstance(pot, ast.ListComp) or len(pot.generators) != 1:
        raise Untranslatable(ob, "potential_ctes is not a comprehension over join_expression.ctes")
    it = ast.unparse(pot.generators[0].iter)
    if it == "join_expression.ctes":
        list_reversed = False
    elif it in ("reversed(join_expression.ctes)", "join_expression.ctes[::-1]", "list(reversed(join_expression.ctes))"):
        list_reversed = True
    else:
        raise Untranslatable(ob, f"potential_ctes iterates over {it!r}")
    conds = [ast.unparse(c) for c in pot.generators[0].ifs]
    if ast.unparse(pot.elt) != "cte" or conds != ["cte.alias_or_name in table_names and cte.alias_or_name != other_df.latest_cte_name"]:
        raise Untranslatable(ob, f"unsupported candidate filter {conds}")
    for n in ast.walk(fn):
        if isinstance(n, ast.For) and ast.unparse(n.iter) == "potential_ctes":
            ifs = [s for s in n.body if isinstance(s, ast.If)]
            if len(ifs) == 1 and ast.unparse(ifs[0].test) in (
                "join_column.alias_or_name in cte.this.named_selects",
                "join_column.expression.alias_or_name in cte.this.named_selects",  # same test on the unquoted name
            ):
                has_break = any(isinstance(x, ast.Break) for x in ifs[0].body)
                lc = [ast.unparse(s.value) for s in ifs[0].body if isinstance(s, ast.Assign) and ast.unparse(s.targets[0]) == "left_column"]
                rc = [ast.unparse(s.value) for s in ifs[0].body if isinstance(s, ast.Assign) and ast.unparse(s.targets[0]) == "right_column"]
                if lc != ["join_column.copy().set_table_name(cte.alias_or_name)"] or rc != ["join_column.copy().set_table_name(other_df.latest_cte_name)"]:
                    raise Untranslatable(ob, f"unsupported key pairing {lc} / {rc}")
                if not has_break:
                    raise Untranslatable(ob, "no break after the first matching CTE")
                return not list_reversed
            raise Untranslatable(ob, "unsupported loop body over potential_ctes")
        if isinstance(n, ast.For) and ast.unparse(n.iter) in ("reversed(potential_ctes)", "potential_ctes[::-1]"):
            return list_reversed
    raise Untranslatable(ob, "loop over potential_ctes not found")


def _display_of_string(fn: ast.FunctionDef) -> bool:
    ob = OB + ".stringDisplayIsColumnPart"
    v = _find_assign(_strip_doc(fn.body), "user_display_names", ob)
    if not (isinstance(v, ast.ListComp) and ast.unparse(v.generators[0].iter) == "user_input" and ast.unparse(v.generators[0].target) == "x"):
        raise Untranslatable(ob, f"unsupported shape {ast.unparse(v)[:80]!r}")
    e = ast.unparse(v.elt)
    if e == "x.expression.meta.get('display_name') if isinstance(x, Column) else x":
        return False
    if e == "(x if isinstance(x, Column) else Column.ensure_col(x)).expression.meta.get('display_name', x)":
        return True
    raise Untranslatable(ob, f"unsupported display name expression {e!r}")


def gen_joins(repo: str) -> str:
    mod = parse(repo, SRC)
    cls = find_class(mod, "BaseDataFrame")
    mapping = _mapping(mod)
    join = find_func(cls.body, "join")
    decos = [ast.unparse(d) for d in join.decorator_list]
    if decos != ["operation(Operation.FROM)"]:
        raise Untranslatable(OB + ".join", f"decorators {decos}")
    params = [a.arg for a in join.args.args]
    if params[:4] != ["self", "other", "on", "how"]:
        raise Untranslatable(OB + ".join", f"parameters {params}")
    defaults = [ast.unparse(x) for x in join.args.defaults]
    if defaults != ["None", "'inner'"]:
        raise Untranslatable(OB + ".join", f"defaults {defaults}")
    d = _join_parts(join)
    d["displayColumnPart"] = _display_of_string(find_func(cls.body, "_update_display_name_mapping"))
    side, rev_match, rev_else = _resolve_order(find_func(cls.body, "_resolve_ambiguous_columns"))
    leftmost = _key_leftmost(find_func(cls.body, "_handle_join_column_names_only"))
    cj = find_func(cls.body, "crossJoin")
    ret = [s for s in _strip_doc(cj.body) if isinstance(s, ast.Return)]
    if len(ret) != 1 or not isinstance(ret[0].value, ast.Call) or ast.unparse(ret[0].value.func) != "self.join.__wrapped__":
        raise Untranslatable(OB + ".crossJoin", "unsupported body")
    call = ret[0].value
    kws = {k.arg: k.value for k in call.keywords}
    if [ast.unparse(a) for a in call.args] != ["self", "other"] or set(kws) != {"how"}:
        raise Untranslatable(OB + ".crossJoin", f"unsupported call {ast.unparse(call)!r}")
    cross_how = _const_str(kws["how"], OB + ".crossJoin")

    o: t.List[str] = [HEADER, "namespace Sqlframe.Gen", ""]
    o.append("/-- Python `needle in hay` on strings -/")
    o.append("def strContainsL (n : List Char) : List Char → Bool")
    o.append("  | [] => n.isEmpty")
    o.append("  | c :: cs => n.isPrefixOf (c :: cs) || strContainsL n cs")
    o.append("def strContains (needle hay : String) : Bool := strContainsL needle.toList hay.toList")
    o.append("/-- Python `s.replace(a, b)` for single characters -/")
    o.append("def strReplaceChar (a b : Char) (s : String) : String := String.ofList (s.toList.map (fun c => if c = a then b else c))")
    o.append("/-- Python `s.replace(a, '')` for a single character -/")
    o.append("def strRemoveChar (a : Char) (s : String) : String := String.ofList (s.toList.filter (fun c => c != a))")
    o.append("/-- Python `s.lower()` on the ASCII letters (the only ones that can lower-case into a documented spelling) -/")
    o.append("def asciiLower (c : Char) : Char :=")
    o.append("  match c with")
    for k in range(26):
        o.append(f"  | '{chr(65 + k)}' => '{chr(97 + k)}'")
    o.append("  | c => c")
    o.append("def strLower (s : String) : String := String.ofList (s.toList.map asciiLower)")
    o.append("")
    o.append("/-- JOIN_TYPE_MAPPING -/")
    o.append("def joinTypeMapping : List (String × String) := [")
    o.append(",\n".join(f"  ({lean_str(k)}, {lean_str(v)})" for k, v in mapping))
    o.append("]")
    o.append("def joinTypeLookup (how : String) : List (String × String) → Option String")
    o.append("  | [] => none")
    o.append("  | (k, v) :: rest => if k = how then some v else joinTypeLookup how rest")
    o.append("")
    a, b = d["replace"]
    o.append("/-- `join_type = JOIN_TYPE_MAPPING.get(how, how).replace(a, b)` -/")
    o.append(f"def joinTypeOf (how : String) : String := strReplaceChar {lean_char(a)} {lean_char(b)} ((joinTypeLookup how joinTypeMapping).getD how)")
    o.append("")
    o.append("/-- the rewrites of (`on is None`, `how`) at the top of `join`, in source order; `on = lit(True)` makes `on` non-None -/")
    o.append("def rewriteArgsCore (onNone : Bool) (how : String) : Bool × String :=")
    o.append("  let st : Bool × String := (onNone, how)")
    for test, val in d["rewrites"]:
        o.append(f"  let st := if {test} then {val} else st")
    o.append("  st")
    o.append("/-- what `join` does to `how` before anything reads it (`how = how.lower().replace('_', '')`; identity when absent) -/")
    pre = "how"
    for f in d["preHow"]:
        pre = f"{f} ({pre})" if pre != "how" else f"{f} how"
    o.append(f"def preHow (how : String) : String := {pre}")
    o.append("def rewriteArgs (onNone : Bool) (how : String) : Bool × String := rewriteArgsCore onNone (preHow how)")
    o.append("def rewriteHow (onNone : Bool) (how : String) : String := (rewriteArgs onNone how).2")
    o.append(f"def rewriteCount : Nat := {len(d['rewrites'])}")
    o.append("/-- does `join` hand the other side's *merged* CTE name to `_handle_self_join` / `_handle_join_column_names_only`? -/")
    o.append(f"def rightNameSynced : Bool := {str(d['synced']).lower()}")
    o.append(f"/-- `_update_display_name_mapping`: a plain string `a.c` is displayed as its column part `c` -/")
    o.append(f"def stringDisplayIsColumnPart : Bool := {str(d['displayColumnPart']).lower()}")
    o.append("")
    o.append("inductive Side | self | other deriving DecidableEq, Repr")
    o.append("/-- whose display names (user spelling of a column name) the joined DataFrame keeps, in order of precedence -/")
    o.append("def joinDisplayOrder : List Side := [" + ", ".join(d["displayOrder"]) + "]")
    o.append("/-- join types whose select list is built from one side only -/")
    o.append("def leftOnlyJoinTypes : List String := [" + ", ".join(lean_str(x) for x in d["leftOnly"]) + "]")
    o.append("def leftOnlyKeeps : List Side := [" + ", ".join(d["leftOnlyKeeps"]) + "]")
    o.append("/-- `select_columns` for every other join type -/")
    o.append("def selectColumnsOrder : List Side := [" + ", ".join(d["order"]) + "]")
    o.append("/-- the join type that gets no ON clause -/")
    o.append(f"def noConditionJoinType : String := {lean_str(d['noCond'])}")
    o.append("/-- name-joins: the join type whose key columns are COALESCEd, the argument order, where the alias comes from -/")
    o.append("def coalesceJoinType : Option String := " + (f"some {lean_str(d['coalesceType'])}" if d["coalesceType"] is not None else "none"))
    o.append("def coalesceArgs : List Side := [" + ", ".join(d["coalesceArgs"]) + "]")
    o.append(f"def keyAliasFrom : Side := {d['keyAliasFrom']}")
    o.append(f"def plainKeyFrom : Side := {d['plainKeyFrom']}")
    o.append(f"def dedupKeysOnly : Bool := {str(d['dedupKeysOnly']).lower()}")
    o.append(f"def keysFirst : Bool := {str(d['keysFirst']).lower()}")
    o.append("/-- `_handle_join_column_names_only`: the left key column is taken from the first candidate CTE (left to right) -/")
    o.append(f"def keyLeftmostFirst : Bool := {str(leftmost).lower()}")
    o.append("/-- `_resolve_ambiguous_columns`: is the CTE list walked in reverse, given the side of the first join of the block? -/")
    if side:
        o.append(f"def resolveReversed (firstJoinSide : String) : Bool := if firstJoinSide == {lean_str(side)} then {str(rev_match).lower()} else {str(rev_else).lower()}")
    else:
        o.append(f"def resolveReversed (_firstJoinSide : String) : Bool := {str(rev_else).lower()}")
    o.append(f"def crossJoinHow : String := {lean_str(cross_how)}")
    o.append("")
    o.append("end Sqlframe.Gen")
    return "\n".join(o) + "\n"


def lean_char(c: str) -> str:
    if c == "'":
        return "'\\''"
    if c == "\\":
        return "'\\\\'"
    return "'" + c + "'"


GENERATORS = {"Joins": gen_joins}
