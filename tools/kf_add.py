#!/venv/bin/python
"""kf_add.py — add (or replace, by property+id) one open entry of known_findings.json under a file lock.
usage: kf_add.py <entry.json>      entry = {"property": "Cxx", "id": "H_…", "summary": …, "witness": …, "observed": …, "expected": …, "status": "open", …}
       kf_add.py --fixed "fixed: property=Cxx <commit> <what failed>"
Used by builders working at the same time; the check itself never writes this file."""
import fcntl, json, os, sys
ROOT = os.path.dirname(os.path.dirname(os.path.abspath(__file__)))
P = os.path.join(ROOT, "known_findings.json")
with open(P + ".lock", "a") as lk:
    fcntl.flock(lk, fcntl.LOCK_EX)
    k = json.load(open(P))
    if sys.argv[1] == "--fixed":
        if sys.argv[2] not in k["fixed"]:
            k["fixed"].append(sys.argv[2])
    else:
        e = json.load(open(sys.argv[1]))
        assert e.get("property") and e.get("id"), "entry needs property and id"
        e.setdefault("status", "open")
        k["findings"] = [x for x in k["findings"] if not (x.get("property") == e["property"] and x.get("id") == e["id"])] + [e]
    tmp = P + ".tmp"
    json.dump(k, open(tmp, "w"), indent=1)
    os.replace(tmp, P)
print("ok")
