"""
gen_c06.py — translator part for C06 (grouping and aggregation):
sqlframe/base/group.py + sqlframe/base/dataframe.py -> Gen/Group.lean

Extracted decisions
  * GroupedData shortcut methods -> SQL function name (`sum` -> "sum", `mean` -> `self.avg` -> "avg", …)   -> `shortcutTable`
  * the alias f-string of `_get_function_applied_columns` (f"{func_name}({name})", func_name lower-cased)     -> `shortcutAlias`
  * `count()`: `self.agg(F.count("*").alias("count"))`                                                        -> `countArgIsStar`, `countAlias`
  * the decorator of `GroupedData.agg` (`@group_operation(Operation.SELECT)`)                                 -> `groupAggTag`
  * `agg`'s plain branch: GROUP BY on `[x.column_expression for x in self.group_by_cols <if …>]` (un-aliased): WHICH keys
    reach the GROUP BY clause, as a predicate over the sqlglot class of the key's expression (string literal, number
    literal, Boolean, Null, Column, anything else)                                                            -> `KeyClass`, `groupByKeeps`
    select list `group_by_cols + cols`, `append=False`                                                        -> checked shape
  * `agg`'s grouping-set branch (cube): one tuple `[x.column_expression for x in grouping_set <if …>]` per set -> `groupingSetKeeps`
    keys de-duplicated in first-appearance order, select list `group_by_cols + cols`                          -> checked shape
  * which branch is taken (`not self.group_by_cols or not isinstance(self.group_by_cols[0], (list, tuple, set))`): a key list
    is a list of grouping sets only if its first element is a list — in particular a non-empty list of plain keys is never
    turned into a global aggregate                                                                            -> checked shape
  * `DataFrame.agg` = `df.groupBy().agg(*cols)`                                                               -> checked shape
  * `cube`'s loop `for i in reversed(range(len(columns) + 1)): … itertools.combinations(columns, i)`          -> `cubeSizes`
Anything else raises Untranslatable.
"""
from __future__ import annotations

import ast
import typing as t

from translate import HEADER, Untranslatable, find_class, find_func, lean_str, op_ctor, parse

OB = "Gen.Group"


def _strip_doc(body: t.Sequence[ast.stmt]) -> t.List[ast.stmt]:
    body = list(body)
    if body and isinstance(body[0], ast.Expr) and isinstance(body[0].value, ast.Constant) and isinstance(body[0].value.value, str):
        body = body[1:]
    return [s for s in body if not isinstance(s, (ast.Import, ast.ImportFrom))]


def _alias_format(fn: ast.FunctionDef) -> t.Tuple[t.List[t.Tuple[str, str]], bool]:
    """the f-string inside `.alias(self.session._sanitize_column_name(f"..."))` as [('var'|'lit', text)]; lower-casing flag"""
    ob = OB + "._get_function_applied_columns"
    if [a.arg for a in fn.args.args] != ["self", "func_name", "cols"]:
        raise Untranslatable(ob, "parameters changed")
    body = _strip_doc(fn.body)
    lower = False
    if len(body) == 2 and ast.unparse(body[0]) == "func_name = func_name.lower()":
        lower = True
        body = body[1:]
    if len(body) != 1 or not isinstance(body[0], ast.Return) or not isinstance(body[0].value, ast.ListComp):
        raise Untranslatable(ob, "body is not a single list comprehension")
    comp = body[0].value
    if len(comp.generators) != 1 or ast.unparse(comp.generators[0].iter) != "cols" or ast.unparse(comp.generators[0].target) != "name" or comp.generators[0].ifs:
        raise Untranslatable(ob, "comprehension does not iterate `for name in cols`")
    elt = comp.elt
    # getattr(F, func_name)(name).alias(self.session._sanitize_column_name(f"..."))
    if not (isinstance(elt, ast.Call) and isinstance(elt.func, ast.Attribute) and elt.func.attr == "alias" and len(elt.args) == 1):
        raise Untranslatable(ob, "element is not `<call>.alias(...)`")
    if ast.unparse(elt.func.value) != "getattr(F, func_name)(name)":
        raise Untranslatable(ob, f"aggregate call is {ast.unparse(elt.func.value)!r}")
    arg = elt.args[0]
    if isinstance(arg, ast.Call) and ast.unparse(arg.func) == "self.session._sanitize_column_name" and len(arg.args) == 1:
        arg = arg.args[0]
    if not isinstance(arg, ast.JoinedStr):
        raise Untranslatable(ob, "alias is not an f-string")
    parts: t.List[t.Tuple[str, str]] = []
    for v in arg.values:
        if isinstance(v, ast.Constant) and isinstance(v.value, str):
            parts.append(("lit", v.value))
        elif isinstance(v, ast.FormattedValue) and isinstance(v.value, ast.Name) and v.value.id in ("func_name", "name") and v.conversion == -1 and v.format_spec is None:
            parts.append(("var", v.value.id))
        else:
            raise Untranslatable(ob, f"unsupported f-string part {ast.unparse(v)!r}")
    return parts, lower


def _shortcuts(cls: ast.ClassDef) -> t.Tuple[t.List[t.Tuple[str, str]], str, bool]:
    """method -> function name; count alias; count argument is '*'"""
    direct: t.Dict[str, str] = {}
    via: t.Dict[str, str] = {}
    count_alias: t.Optional[str] = None
    star = False
    for st in cls.body:
        if not isinstance(st, ast.FunctionDef) or st.name.startswith("_") or st.name in ("agg", "pivot"):
            continue
        body = _strip_doc(st.body)
        ob = f"{OB}.{st.name}"
        if len(body) != 1 or not isinstance(body[0], ast.Return):
            raise Untranslatable(ob, "body is not a single return")
        v = body[0].value
        src = ast.unparse(v)
        if st.name == "count":
            if not (isinstance(v, ast.Call) and ast.unparse(v.func) == "self.agg" and len(v.args) == 1):
                raise Untranslatable(ob, f"unsupported body {src!r}")
            a = v.args[0]
            if not (isinstance(a, ast.Call) and isinstance(a.func, ast.Attribute) and a.func.attr == "alias" and len(a.args) == 1 and isinstance(a.args[0], ast.Constant)):
                raise Untranslatable(ob, f"count is not aliased by a literal: {src!r}")
            inner = a.func.value
            if not (isinstance(inner, ast.Call) and ast.unparse(inner.func) == "F.count" and len(inner.args) == 1 and isinstance(inner.args[0], ast.Constant)):
                raise Untranslatable(ob, f"unsupported count expression {src!r}")
            star = inner.args[0].value == "*"
            if not star:
                raise Untranslatable(ob, f"count() no longer counts rows: F.count({inner.args[0].value!r})")
            count_alias = a.args[0].value
            continue
        if [a.arg for a in st.args.args] != ["self"] or st.args.vararg is None or st.args.vararg.arg != "cols":
            raise Untranslatable(ob, "signature is not (self, *cols)")
        # return self.agg(*self._get_function_applied_columns("sum", cols))
        if (
            isinstance(v, ast.Call)
            and ast.unparse(v.func) == "self.agg"
            and len(v.args) == 1
            and isinstance(v.args[0], ast.Starred)
            and isinstance(v.args[0].value, ast.Call)
            and ast.unparse(v.args[0].value.func) == "self._get_function_applied_columns"
            and len(v.args[0].value.args) == 2
            and isinstance(v.args[0].value.args[0], ast.Constant)
            and ast.unparse(v.args[0].value.args[1]) == "cols"
        ):
            direct[st.name] = v.args[0].value.args[0].value
        # return self.avg(*cols)
        elif isinstance(v, ast.Call) and isinstance(v.func, ast.Attribute) and ast.unparse(v.func.value) == "self" and [ast.unparse(a) for a in v.args] == ["*cols"] and not v.keywords:
            via[st.name] = v.func.attr
        else:
            raise Untranslatable(ob, f"unsupported body {src!r}")
    table = dict(direct)
    for m, tgt in via.items():
        if tgt not in direct:
            raise Untranslatable(f"{OB}.{m}", f"delegates to unknown shortcut {tgt}")
        table[m] = direct[tgt]
    if count_alias is None:
        raise Untranslatable(OB + ".count", "method not found")
    return sorted(table.items()), count_alias, star


KEY_CLASSES = ["strLit", "numLit", "boolLit", "nullLit", "column", "other"]
# sqlglot class -> the key classes whose expressions are instances of it (as far as the model tells keys apart)
CLASS_SETS = {
    "Literal": {"strLit", "numLit"},
    "Null": {"nullLit"},
    "Boolean": {"boolLit"},
    "Column": {"column"},
    "Expression": set(KEY_CLASSES),
}
KEY_EXPR = "x.column_expression"


def _class_pred(e: ast.expr, ob: str) -> t.Set[str]:
    """the set of key classes a filter condition over `x.column_expression` holds for"""
    if isinstance(e, ast.UnaryOp) and isinstance(e.op, ast.Not):
        return set(KEY_CLASSES) - _class_pred(e.operand, ob)
    if isinstance(e, ast.BoolOp):
        sets = [_class_pred(v, ob) for v in e.values]
        out = sets[0]
        for s_ in sets[1:]:
            out = (out & s_) if isinstance(e.op, ast.And) else (out | s_)
        return out
    if isinstance(e, ast.Call) and ast.unparse(e.func) == "isinstance" and len(e.args) == 2 and not e.keywords and ast.unparse(e.args[0]) == KEY_EXPR:
        names = e.args[1].elts if isinstance(e.args[1], ast.Tuple) else [e.args[1]]
        out: t.Set[str] = set()
        for n in names:
            src = ast.unparse(n)
            cls = src.split(".")[-1]
            if src not in (f"exp.{cls}", f"expression.{cls}", f"sqlglot.exp.{cls}", f"sqlglot.expressions.{cls}") or cls not in CLASS_SETS:
                raise Untranslatable(ob, f"key filter tests an expression class the model does not tell apart: {src!r}")
            out |= CLASS_SETS[cls]
        return out
    if isinstance(e, ast.Attribute) and ast.unparse(e.value) == KEY_EXPR and e.attr in ("is_string", "is_number"):
        return {"strLit"} if e.attr == "is_string" else {"numLit"}
    if isinstance(e, ast.Constant) and isinstance(e.value, bool):
        return set(KEY_CLASSES) if e.value else set()
    raise Untranslatable(ob, f"unsupported key filter {ast.unparse(e)!r}")


def _key_comprehension(comp: ast.expr, source: str, ob: str) -> t.Set[str]:
    """`[x.column_expression for x in <source> <if cond>*]` -> the key classes that are kept"""
    if not isinstance(comp, ast.ListComp) or len(comp.generators) != 1:
        raise Untranslatable(ob, f"GROUP BY list is not a single list comprehension: {ast.unparse(comp)[:90]!r}")
    g = comp.generators[0]
    if ast.unparse(comp.elt) != KEY_EXPR or ast.unparse(g.target) != "x" or ast.unparse(g.iter) != source or g.is_async:
        raise Untranslatable(ob, f"GROUP BY list is not `[{KEY_EXPR} for x in {source} …]`: {ast.unparse(comp)[:90]!r}")
    kept = set(KEY_CLASSES)
    for cond in g.ifs:
        kept &= _class_pred(cond, ob)
    return kept


def _keeps_term(kept: t.Set[str]) -> str:
    if kept == set(KEY_CLASSES):
        return "fun _ => true"
    if not kept:
        return "fun _ => false"
    return "fun c => " + " || ".join(f"c == .{k}" for k in KEY_CLASSES if k in kept)


def _group_by_lists(fn: ast.FunctionDef) -> t.Tuple[t.Set[str], t.Set[str]]:
    """(key classes kept in the plain GROUP BY, key classes kept in a grouping set's tuple)"""
    ob = OB + ".agg"
    plain: t.List[ast.Call] = []
    tuples: t.List[ast.Call] = []
    for n in ast.walk(fn):
        if isinstance(n, ast.Call) and isinstance(n.func, ast.Attribute) and n.func.attr == "group_by":
            plain.append(n)
        if isinstance(n, ast.Call) and ast.unparse(n.func) == "exp.Tuple":
            tuples.append(n)
    if len(plain) != 1 or ast.unparse(plain[0].func.value) != "self._df.expression":  # type: ignore
        raise Untranslatable(ob, "expected exactly one `self._df.expression.group_by(...)` call")
    c = plain[0]
    if len(c.args) != 1 or not isinstance(c.args[0], ast.Starred) or c.keywords:
        raise Untranslatable(ob, f"group_by arguments are not one starred list: {ast.unparse(c)[:90]!r}")
    keep_plain = _key_comprehension(c.args[0].value, "self.group_by_cols", ob)
    # … and it is the statement `expression = self._df.expression.group_by(…).select(…)`
    if not any(
        isinstance(n, ast.Assign)
        and ast.unparse(n.targets[0]) == "expression"
        and isinstance(n.value, ast.Call)
        and isinstance(n.value.func, ast.Attribute)
        and n.value.func.attr == "select"
        and n.value.func.value is c
        for n in ast.walk(fn)
    ):
        raise Untranslatable(ob, "the GROUP BY of the plain branch is not followed by `.select(…)` and assigned to `expression`")
    if len(tuples) != 1:
        raise Untranslatable(ob, "expected exactly one `exp.Tuple(...)` (one per grouping set)")
    tcall = tuples[0]
    if tcall.args or [k.arg for k in tcall.keywords] != ["expressions"]:
        raise Untranslatable(ob, f"grouping-set tuple is not `exp.Tuple(expressions=[…])`: {ast.unparse(tcall)[:90]!r}")
    keep_sets = _key_comprehension(tcall.keywords[0].value, "grouping_set", ob)
    if not any(
        isinstance(n, ast.Call) and ast.unparse(n.func) == "all_grouping_sets.append" and len(n.args) == 1 and n.args[0] is tcall and not n.keywords
        for n in ast.walk(fn)
    ):
        raise Untranslatable(ob, "the grouping-set tuple is not appended to all_grouping_sets")
    return keep_plain, keep_sets


def _agg_shape(fn: ast.FunctionDef) -> str:
    """checks GroupedData.agg against the modelled shape; returns the decorator tag"""
    ob = OB + ".agg"
    tag = None
    for d in fn.decorator_list:
        if isinstance(d, ast.Call) and ast.unparse(d.func) == "group_operation" and len(d.args) == 1 and ast.unparse(d.args[0]).startswith("Operation."):
            tag = ast.unparse(d.args[0]).split(".")[1]
    if tag is None:
        raise Untranslatable(ob, "not decorated with @group_operation(Operation.X)")
    src = ast.unparse(fn)
    needed = [
        # plain branch
        ").select(*[x.expression for x in self.group_by_cols + cols], append=False)",
        "group_by_cols = self.group_by_cols",
        "cols = self._df._ensure_and_normalize_cols(columns)",
        # grouping-set branch
        "for grouping_set in self.group_by_cols:",
        "group_by_cols.extend(grouping_set)",
        "group_by_cols = list(dict.fromkeys(group_by_cols))",
        "group_by = exp.Group(grouping_sets=[exp.GroupingSets(expressions=all_grouping_sets)])",
        "expression.set('group', group_by)",
        "expression = expression.select(*[x.expression for x in group_by_cols + cols], append=False)",
        "if not self.group_by_cols or not isinstance(self.group_by_cols[0], (list, tuple, set)):",
    ]
    for n in needed:
        if n not in src:
            raise Untranslatable(ob, f"statement missing or changed: {n[:90]!r}")
    # the result is a copy of the private DataFrame carrying the new expression (optionally recording display names)
    if "return self._df.copy(expression=expression)" not in src and not (
        "df = self._df.copy(expression=expression)" in src and src.rstrip().endswith("return df")
    ):
        raise Untranslatable(ob, "agg does not return self._df.copy(expression=expression)")
    return tag


def _cube_sizes(fn: ast.FunctionDef) -> str:
    """Lean term (in `n`) for the sequence of subset sizes enumerated by cube"""
    ob = OB + ".cube"
    body = _strip_doc(fn.body)
    src = [ast.unparse(s) for s in body]
    if len(body) != 4 or src[0] != "columns = self._ensure_and_normalize_cols(cols)" or not src[1].startswith("grouping_columns") or src[3] != "return self._group_data(self, grouping_columns, self.last_op)":
        raise Untranslatable(ob, "body left the modelled shape")
    if not (isinstance(body[1], ast.AnnAssign) and ast.unparse(body[1].value) == "[]") and src[1] != "grouping_columns = []":
        raise Untranslatable(ob, "grouping_columns is not initialised empty")
    loop = body[2]
    if not (isinstance(loop, ast.For) and isinstance(loop.target, ast.Name) and not loop.orelse and len(loop.body) == 1):
        raise Untranslatable(ob, "third statement is not the enumeration loop")
    i = loop.target.id
    if ast.unparse(loop.body[0]) != f"grouping_columns.extend([list(x) for x in itertools.combinations(columns, {i})])":
        raise Untranslatable(ob, f"loop body {ast.unparse(loop.body[0])!r}")

    def lin(e: ast.expr) -> str:
        s = ast.unparse(e)
        if s == "len(columns)":
            return "n"
        if isinstance(e, ast.Constant) and isinstance(e.value, int) and e.value >= 0:
            return str(e.value)
        if isinstance(e, ast.BinOp) and isinstance(e.op, ast.Add) and ast.unparse(e.left) == "len(columns)" and isinstance(e.right, ast.Constant) and isinstance(e.right.value, int) and e.right.value >= 0:
            return f"(n + {e.right.value})"
        if isinstance(e, ast.BinOp) and isinstance(e.op, ast.Sub) and ast.unparse(e.left) == "len(columns)" and isinstance(e.right, ast.Constant) and isinstance(e.right.value, int) and e.right.value >= 0:
            return f"(n - {e.right.value})"
        raise Untranslatable(ob, f"unsupported range bound {s!r}")

    it = loop.iter
    rev = False
    if isinstance(it, ast.Call) and ast.unparse(it.func) == "reversed" and len(it.args) == 1:
        rev = True
        it = it.args[0]
    if not (isinstance(it, ast.Call) and ast.unparse(it.func) == "range" and 1 <= len(it.args) <= 2 and not it.keywords):
        raise Untranslatable(ob, f"unsupported loop source {ast.unparse(loop.iter)!r}")
    if len(it.args) == 1:
        term = f"List.range {lin(it.args[0])}"
    else:
        term = f"(List.range {lin(it.args[1])}).drop {lin(it.args[0])}"
    return f"({term}).reverse" if rev else term


def gen_group(repo: str) -> str:
    gmod = parse(repo, "sqlframe/base/group.py")
    gd = find_class(gmod, "_BaseGroupedData")
    parts, lower = _alias_format(find_func(gd.body, "_get_function_applied_columns"))
    table, count_alias, star = _shortcuts(gd)
    tag = _agg_shape(find_func(gd.body, "agg"))
    keep_plain, keep_sets = _group_by_lists(find_func(gd.body, "agg"))
    dmod = parse(repo, "sqlframe/base/dataframe.py")
    df = find_class(dmod, "BaseDataFrame")
    sizes = _cube_sizes(find_func(df.body, "cube"))
    dagg = _strip_doc(find_func(df.body, "agg").body)
    if not dagg or ast.unparse(dagg[-1]) != "return df.groupBy().agg(*cols)":
        raise Untranslatable(OB + ".DataFrame.agg", "does not end in `return df.groupBy().agg(*cols)`")
    gb = _strip_doc(find_func(df.body, "groupBy").body)
    if not gb or ast.unparse(gb[-1]) != "return self._group_data(self, columns, self.last_op)":
        raise Untranslatable(OB + ".DataFrame.groupBy", "does not end in `return self._group_data(self, columns, self.last_op)`")

    alias = " ++ ".join(lean_str(x) if k == "lit" else ("fn" if x == "func_name" else "name") for k, x in parts) or '""'
    out = [HEADER, "import SqlframeModel.Gen.Operations", "namespace Sqlframe.Gen", ""]
    out.append("/-- GroupedData shortcut method -> SQL aggregate function name (delegations like `mean -> self.avg` resolved) -/")
    out.append("def shortcutTable : List (String × String) := [" + ", ".join(f"({lean_str(m)}, {lean_str(f)})" for m, f in table) + "]")
    out.append("")
    out.append("/-- the alias given to a shortcut aggregate: the f-string of `_get_function_applied_columns` -/")
    out.append(f"def shortcutAlias (fn name : String) : String := {alias}")
    out.append(f"def shortcutLowersFunc : Bool := {'true' if lower else 'false'}")
    out.append("")
    out.append("/-- `count()` = `agg(F.count(\"*\").alias(<countAlias>))` -/")
    out.append(f"def countAlias : String := {lean_str(count_alias)}")
    out.append(f"def countArgIsStar : Bool := {'true' if star else 'false'}")
    out.append("")
    out.append("/-- `@group_operation(Operation.X)` on `GroupedData.agg` -/")
    out.append(f"def groupAggTag : Option Op := some Op.{op_ctor(tag)}")
    out.append("")
    out.append("/-- `agg` builds GROUP BY on the un-aliased key expressions and the select list `keys ++ aggregates` (append=False);")
    out.append("    the grouping-set branch builds one tuple per set and the select list `all keys (first-appearance order) ++ aggregates` -/")
    out.append("def aggShapeChecked : Bool := true")
    out.append("")
    out.append("/-- sqlglot class of a key's un-aliased expression (`x.column_expression`), as far as `agg` can tell keys apart:")
    out.append("    `exp.Literal` with / without `is_string`, `exp.Boolean`, `exp.Null`, `exp.Column`, anything else -/")
    out.append("inductive KeyClass | " + " | ".join(KEY_CLASSES))
    out.append("  deriving DecidableEq, Repr")
    out.append("")
    out.append("/-- plain branch: is a key of this class put into the GROUP BY clause?")
    out.append("    (`[x.column_expression for x in self.group_by_cols <if …>]`) -/")
    out.append(f"def groupByKeeps : KeyClass → Bool := {_keeps_term(keep_plain)}")
    out.append("")
    out.append("/-- grouping-set branch: is a key of this class put into the tuple of a grouping set it belongs to?")
    out.append("    (`exp.Tuple(expressions=[x.column_expression for x in grouping_set <if …>])`) -/")
    out.append(f"def groupingSetKeeps : KeyClass → Bool := {_keeps_term(keep_sets)}")
    out.append("")
    out.append("/-- sizes `i` for which `cube` emits `itertools.combinations(columns, i)`, in loop order (n = number of key columns) -/")
    out.append(f"def cubeSizes (n : Nat) : List Nat := {sizes}")
    out.append("")
    out.append("end Sqlframe.Gen")
    return "\n".join(out) + "\n"


GENERATORS = {"Group": gen_group}
