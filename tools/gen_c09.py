"""
gen_c09.py — translator part for C09 (values and declared types): -> Gen/Values.lean

Extracted decisions (Python `ast` only; sqlframe is never imported)
  sqlframe/base/session.py  createDataFrame
    * the nested `get_default_data_type`: its `isinstance` chain IN SOURCE ORDER            -> `inferChain`
      (classes tested, result: a constant type name / the tz split of datetime / struct / map / array)
    * the auto-name comprehension `{f"_{i}": None for i in range(1, len(data[0]) + 1)}`   -> `autoNamePrefix`,
      `autoNameStart`, `autoNameCount`
    * whether Row / dict field names are `.strip()`ped                                    -> `inferredNamesStripped`
    * the per-column select item: CAST (+ alias) when a type is known, bare column else   -> `castTypedColumns`
    * how a dict row becomes a VALUES tuple (`row.values()` = positional)                  -> `dictRowsByKey`
    * every cell goes through `F.lit`                                                      -> checked
  sqlframe/base/session.py  _to_value: aware/naive datetimes come back with tzinfo removed -> `toValueStripsTz`;
      whether a Decimal nested in a list becomes a float                                   -> `toValueDecimalToFloat`
  sqlframe/base/functions.py lit: str -> string literal; +-inf -> string literal           -> `litStrIsStringLiteral`,
      `litInfIsString`
  sqlframe/base/column.py  Column._lit: the ordered test chain (NaN and infinity casts with their
      texts and type, the datetime branch evaluated symbolically)                          -> `litChain`, `litAwareMode`, …
  sqlframe/base/util.py  get_column_mapping_from_schema_input: branch order, the DDL
      separators and indices, the single-token name, list names stripped                   -> `schemaBranchOrder`, `ddl*`

Anything outside these shapes raises Untranslatable (Gen/Values.lean is removed; every C09 theorem stops building).
"""
from __future__ import annotations

import ast
import typing as t

from translate import HEADER, Untranslatable, find_class, find_func, lean_str, parse

OB = "Gen.Values"


def _dotted(n: ast.expr) -> str:
    if isinstance(n, ast.Name):
        return n.id
    if isinstance(n, ast.Attribute):
        return _dotted(n.value) + "." + n.attr
    raise Untranslatable(OB, f"not a class name: {ast.unparse(n)!r}")


def _isinstance_classes(test: ast.expr, var: str, ob: str) -> t.List[str]:
    """`isinstance(<var>, C)` / `isinstance(<var>, (C1, C2))` -> class names"""
    if not (isinstance(test, ast.Call) and isinstance(test.func, ast.Name) and test.func.id == "isinstance" and len(test.args) == 2 and not test.keywords):
        raise Untranslatable(ob, f"test is not an isinstance call: {ast.unparse(test)!r}")
    v, c = test.args
    if not (isinstance(v, ast.Name) and v.id == var):
        raise Untranslatable(ob, f"isinstance on {ast.unparse(v)!r}, expected {var!r}")
    if isinstance(c, ast.Tuple):
        return [_dotted(x) for x in c.elts]
    return [_dotted(c)]


def _if_chain(body: t.Sequence[ast.stmt], ob: str) -> t.Tuple[t.List[t.Tuple[ast.expr, t.List[ast.stmt]]], t.List[ast.stmt]]:
    """a statement list `if a: A  [elif b: B]* ; rest` or a sequence of ifs that all end in return
    -> ([(test, body)], trailing statements)"""
    out: t.List[t.Tuple[ast.expr, t.List[ast.stmt]]] = []
    i = 0
    body = list(body)
    while i < len(body) and isinstance(body[i], ast.If):
        node: ast.If = body[i]  # type: ignore
        while True:
            out.append((node.test, node.body))
            if len(node.orelse) == 1 and isinstance(node.orelse[0], ast.If):
                node = node.orelse[0]
                continue
            if node.orelse:
                raise Untranslatable(ob, "an else branch that is not an elif")
            break
        i += 1
    return out, body[i:]


def _returns(stmts: t.Sequence[ast.stmt]) -> t.List[ast.Return]:
    return [n for s in stmts for n in ast.walk(s) if isinstance(n, ast.Return)]


def _str_consts(node: ast.AST) -> t.List[str]:
    return [n.value for n in ast.walk(node) if isinstance(n, ast.Constant) and isinstance(n.value, str)]


# ------------------------------------------------------------------------------------------------
# createDataFrame
# ------------------------------------------------------------------------------------------------


ROW_BRANCH = (
    "row_types = []\n"
    "for row_name, row_dtype in zip(value.__fields__, value):\n"
    "    default_type = get_default_data_type(row_dtype)\n"
    "    if not default_type:\n"
    "        {untyped}\n"
    "    row_types.append((row_name, default_type))\n"
    "return 'struct<' + ', '.join((f'{{k}}: {{v}}' for k, v in row_types)) + '>'"
)
DICT_BRANCH = (
    "sample_row = seq_get(list(value.items()), 0)\n"
    "if not sample_row:\n"
    "    return None\n"
    "key, value = sample_row\n"
    "default_key = get_default_data_type(key)\n"
    "default_value = get_default_data_type(value)\n"
    "if not default_key or not default_value:\n"
    "    return None\n"
    "return f'map<{default_key}, {default_value}>'"
)
SEQ_BRANCH = (
    "{guard}default_type = get_default_data_type({sample})\n"
    "if not default_type:\n"
    "    return None\n"
    "return f'array<{{default_type}}>'"
)


def _infer_chain(fn: ast.FunctionDef) -> t.Tuple[t.List[t.Tuple[t.List[str], str]], t.Dict[str, t.Any]]:
    """([(classes, result)], decisions): besides the isinstance chain, the decisions that depend on the VALUE rather
    than on its class: a leading `if not value: return None` (every falsy value is untyped), whether an empty
    sequence is tested for, which element of a sequence is sampled, what a Row field of unknown type does to the
    struct type (`continue` = the field is left out; `return None` = no type at all)"""
    ob = OB + ".inferChain"
    if [a.arg for a in fn.args.args] != ["value"]:
        raise Untranslatable(ob, "get_default_data_type parameters changed")
    chain, rest = _if_chain(fn.body, ob)
    if not (len(rest) == 1 and isinstance(rest[0], ast.Return) and isinstance(rest[0].value, ast.Constant) and rest[0].value.value is None):
        raise Untranslatable(ob, "chain does not end in `return None`")
    dec: t.Dict[str, t.Any] = {"falsy_first": False, "struct_untyped": None, "seq_guard": None, "seq_sample": None}
    # guards in front of the isinstance chain
    while chain and not (isinstance(chain[0][0], ast.Call) and ast.unparse(chain[0][0].func) == "isinstance"):
        test, body = chain.pop(0)
        tsrc = ast.unparse(test)
        if not (len(body) == 1 and isinstance(body[0], ast.Return) and isinstance(body[0].value, ast.Constant) and body[0].value.value is None):
            raise Untranslatable(ob, f"a guard in front of the chain that does not `return None`: {tsrc!r}")
        if tsrc == "not value":
            dec["falsy_first"] = True
        elif tsrc == "value is None":
            pass  # the chain gives None for None anyway
        else:
            raise Untranslatable(ob, f"unsupported guard in front of the chain: {tsrc!r}")
    out = []
    for test, body in chain:
        classes = _isinstance_classes(test, "value", ob)
        bsrc = "\n".join(ast.unparse(s) for s in body)
        if len(body) == 1 and isinstance(body[0], ast.Return) and isinstance(body[0].value, ast.Constant) and isinstance(body[0].value.value, str):
            res = f'.prim {lean_str(body[0].value.value)}'
        elif (
            len(body) == 2
            and isinstance(body[0], ast.If)
            and ast.unparse(body[0].test) == "value.tzinfo"
            and not body[0].orelse
            and len(body[0].body) == 1
            and isinstance(body[0].body[0], ast.Return)
            and isinstance(body[0].body[0].value, ast.Constant)
            and isinstance(body[1], ast.Return)
            and isinstance(body[1].value, ast.Constant)
        ):
            res = f".tzSplit {lean_str(body[0].body[0].value.value)} {lean_str(body[1].value.value)}"
        elif bsrc == ROW_BRANCH.format(untyped="continue"):
            res, dec["struct_untyped"] = ".structOf", "skip"
        elif bsrc == ROW_BRANCH.format(untyped="return None"):
            res, dec["struct_untyped"] = ".structOf", "giveUp"
        elif bsrc == DICT_BRANCH:
            res = ".mapOf"
        else:
            res = None
            for guard in (True, False):
                for sample in ("next(iter(value))", "value[0]"):
                    if bsrc == SEQ_BRANCH.format(guard="if not value:\n    return None\n" if guard else "", sample=sample):
                        res, dec["seq_guard"], dec["seq_sample"] = ".arrayOf", guard, "first"
            if res is None:
                raise Untranslatable(ob, f"branch for {classes}: unsupported body {bsrc!r}")
        out.append((classes, res))
    kinds = [r for _, r in out]
    if kinds.count(".structOf") > 1 or kinds.count(".arrayOf") > 1 or kinds.count(".mapOf") > 1:
        raise Untranslatable(ob, "more than one struct / array / map branch")
    if ".arrayOf" in kinds and not dec["seq_guard"] and not dec["falsy_first"]:
        raise Untranslatable(ob, "an empty sequence is sampled without a test (StopIteration / IndexError)")
    return out, dec


def _sample_row(cdf: ast.FunctionDef) -> None:
    """types are inferred from `rows[0]`, by name for Row / dict rows and by position otherwise"""
    ob = OB + ".sampleRow"
    src = ast.unparse(cdf)
    if src.count("sample_row = rows[0]") != 1:
        raise Untranslatable(ob, "the sampled row is no longer `rows[0]`")
    for frag in ("get_default_data_type(sample_row[name])", "get_default_data_type(sample_row[i])",
                 "exp.DataType.build(default_data_type, dialect='spark') if default_data_type else None"):
        if frag not in src:
            raise Untranslatable(ob, f"the per-column inference no longer contains {frag!r}")
    if src.count("get_default_data_type(") != 1 + 4 + 2:  # the def, the recursive calls of the composite branches, two call sites
        raise Untranslatable(ob, "unexpected number of get_default_data_type call sites")


def _auto_names(cdf: ast.FunctionDef) -> t.Tuple[str, int, int]:
    """(prefix, start, count offset) of the auto-name comprehension"""
    ob = OB + ".autoNames"
    found = []
    for n in ast.walk(cdf):
        if isinstance(n, ast.DictComp) and isinstance(n.key, ast.JoinedStr) and len(n.generators) == 1:
            g = n.generators[0]
            if isinstance(g.iter, ast.Call) and isinstance(g.iter.func, ast.Name) and g.iter.func.id == "range":
                found.append(n)
    if len(found) != 1:
        raise Untranslatable(ob, f"expected one auto-name comprehension, found {len(found)}")
    n = found[0]
    g = n.generators[0]
    if not (isinstance(g.target, ast.Name) and not g.ifs):
        raise Untranslatable(ob, "unsupported comprehension target / filter")
    var = g.target.id
    parts = n.key.values
    prefix = ""
    seen_var = False
    for p in parts:
        if isinstance(p, ast.Constant) and isinstance(p.value, str) and not seen_var:
            prefix += p.value
        elif isinstance(p, ast.FormattedValue) and isinstance(p.value, ast.Name) and p.value.id == var and p.format_spec is None and p.conversion == -1 and not seen_var:
            seen_var = True
        else:
            raise Untranslatable(ob, f"unsupported name format {ast.unparse(n.key)!r}")
    if not seen_var:
        raise Untranslatable(ob, "name does not mention the index")
    args = g.iter.args
    if len(args) != 2 or not (isinstance(args[0], ast.Constant) and isinstance(args[0].value, int)):
        raise Untranslatable(ob, f"unsupported range {ast.unparse(g.iter)!r}")
    start = args[0].value
    end = args[1]
    # len(data[0]) + k   or   len(data[0])
    if ast.unparse(end) == "len(data[0])":
        k = 0
    elif isinstance(end, ast.BinOp) and isinstance(end.op, ast.Add) and ast.unparse(end.left) == "len(data[0])" and isinstance(end.right, ast.Constant) and isinstance(end.right.value, int):
        k = end.right.value
    else:
        raise Untranslatable(ob, f"unsupported range end {ast.unparse(end)!r}")
    if not (isinstance(n.value, ast.Constant) and n.value.value is None):
        raise Untranslatable(ob, "auto-named columns are given a type")
    if start < 0 or k - start < -1000:
        raise Untranslatable(ob, "negative start")
    return prefix, start, k


def _names_stripped(cdf: ast.FunctionDef) -> bool:
    ob = OB + ".inferredNames"
    comps = [n for n in ast.walk(cdf) if isinstance(n, ast.DictComp) and len(n.generators) == 1 and ast.unparse(n.generators[0].iter) in ("data[0].__fields__", "data[0]")]
    if len(comps) != 2:
        raise Untranslatable(ob, f"expected the Row and dict name comprehensions, found {len(comps)}")
    keys = {ast.unparse(c.key) for c in comps}
    if keys == {"col_name.strip()"}:
        return True
    if keys == {"col_name"}:
        return False
    raise Untranslatable(ob, f"unsupported key expressions {sorted(keys)}")


def _cast_typed(cdf: ast.FunctionDef) -> bool:
    ob = OB + ".castTypedColumns"
    for n in ast.walk(cdf):
        if isinstance(n, ast.Assign) and len(n.targets) == 1 and ast.unparse(n.targets[0]) == "sel_columns" and isinstance(n.value, ast.ListComp):
            elt = n.value.elt
            if ast.unparse(n.value.generators[0].iter) != "column_mapping.items()":
                raise Untranslatable(ob, "select list no longer built from column_mapping")
            if not isinstance(elt, ast.IfExp):
                raise Untranslatable(ob, f"unsupported select item {ast.unparse(elt)!r}")
            if ast.unparse(elt.test) != "data_type is not None":
                raise Untranslatable(ob, f"unsupported condition {ast.unparse(elt.test)!r}")
            typed, untyped = ast.unparse(elt.body), ast.unparse(elt.orelse)
            if untyped != "F.col(name).expression":
                raise Untranslatable(ob, f"unsupported untyped item {untyped!r}")
            if typed == "F.col(name).cast(data_type).alias(name).expression":
                return True
            if typed in ("F.col(name).alias(name).expression", "F.col(name).expression"):
                return False
            raise Untranslatable(ob, f"unsupported typed item {typed!r}")
    raise Untranslatable(ob, "sel_columns assignment not found")


def _dict_rows(cdf: ast.FunctionDef) -> bool:
    """True iff dict rows are turned into VALUES tuples by key (in column order); False = positional `.values()`"""
    ob = OB + ".dictRowsByKey"
    hits = []
    for n in ast.walk(cdf):
        if isinstance(n, ast.If) and ast.unparse(n.test) == "isinstance(row, dict)":
            hits.append(n)
    if len(hits) != 1:
        raise Untranslatable(ob, f"expected one `if isinstance(row, dict)` in the VALUES loop, found {len(hits)}")
    if hits[0].orelse:
        raise Untranslatable(ob, "unsupported dict-row conversion (else branch)")
    # every assignment to `row` reachable inside the dict branch (the branch may itself decide between several)
    assigns = [n for st in hits[0].body for n in ast.walk(st) if isinstance(n, ast.Assign) and len(n.targets) == 1 and ast.unparse(n.targets[0]) == "row"]
    others = [st for st in hits[0].body if not isinstance(st, (ast.Assign, ast.If))]
    if not assigns or others:
        raise Untranslatable(ob, "unsupported dict-row conversion")
    by_key = ("[row.get(name) for name in column_mapping]", "[row[name] for name in column_mapping]", "[row.get(name) for name in dict_row_keys]")
    vals = [ast.unparse(a.value) for a in assigns]
    if any(v not in by_key and v != "row.values()" for v in vals):
        raise Untranslatable(ob, f"unsupported dict-row conversion {[v for v in vals if v not in by_key][0]!r}")
    # by key only if EVERY path looks the values up by column name; one positional path makes the layout positional
    # for some rows (the model then takes the conservative reading: positional)
    return all(v in by_key for v in vals)


def _cells_through_lit(cdf: ast.FunctionDef) -> None:
    ob = OB + ".cells"
    src = ast.unparse(cdf)
    if "exp.tuple_(*[F.lit(x).column_expression for x in row])" not in src:
        raise Untranslatable(ob, "VALUES cells are no longer `F.lit(x)` of every row element")


def _to_value_flags(sess: ast.ClassDef) -> t.Tuple[bool, bool]:
    """(datetimes come back with tzinfo removed, a Decimal anywhere in a value becomes a float)"""
    ob = OB + ".toValue"
    fn = find_func(sess.body, "_to_value")
    chain, rest = _if_chain(fn.body, ob)
    if not (len(rest) == 1 and isinstance(rest[0], ast.Return) and ast.unparse(rest[0].value) == "value"):
        raise Untranslatable(ob, "_to_value no longer falls through to `return value`")
    tz = False
    dec = False
    for test, body in chain:
        tsrc = ast.unparse(test)
        bsrc = ast.unparse(body[0]) if len(body) == 1 else ""
        if tsrc == "isinstance(value, datetime.datetime)":
            if bsrc != "return value.replace(tzinfo=None)":
                raise Untranslatable(ob, f"unsupported datetime conversion {bsrc!r}")
            tz = True
        elif tsrc in ("isinstance(value, Decimal)", "isinstance(value, decimal.Decimal)"):
            if bsrc != "return float(value)":
                raise Untranslatable(ob, f"unsupported Decimal conversion {bsrc!r}")
            dec = True
        elif tsrc in (
            "(map_value := cls._try_get_map(value)) is not None",
            "isinstance(value, dict)",
            "isinstance(value, (list, set, tuple)) and value",
        ):
            pass
        else:
            raise Untranslatable(ob, f"unsupported branch {tsrc!r}")
    return tz, dec


# ------------------------------------------------------------------------------------------------
# lit / Column._lit
# ------------------------------------------------------------------------------------------------


def _functions_lit(repo: str) -> t.Tuple[bool, bool, t.Optional[str]]:
    ob = OB + ".lit"
    mod = parse(repo, "sqlframe/base/functions.py")
    fn = find_func(mod.body, "lit")
    chain, rest = _if_chain(fn.body, ob)
    if not (len(rest) == 1 and isinstance(rest[0], ast.Return) and ast.unparse(rest[0].value) == "Column(value)"):
        raise Untranslatable(ob, "lit no longer falls through to Column(value)")
    str_lit = False
    inf_str = False
    nan_ty: t.Optional[str] = None  # a NaN case inside lit() itself (top-level values only)
    for test, body in chain:
        tsrc = ast.unparse(test)
        bsrc = ast.unparse(body[0]) if len(body) == 1 else None
        if tsrc == "isinstance(value, float)":
            # nested tests on the float: math.isnan -> CAST('NaN' AS ty), math.isinf -> string literal
            sub, rest2 = _if_chain(body, ob)
            if rest2:
                raise Untranslatable(ob, "unsupported float branch of lit")
            for t2, b2 in sub:
                t2s = ast.unparse(t2)
                b2s = ast.unparse(b2[0]) if len(b2) == 1 else ""
                if t2s == "math.isnan(value)":
                    if not b2s.startswith("return Column(expression.cast(expression.Literal.string('NaN'), expression.DataType.build("):
                        raise Untranslatable(ob, f"unsupported NaN branch of lit {b2s!r}")
                    nan_ty = _str_consts(b2[0])[-1]
                elif t2s == "math.isinf(value)":
                    if b2s != "return Column(expression.Literal.string(str(value)))":
                        raise Untranslatable(ob, f"unsupported infinity branch of lit {b2s!r}")
                    inf_str = True
                else:
                    raise Untranslatable(ob, f"unsupported float test of lit {t2s!r}")
        elif tsrc == "isinstance(value, str)":
            if bsrc != "return Column(expression.Literal.string(value))":
                raise Untranslatable(ob, f"unsupported str branch {bsrc!r}")
            str_lit = True
        elif tsrc in ("isinstance(value, float) and value in {float('inf'), float('-inf')}", "isinstance(value, float) and math.isinf(value)"):
            if bsrc == "return Column(expression.Literal.string(str(value)))":
                inf_str = True
            elif bsrc is not None and bsrc.startswith("return Column(expression.cast(expression.Literal.string(str(value)),") and ("double" in bsrc.lower()):
                inf_str = False
            else:
                raise Untranslatable(ob, f"unsupported infinity branch {bsrc!r}")
        else:
            raise Untranslatable(ob, f"unsupported branch {tsrc!r}")
    if not str_lit:
        raise Untranslatable(ob, "lit(str) is no longer a string literal (a bare str would be parsed as a column name)")
    return str_lit, inf_str, nan_ty


UTC_EXPR = "datetime.timezone.utc"


def _ts_expr(e: ast.expr, env: t.Dict[str, t.Tuple[str, str]], ob: str) -> t.Tuple[str, str]:
    """symbolic value of an expression of the datetime branch: ("dt", mode) a datetime derived from the argument,
    ("text", mode) its `isoformat(sep=' ')`, ("type", NAME) a sqlglot DataType.Type member.
    mode: keep (the argument itself) | convert (`astimezone(utc)`: same instant, UTC fields) |
          relabel (`replace(tzinfo=utc)`: same fields, another instant)"""
    if isinstance(e, ast.Name):
        if e.id not in env:
            raise Untranslatable(ob, f"unknown name {e.id!r} in the datetime branch")
        return env[e.id]
    src = ast.unparse(e)
    if isinstance(e, ast.Attribute) and src.startswith("exp.DataType.Type."):
        return ("type", e.attr)
    if isinstance(e, ast.Call) and isinstance(e.func, ast.Attribute):
        recv = _ts_expr(e.func.value, env, ob)
        meth = e.func.attr
        args = [ast.unparse(a) for a in e.args]
        kws = {k.arg: ast.unparse(k.value) for k in e.keywords}
        if recv[0] == "dt" and meth == "astimezone" and (args, kws) in (([UTC_EXPR], {}), ([], {"tz": UTC_EXPR})):
            if recv[1] != "keep":
                raise Untranslatable(ob, f"two time-zone steps: {src!r}")
            return ("dt", "convert")
        if recv[0] == "dt" and meth == "replace" and (args, kws) == ([], {"tzinfo": UTC_EXPR}):
            if recv[1] == "convert":
                return ("dt", "convert")
            if recv[1] != "keep":
                raise Untranslatable(ob, f"two time-zone steps: {src!r}")
            return ("dt", "relabel")
        if recv[0] == "dt" and meth == "isoformat" and (args, kws) in (([], {"sep": "' '"}), (["' '"], {})):
            return ("text", recv[1])
    raise Untranslatable(ob, f"unsupported expression in the datetime branch: {src!r}")


def _ts_path(stmts: t.Sequence[ast.stmt], ob: str) -> t.Tuple[str, str]:
    """one straight-line path of the datetime branch -> (mode, CAST type)"""
    env: t.Dict[str, t.Tuple[str, str]] = {"value": ("dt", "keep")}
    for st in stmts:
        if isinstance(st, ast.Assign) and len(st.targets) == 1 and isinstance(st.targets[0], ast.Name):
            env[st.targets[0].id] = _ts_expr(st.value, env, ob)
            continue
        if isinstance(st, ast.Return):
            r = st.value
            if not (isinstance(r, ast.Call) and ast.unparse(r.func) == "cls" and len(r.args) == 1 and not r.keywords):
                raise Untranslatable(ob, f"unsupported return {ast.unparse(st)!r}")
            c = r.args[0]
            if not (isinstance(c, ast.Call) and ast.unparse(c.func) == "exp.cast" and len(c.args) == 2 and not c.keywords):
                raise Untranslatable(ob, f"the datetime literal is not an exp.cast: {ast.unparse(c)!r}")
            lit, ty = c.args
            if not (isinstance(lit, ast.Call) and ast.unparse(lit.func) == "exp.Literal.string" and len(lit.args) == 1 and not lit.keywords):
                raise Untranslatable(ob, f"the datetime literal is not a string literal: {ast.unparse(lit)!r}")
            text = _ts_expr(lit.args[0], env, ob)
            tyv = _ts_expr(ty, env, ob)
            if text[0] != "text" or tyv[0] != "type":
                raise Untranslatable(ob, f"unsupported datetime literal {ast.unparse(c)!r}")
            return text[1], tyv[1]
        raise Untranslatable(ob, f"unsupported statement in the datetime branch: {ast.unparse(st)!r}")
    raise Untranslatable(ob, "a path of the datetime branch does not return")


def _column_lit(repo: str) -> t.Tuple[t.List[t.Tuple[t.List[str], str, str]], t.Dict[str, str]]:
    """ordered [(classes, condition, kind)], and how a naive / an aware datetime is written"""
    ob = OB + ".litChain"
    mod = parse(repo, "sqlframe/base/column.py")
    fn = find_func(find_class(mod, "Column").body, "_lit")
    body = [s for s in fn.body if not isinstance(s, (ast.ImportFrom, ast.Import))]
    chain, rest = _if_chain(body, ob)
    if not (len(rest) == 1 and isinstance(rest[0], ast.Return) and ast.unparse(rest[0].value) == "cls(exp.convert(value))"):
        raise Untranslatable(ob, "_lit no longer ends in exp.convert(value)")
    out = []
    ts: t.Dict[str, str] = {}
    for test, b in chain:
        tsrc = ast.unparse(test)
        bsrc = "\n".join(ast.unparse(s) for s in b)
        if tsrc == "value is not None and isinstance(value, float) and math.isnan(value)":
            rets = _returns(b)
            if len(rets) != 1 or not ast.unparse(rets[0].value).startswith("cls(exp.cast(exp.Literal.string('NaN'), exp.DataType.build("):
                raise Untranslatable(ob, f"unsupported NaN branch {bsrc!r}")
            ty = _str_consts(rets[0].value)[-1]
            out.append((["float"], "isNan", f".nanCast {lean_str(ty)}"))
            continue
        if tsrc in ("isinstance(value, float) and math.isinf(value)", "value is not None and isinstance(value, float) and math.isinf(value)"):
            # an infinity has no number literal: CAST('<pos>' if value > 0 else '<neg>' AS <ty>)
            import re

            m = re.fullmatch(
                r"return cls\(exp\.cast\(exp\.Literal\.string\('([^'\\]*)' if value > 0 else '([^'\\]*)'\), exp\.DataType\.build\('([A-Za-z]+)'\)\)\)",
                bsrc,
            )
            if not m:
                raise Untranslatable(ob, f"unsupported infinity branch {bsrc!r}")
            out.append((["float"], "isInf", f".infCast {lean_str(m.group(1))} {lean_str(m.group(2))} {lean_str(m.group(3))}"))
            continue
        classes = _isinstance_classes(test, "value", ob)
        if "exp.Struct(" in bsrc:
            kind = ".struct"
        elif "exp.Array(" in bsrc and "exp.VarMap(" not in bsrc:
            kind = ".array"
        elif "exp.Tuple(" in bsrc:
            kind = ".tuple"
        elif "exp.VarMap(" in bsrc:
            kind = ".varmap"
        elif classes == ["datetime.datetime"]:
            # if value.tzinfo is None: <naive path> else: <aware path>  [shared tail]; each path is straight-line code
            # over `value`, evaluated symbolically (`_ts_path`)
            if not b or not isinstance(b[0], ast.If) or not b[0].orelse:
                raise Untranslatable(ob, "unsupported datetime branch")
            t0 = ast.unparse(b[0].test)
            if t0 in ("value.tzinfo is None", "not value.tzinfo"):
                naive_b, aware_b = b[0].body, b[0].orelse
            elif t0 in ("value.tzinfo is not None", "value.tzinfo"):
                naive_b, aware_b = b[0].orelse, b[0].body
            else:
                raise Untranslatable(ob, f"unsupported naive/aware test {t0!r}")
            tail = list(b[1:])
            n_mode, n_ty = _ts_path(list(naive_b) + tail, ob)
            a_mode, a_ty = _ts_path(list(aware_b) + tail, ob)
            if n_mode != "keep":
                raise Untranslatable(ob, "a naive datetime is moved to another zone (depends on the process's local zone)")
            ts = {"naive_ty": n_ty, "aware_ty": a_ty, "aware_mode": a_mode}
            kind = f".tsCast {lean_str(n_ty)} {lean_str(a_ty)}"
        else:
            raise Untranslatable(ob, f"unsupported branch {tsrc!r}")
        out.append((classes, "always", kind))
    if not ts:
        raise Untranslatable(ob, "_lit has no datetime branch (exp.convert would write a DATETIME cast of sqlglot's own)")
    return out, ts


# ------------------------------------------------------------------------------------------------
# schema input
# ------------------------------------------------------------------------------------------------


def _schema_input(repo: str) -> t.Dict[str, t.Any]:
    ob = OB + ".schemaInput"
    mod = parse(repo, "sqlframe/base/util.py")
    fn = find_func(mod.body, "get_column_mapping_from_schema_input")
    top = [s for s in fn.body if isinstance(s, ast.If)]
    if len(top) != 1:
        raise Untranslatable(ob, "expected one if/elif chain over the schema forms")
    order: t.List[str] = []
    bodies: t.Dict[str, t.List[ast.stmt]] = {}
    node: ast.If = top[0]
    while True:
        classes = _isinstance_classes(node.test, "schema", ob)
        if len(classes) != 1:
            raise Untranslatable(ob, f"unsupported form test {classes}")
        name = classes[0].split(".")[-1]
        order.append(name)
        bodies[name] = node.body
        if len(node.orelse) == 1 and isinstance(node.orelse[0], ast.If):
            node = node.orelse[0]
            continue
        order.append("else")
        bodies["else"] = node.orelse
        break
    if set(order) != {"dict", "str", "StructType", "else"}:
        raise Untranslatable(ob, f"unsupported set of schema forms {order}")
    if [ast.unparse(s) for s in bodies["dict"]] != ["value = schema"]:
        raise Untranslatable(ob, "dict form is no longer taken as is")
    st = [ast.unparse(s) for s in bodies["StructType"]]
    if st != ["value = {struct_field.name: struct_field.dataType.simpleString() for struct_field in schema}"]:
        raise Untranslatable(ob, f"unsupported StructType form {st}")
    el = [ast.unparse(s) for s in bodies["else"]]
    if el == ["value = {x.strip(): None for x in schema}"]:
        list_strip = True
    elif el == ["value = {x: None for x in schema}"]:
        list_strip = False
    else:
        raise Untranslatable(ob, f"unsupported list form {el}")
    # the DDL branch
    sb = bodies["str"]
    if not (len(sb) == 2 and isinstance(sb[0], ast.Assign) and isinstance(sb[1], ast.If)):
        raise Untranslatable(ob, "unsupported DDL branch shape")
    split0 = ast.unparse(sb[0])
    import re

    m = re.fullmatch(r"col_name_type_strs = \[x\.strip\(\) for x in schema\.split\('(.)'\)\]", split0)
    if not m:
        raise Untranslatable(ob, f"unsupported field split {split0!r}")
    field_sep = m.group(1)
    n1: ast.If = sb[1]
    t1 = ast.unparse(n1.test)
    m = re.fullmatch(r"len\(col_name_type_strs\) == 1 and len\(col_name_type_strs\[0\]\.split\('(.)'\)\) == 1", t1)
    if not m:
        raise Untranslatable(ob, f"unsupported single-token test {t1!r}")
    b1 = ast.unparse(n1.body[0]) if len(n1.body) == 1 else ""
    m1 = re.fullmatch(r"value = \{'([^']*)': col_name_type_strs\[0\]\.strip\(\)\}", b1)
    if not m1:
        raise Untranslatable(ob, f"unsupported single-token branch {b1!r}")
    single_name = m1.group(1)
    if not (len(n1.orelse) == 1 and isinstance(n1.orelse[0], ast.If)):
        raise Untranslatable(ob, "unsupported DDL branch shape (struct<)")
    n2: ast.If = n1.orelse[0]
    if ast.unparse(n2.test) != "schema.startswith('struct<') and schema.endswith('>')":
        raise Untranslatable(ob, f"unsupported struct test {ast.unparse(n2.test)!r}")
    gen = ast.unparse(n2.orelse[0]) if len(n2.orelse) == 1 else ""
    m2 = re.fullmatch(
        r"value = \{name_type_str\.split\('(.)'\)\[(\d+)\]\.strip\(\): name_type_str\.split\('(.)'\)\[(\d+)\]\.strip\(\) for name_type_str in col_name_type_strs\}",
        gen,
    )
    if not m2:
        raise Untranslatable(ob, f"unsupported general DDL branch {gen!r}")
    if m2.group(1) != m2.group(3):
        raise Untranslatable(ob, "name and type are split on different separators")
    # the final mapping
    ret = [s for s in fn.body if isinstance(s, ast.Return)]
    if len(ret) != 1 or ast.unparse(ret[0].value) != "{k: exp.DataType.build(v, dialect=dialect) if v is not None else v for k, v in value.items()}":
        raise Untranslatable(ob, "unsupported final mapping")
    return {
        "order": order,
        "list_strip": list_strip,
        "field_sep": field_sep,
        "nt_sep": m2.group(1),
        "name_idx": int(m2.group(2)),
        "type_idx": int(m2.group(4)),
        "single_name": single_name,
    }


def lean_char(c: str) -> str:
    if c == "'":
        return "'\\''"
    if c == "\\":
        return "'\\\\'"
    return f"'{c}'"


def gen_values(repo: str) -> str:
    smod = parse(repo, "sqlframe/base/session.py")
    sess = find_class(smod, "_BaseSession")
    cdf = find_func(sess.body, "createDataFrame")
    inner = [n for n in cdf.body if isinstance(n, ast.FunctionDef) and n.name == "get_default_data_type"]
    if len(inner) != 1:
        raise Untranslatable(OB + ".inferChain", "nested get_default_data_type not found")
    chain, idec = _infer_chain(inner[0])
    _sample_row(cdf)
    prefix, start, k = _auto_names(cdf)
    stripped = _names_stripped(cdf)
    cast_typed = _cast_typed(cdf)
    by_key = _dict_rows(cdf)
    _cells_through_lit(cdf)
    tz, dec = _to_value_flags(sess)
    str_lit, inf_str, lit_nan_ty = _functions_lit(repo)
    lchain, ts = _column_lit(repo)
    si = _schema_input(repo)

    L: t.List[str] = [HEADER, "", "namespace Sqlframe.Gen", ""]
    L.append("/-- result of one branch of `get_default_data_type` -/")
    L.append("inductive InferRes | prim (ty : String) | tzSplit (aware naive : String) | structOf | mapOf | arrayOf")
    L.append("  deriving DecidableEq, Repr")
    L.append("/-- the `isinstance` chain of `get_default_data_type`, in source order -/")
    L.append("def inferChain : List (List String × InferRes) := [")
    L.append(",\n".join("  ([" + ", ".join(lean_str(c) for c in cl) + "], " + res + ")" for cl, res in chain))
    L.append("]")
    L.append("/-- a leading `if not value: return None`: every falsy value (0, 0.0, False, '', b'') is left untyped -/")
    L.append(f"def inferFalsyFirst : Bool := {str(idec['falsy_first']).lower()}")
    L.append("/-- what a Row field whose type is unknown does to the struct type: left out (`continue`) / no type at all -/")
    L.append("inductive StructUntyped | skip | giveUp deriving DecidableEq, Repr")
    L.append(f"def inferStructUntyped : StructUntyped := .{idec['struct_untyped'] or 'skip'}")
    L.append("/-- the sequence branch tests for an empty sequence itself -/")
    L.append(f"def inferSeqEmptyGuard : Bool := {str(bool(idec['seq_guard'])).lower()}")
    L.append("")
    L.append(f"def autoNamePrefix : String := {lean_str(prefix)}")
    L.append(f"def autoNameStart : Nat := {start}")
    L.append("/-- how many auto names are made for a first row of `n` cells: `range(start, n + k)` -/")
    L.append(f"def autoNameCount (n : Nat) : Nat := n + {k} - {start}")
    L.append(f"def inferredNamesStripped : Bool := {str(stripped).lower()}")
    L.append(f"def castTypedColumns : Bool := {str(cast_typed).lower()}")
    L.append(f"def dictRowsByKey : Bool := {str(by_key).lower()}")
    L.append(f"def toValueStripsTz : Bool := {str(tz).lower()}")
    L.append("/-- does `_to_value` turn a Decimal found anywhere inside a value into a float (`_create_row` does it for direct cells only)? -/")
    L.append(f"def toValueDecimalToFloat : Bool := {str(dec).lower()}")
    L.append("")
    L.append(f"def litStrIsStringLiteral : Bool := {str(str_lit).lower()}")
    L.append(f"def litInfIsString : Bool := {str(inf_str).lower()}")
    L.append("/-- a NaN case inside `functions.lit` itself (reached by top-level values only): the CAST type -/")
    L.append("def litNanCast : Option String := " + ("none" if lit_nan_ty is None else f"some {lean_str(lit_nan_ty)}"))
    L.append("inductive LitCond | always | isNan | isInf deriving DecidableEq, Repr")
    L.append("inductive LitKind | struct | array | tuple | varmap | nanCast (ty : String) | infCast (pos neg ty : String) | tsCast (naive aware : String) | convert")
    L.append("  deriving DecidableEq, Repr")
    L.append("/-- the ordered tests of `Column._lit`; a value that passes none goes to `exp.convert` -/")
    L.append("def litChain : List (List String × LitCond × LitKind) := [")
    L.append(",\n".join("  ([" + ", ".join(lean_str(c) for c in cl) + f"], .{cond}, {kind})" for cl, cond, kind in lchain))
    L.append("]")
    L.append("/-- what `_lit` does to a datetime before `isoformat(sep=' ')`: nothing / `astimezone(utc)` (same instant) /")
    L.append("    `replace(tzinfo=utc)` (same wall-clock fields, another instant) -/")
    L.append("inductive TzMode | keep | convert | relabel deriving DecidableEq, Repr")
    L.append(f"def litAwareMode : TzMode := .{ts['aware_mode']}")
    L.append(f"def litNaiveTy : String := {lean_str(ts['naive_ty'])}")
    L.append(f"def litAwareTy : String := {lean_str(ts['aware_ty'])}")
    L.append("")
    L.append("/-- `get_column_mapping_from_schema_input`: order in which the schema forms are recognised -/")
    L.append("def schemaBranchOrder : List String := [" + ", ".join(lean_str(x) for x in si["order"]) + "]")
    L.append(f"def listNamesStripped : Bool := {str(si['list_strip']).lower()}")
    L.append(f"def ddlFieldSep : Char := {lean_char(si['field_sep'])}")
    L.append(f"def ddlNameTypeSep : Char := {lean_char(si['nt_sep'])}")
    L.append(f"def ddlNameIdx : Nat := {si['name_idx']}")
    L.append(f"def ddlTypeIdx : Nat := {si['type_idx']}")
    L.append(f"def ddlSingleTokenName : String := {lean_str(si['single_name'])}")
    L.append("")
    L.append("end Sqlframe.Gen")
    return "\n".join(L) + "\n"


GENERATORS = {"Values": gen_values}
