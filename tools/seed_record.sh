#!/bin/sh
# usage: seed_record.sh <seed-src-dir> <name e.g. C01-1> <Cxx>   — evaluate and store under /verif/seeded/<name>/
SRC=$1; NAME=$2; P=$3
OUT=/verif/seeded/$NAME
mkdir -p $OUT
cp $SRC/patch.diff $SRC/demo.py $OUT/ 
WT=/tmp/wt_me
git -C $WT checkout -q -- .
git -C $WT checkout -q --detach $(git -C /repo rev-parse HEAD) 
CLEAN=$(REPO_UNDER_TEST=$WT /venv/bin/python $SRC/demo.py 2>&1 | tail -1 | cut -c1-200)
(git -C $WT apply $SRC/patch.diff 2>/dev/null || (cd $WT && patch -p1 -s -F3 --no-backup-if-mismatch < $SRC/patch.diff)) || { echo "PATCH DOES NOT APPLY"; exit 3; }
git -C $WT diff > $OUT/patch.diff
PATCHED=$(REPO_UNDER_TEST=$WT /venv/bin/python $SRC/demo.py 2>&1 | grep -m1 -i "fail\|pass" | cut -c1-200)
CHECK=$(VERIF_REPO=$WT /verif/check "$P" 2>/dev/null | grep -v "^KNOWN" | tail -4)
REPLAY=$(ls /verif/replays/$P/*.json 2>/dev/null | head -1)
[ -n "$REPLAY" ] && cp $REPLAY $OUT/replay_from_check.json
git -C $WT checkout -q -- .
cd /verif/lean && /venv/bin/python ../tools/translate.py >/dev/null 2>&1
/venv/bin/python - "$SRC" "$OUT" "$P" "$CLEAN" "$PATCHED" "$CHECK" <<'PY'
import json,sys
src,out,p,clean,patched,check=sys.argv[1:7]
m=json.load(open(src+'/meta.json'))
m['property']=p
m['confirmed']={"repo_head":"see git log of /repo at the time of recording","demo_on_clean_tree":clean,"demo_with_patch":patched,
 "ran":["REPO_UNDER_TEST=<worktree> /venv/bin/python demo.py (clean, then patched)","VERIF_REPO=<patched worktree> ./check %s --tier quick"%p],
 "check_output":check.split("\n"),
 "detected": "VIOLATION" in check, "concrete_replay": ("VIOLATION" in check and "no-failing-input-found" not in check.split("VIOLATION")[1].split("\n")[0])}
json.dump(m,open(out+'/meta.json','w'),indent=1)
print(out, m['confirmed']['detected'], m['confirmed']['concrete_replay'])
PY
