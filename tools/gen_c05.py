"""
gen_c05.py — translator part for C05:  sqlframe/base/column.py (+ functions.when)  ->  Gen/ColumnOps.lean

Extracted with Python's `ast` only (sqlframe is never imported):

* for every operator dunder and `eqNullSafe`: which helper it calls (`binary_op`, `inverse_binary_op`,
  `unary_op`, or a direct `exp.K(...)` construction), the sqlglot class, the literal `paren=` flag
  (the helper's default when absent);
* the three helpers themselves: operand order (`this=`/`expression=`), whether operands are the
  un-aliased `column_expression`, whether a `str` operand is a literal, whether `unary_op` wraps its
  operand in `Paren`, and whether operands are routed through `Column._operand` (the repaired shape);
* `Column._operand` when it exists: the parent classes it never wraps under, the operand classes it wraps;
* the predicate methods (`isNull`, `isNotNull`, `like`, `ilike`, `isin`, `between`, `rlike`,
  `startswith`, `endswith`, `substr`, `cast`, `alias`): node class, whether the subject is wrapped,
  how `between` takes its bounds, how `endswith` names its function;
* `functions.when` / `Column.when` / `Column.otherwise`: operands un-aliased, receiver copied.

and  -> Gen/ColumnLit.lean  (how a plain Python value becomes a literal):

* `Column._lit` and `functions.lit` as ordered decision chains `[(guard, action)] + fallthrough`: each guard and each
  branch body must be one of the source shapes listed in LIT_GUARDS / LIT_BODIES (isinstance tests on Row / list /
  set / tuple / dict / datetime / str, the NaN and infinity tests; struct / array / tuple / map constructions, a cast
  of a *constant* string (or of one of two constants chosen by `value > 0`) to a named type, `exp.convert(value)`, `Literal.string(value)`, `Column(value)`) — a new
  branch, a changed condition or a changed spelling of the value is Untranslatable;
* `Column.__init__`'s three-way dispatch (Column / non-str value -> `_lit` / str -> parsed SQL text);
* the `@meta` decorator's automatic-alias condition and whether `lit` / `when` carry the decorator;
* the coercion every method applies to a plain Python operand (`_lit`, `_lit`-for-str-else-`Column`, `lit`).

Anything that has left these shapes raises Untranslatable (never a default, never a guess).
"""
from __future__ import annotations

import ast
import re
import typing as t

from translate import HEADER, Untranslatable, find_class, find_func, lean_ident, lean_str, parse

OB = "Gen.ColumnOps"

# the property's operator alphabet: every one of these must exist and be understood
DUNDERS = [
    "__eq__", "__ne__", "__gt__", "__ge__", "__lt__", "__le__",
    "__and__", "__or__", "__mod__", "__add__", "__sub__", "__mul__", "__truediv__", "__div__",
    "__neg__", "__invert__",
    "__radd__", "__rsub__", "__rmul__", "__rdiv__", "__rtruediv__", "__rmod__",
    "__pow__", "__rpow__",
    "__rand__", "__ror__",
    "eqNullSafe",
]  # fmt: skip

# sqlglot classes the Lean model knows how to interpret
KNOWN_CLASSES = {
    "EQ", "NEQ", "GT", "GTE", "LT", "LTE", "And", "Or", "Mod", "Add", "Sub", "Mul", "Div", "Pow",
    "Neg", "Not", "NullSafeEQ", "Is", "In", "Between", "Like", "ILike", "RegexpLike", "StartsWith",
    "Substring", "Alias", "Case", "Paren", "Null",
}  # fmt: skip


def _bad(what: str, why: str) -> Untranslatable:
    return Untranslatable(f"{OB}.{what}", why)


def _exp_class(node: ast.expr, what: str) -> str:
    """`exp.K` -> "K" """
    if isinstance(node, ast.Attribute) and isinstance(node.value, ast.Name) and node.value.id in ("exp", "expression"):
        if node.attr not in KNOWN_CLASSES:
            raise _bad(what, f"sqlglot class {node.attr} is outside the modelled vocabulary")
        return node.attr
    raise _bad(what, f"expected exp.<Class>, found {ast.unparse(node)!r}")


def _body(fn: ast.FunctionDef) -> t.List[ast.stmt]:
    """statements without the docstring and without local `from … import …`"""
    out = []
    for i, st in enumerate(fn.body):
        if i == 0 and isinstance(st, ast.Expr) and isinstance(st.value, ast.Constant) and isinstance(st.value.value, str):
            continue
        if isinstance(st, ast.ImportFrom):
            continue
        out.append(st)
    return out


def _single_return(fn: ast.FunctionDef, what: str) -> ast.expr:
    body = _body(fn)
    if len(body) != 1 or not isinstance(body[0], ast.Return) or body[0].value is None:
        raise _bad(what, "expected a single `return <expr>` body")
    return body[0].value


def _kwargs(call: ast.Call, what: str) -> t.Dict[str, ast.expr]:
    out = {}
    for k in call.keywords:
        if k.arg is None:
            continue  # **kwargs passthrough
        out[k.arg] = k.value
    return out


def _is_self_attr(node: ast.expr, attr: str, recv: str = "self") -> bool:
    return isinstance(node, ast.Attribute) and node.attr == attr and isinstance(node.value, ast.Name) and node.value.id == recv


def _operand_access(node: ast.expr, what: str, klass_arg: t.Optional[str] = None) -> t.Tuple[str, bool, bool]:
    """classify an operand expression: returns (receiver name, unaliased?, wrapped through _operand?)

    understood: R.column_expression | R.expression | self._operand(<klass>, R.column_expression)
    `klass_arg`: the source text the first argument of `_operand` must have (the parent class)
    """
    wrapped = False
    if (
        isinstance(node, ast.Call)
        and isinstance(node.func, ast.Attribute)
        and node.func.attr == "_operand"
        and isinstance(node.func.value, ast.Name)
        and node.func.value.id in ("self", "cls", "Column")
        and len(node.args) == 2
        and not node.keywords
    ):
        wrapped = True
        if klass_arg is not None and ast.unparse(node.args[0]) != klass_arg:
            raise _bad(what, f"_operand is told the parent is {ast.unparse(node.args[0])!r}, expected {klass_arg!r}")
        node = node.args[1]
    if isinstance(node, ast.Attribute) and isinstance(node.value, ast.Name) and node.attr in ("column_expression", "expression"):
        return node.value.id, node.attr == "column_expression", wrapped
    raise _bad(what, f"operand {ast.unparse(node)!r} is not <col>.column_expression / <col>.expression / self._operand(klass, …)")


# ------------------------------------------------------------------------------------------------
# dunders
# ------------------------------------------------------------------------------------------------


def _dunder(cls: ast.ClassDef, name: str, defaults: t.Dict[str, bool]) -> t.Dict[str, t.Any]:
    what = name
    fn = find_func(cls.body, name)
    ret = _single_return(fn, what)
    if not isinstance(ret, ast.Call):
        raise _bad(what, f"unsupported body {ast.unparse(ret)!r}")
    f = ret.func
    # self.binary_op(exp.K, other[, paren=<const>]) / self.inverse_binary_op(...) / self.unary_op(exp.K)
    if isinstance(f, ast.Attribute) and isinstance(f.value, ast.Name) and f.value.id == "self":
        if f.attr in ("binary_op", "inverse_binary_op"):
            if len(ret.args) != 2 or not isinstance(ret.args[1], ast.Name):
                raise _bad(what, f"expected self.{f.attr}(exp.K, <other>), found {ast.unparse(ret)!r}")
            other = ret.args[1].id
            params = [a.arg for a in fn.args.args]
            if len(params) < 2 or params[1] != other:
                raise _bad(what, f"the second argument {other!r} is not the method's operand parameter")
            paren = defaults[f.attr]
            for k in ret.keywords:
                if k.arg == "paren":
                    if not (isinstance(k.value, ast.Constant) and isinstance(k.value.value, bool)):
                        raise _bad(what, f"paren= is not a literal bool: {ast.unparse(k.value)!r}")
                    paren = k.value.value
                else:
                    raise _bad(what, f"unexpected keyword {k.arg!r}")
            return {"helper": "binaryOp" if f.attr == "binary_op" else "inverseBinaryOp", "klass": _exp_class(ret.args[0], what), "paren": paren}
        if f.attr == "unary_op":
            if len(ret.args) != 1 or ret.keywords:
                raise _bad(what, f"expected self.unary_op(exp.K), found {ast.unparse(ret)!r}")
            return {"helper": "unaryOp", "klass": _exp_class(ret.args[0], what), "paren": False}
    # Column(exp.K(this=<a>, expression=<b>)) with a, b in {self.expression, Column(<param>).expression}
    if isinstance(f, ast.Name) and f.id == "Column" and len(ret.args) == 1 and isinstance(ret.args[0], ast.Call):
        inner = ret.args[0]
        klass = _exp_class(inner.func, what)
        kw = _kwargs(inner, what)
        if set(kw) != {"this", "expression"} or inner.args:
            raise _bad(what, f"direct construction with unexpected arguments: {ast.unparse(inner)!r}")
        param = fn.args.args[1].arg if len(fn.args.args) > 1 else None

        def side(n: ast.expr) -> str:
            if _is_self_attr(n, "expression"):
                return "self"
            if (
                isinstance(n, ast.Attribute)
                and n.attr == "expression"
                and isinstance(n.value, ast.Call)
                and isinstance(n.value.func, ast.Name)
                and n.value.func.id == "Column"
                and len(n.value.args) == 1
                and isinstance(n.value.args[0], ast.Name)
                and n.value.args[0].id == param
            ):
                return "other"
            raise _bad(what, f"unsupported operand {ast.unparse(n)!r}")

        a, b = side(kw["this"]), side(kw["expression"])
        if {a, b} != {"self", "other"}:
            raise _bad(what, "both operands are the same object")
        # a directly built node: operand order recorded as the helper it mirrors; never parenthesised
        return {"helper": "direct", "klass": klass, "paren": False, "selfFirst": a == "self"}
    raise _bad(what, f"unsupported body {ast.unparse(ret)!r}")


# ------------------------------------------------------------------------------------------------
# helpers
# ------------------------------------------------------------------------------------------------


def _paren_default(fn: ast.FunctionDef, what: str) -> bool:
    names = [a.arg for a in fn.args.args]
    if "paren" not in names:
        raise _bad(what, "no `paren` parameter")
    i = names.index("paren") - (len(names) - len(fn.args.defaults))
    if i < 0:
        raise _bad(what, "`paren` has no default")
    d = fn.args.defaults[i]
    if not (isinstance(d, ast.Constant) and isinstance(d.value, bool)):
        raise _bad(what, "`paren` default is not a literal bool")
    return d.value


def _binary_helper(cls: ast.ClassDef, name: str) -> t.Dict[str, t.Any]:
    """
    other = self._lit(other) if isinstance(other, str) else Column(other)
    op = klass(this=<A>, expression=<B>, **kwargs)
    if paren:
        return Column(exp.Paren(this=op))
    return Column(op)
    """
    what = name
    fn = find_func(cls.body, name)
    params = [a.arg for a in fn.args.args]
    if params[:3] != ["self", "klass", "other"]:
        raise _bad(what, f"unexpected parameters {params}")
    body = _body(fn)
    if len(body) != 4:
        raise _bad(what, f"expected 4 statements, found {len(body)}")
    s0, s1, s2, s3 = body
    if not (isinstance(s0, ast.Assign) and ast.unparse(s0) == "other = self._lit(other) if isinstance(other, str) else Column(other)"):
        raise _bad(what, f"operand coercion changed: {ast.unparse(s0)!r}")
    if not (
        isinstance(s1, ast.Assign)
        and len(s1.targets) == 1
        and isinstance(s1.targets[0], ast.Name)
        and isinstance(s1.value, ast.Call)
        and isinstance(s1.value.func, ast.Name)
        and s1.value.func.id == "klass"
        and not s1.value.args
    ):
        raise _bad(what, f"expected `op = klass(this=…, expression=…, **kwargs)`, found {ast.unparse(s1)!r}")
    opname = s1.targets[0].id
    kw = _kwargs(s1.value, what)
    if set(kw) != {"this", "expression"}:
        raise _bad(what, f"unexpected node arguments {sorted(kw)}")
    ra, ua, wa = _operand_access(kw["this"], what, "klass")
    rb, ub, wb = _operand_access(kw["expression"], what, "klass")
    if {ra, rb} != {"self", "other"}:
        raise _bad(what, f"operands are {ra!r} and {rb!r}")
    if ua != ub or wa != wb:
        raise _bad(what, "the two operands are treated differently (alias stripping / parenthesising)")
    if not (
        isinstance(s2, ast.If)
        and isinstance(s2.test, ast.Name)
        and s2.test.id == "paren"
        and not s2.orelse
        and len(s2.body) == 1
        and ast.unparse(s2.body[0]) == f"return Column(exp.Paren(this={opname}))"
    ):
        raise _bad(what, f"expected `if paren: return Column(exp.Paren(this={opname}))`, found {ast.unparse(s2)!r}")
    if ast.unparse(s3) != f"return Column({opname})":
        raise _bad(what, f"expected `return Column({opname})`, found {ast.unparse(s3)!r}")
    return {"thisIsSelf": ra == "self", "unalias": ua, "wrap": wa, "parenDefault": _paren_default(fn, what)}


def _unary_helper(cls: ast.ClassDef) -> bool:
    """return Column(klass(this=exp.Paren(this=self.column_expression), **kwargs))  -> wraps = True"""
    fn = find_func(cls.body, "unary_op")
    src = ast.unparse(_single_return(fn, "unary_op"))
    if src == "Column(klass(this=exp.Paren(this=self.column_expression), **kwargs))":
        return True
    if src == "Column(klass(this=self.column_expression, **kwargs))":
        return False
    raise _bad("unary_op", f"unsupported body {src!r}")


def _operand_helper(cls: ast.ClassDef) -> t.Optional[t.Tuple[t.List[str], t.List[str]]]:
    """
    def _operand(klass, expression):
        if isinstance(klass, type) and issubclass(klass, exp.P | (exp.P, …)):
            return expression
        if isinstance(expression, exp.C | (exp.C, …)):
            return exp.Paren(this=expression)
        return expression
    """
    fns = [n for n in cls.body if isinstance(n, ast.FunctionDef) and n.name == "_operand"]
    if not fns:
        return None
    fn = fns[-1]
    what = "_operand"
    if [a.arg for a in fn.args.args] != ["klass", "expression"]:
        raise _bad(what, "unexpected parameters")
    body = _body(fn)
    if len(body) != 3:
        raise _bad(what, f"expected 3 statements, found {len(body)}")
    s0, s1, s2 = body

    def classes(node: ast.expr) -> t.List[str]:
        elts = node.elts if isinstance(node, ast.Tuple) else [node]
        out = []
        for e in elts:
            if not (isinstance(e, ast.Attribute) and isinstance(e.value, ast.Name) and e.value.id == "exp"):
                raise _bad(what, f"unsupported class reference {ast.unparse(e)!r}")
            out.append(e.attr)
        return out

    if not (
        isinstance(s0, ast.If)
        and not s0.orelse
        and len(s0.body) == 1
        and ast.unparse(s0.body[0]) == "return expression"
        and isinstance(s0.test, ast.BoolOp)
        and isinstance(s0.test.op, ast.And)
        and len(s0.test.values) == 2
        and ast.unparse(s0.test.values[0]) == "isinstance(klass, type)"
        and isinstance(s0.test.values[1], ast.Call)
        and ast.unparse(s0.test.values[1].func) == "issubclass"
        and len(s0.test.values[1].args) == 2
        and ast.unparse(s0.test.values[1].args[0]) == "klass"
    ):
        raise _bad(what, f"unsupported first statement {ast.unparse(s0)!r}")
    skip = classes(s0.test.values[1].args[1])
    if not (
        isinstance(s1, ast.If)
        and not s1.orelse
        and len(s1.body) == 1
        and ast.unparse(s1.body[0]) == "return exp.Paren(this=expression)"
        and isinstance(s1.test, ast.Call)
        and ast.unparse(s1.test.func) == "isinstance"
        and len(s1.test.args) == 2
        and ast.unparse(s1.test.args[0]) == "expression"
    ):
        raise _bad(what, f"unsupported second statement {ast.unparse(s1)!r}")
    wraps = classes(s1.test.args[1])
    if ast.unparse(s2) != "return expression":
        raise _bad(what, f"unsupported last statement {ast.unparse(s2)!r}")
    known = {"Predicate", "Connector", "Not"}
    for c in skip + wraps:
        if c not in known:
            raise _bad(what, f"class {c} is outside the modelled sqlglot hierarchy")
    return skip, wraps


# ------------------------------------------------------------------------------------------------
# predicate / function methods
# ------------------------------------------------------------------------------------------------


def _subject(node: ast.expr, what: str, klass: t.Optional[str] = None) -> bool:
    """how a method hands `self` to the node it builds; returns wrapped?

    self | self.column_expression                              -> False
    self._operand(exp.K, self.column_expression)               -> True
    Column(self._operand(exp.K, self.column_expression))       -> True
    """
    if isinstance(node, ast.Name) and node.id == "self":
        return False
    if isinstance(node, ast.Call) and isinstance(node.func, ast.Name) and node.func.id == "Column" and len(node.args) == 1:
        node = node.args[0]
    r, unalias, wrapped = _operand_access(node, what, f"exp.{klass}" if klass else None)
    if r != "self" or not unalias:
        raise _bad(what, f"subject is {ast.unparse(node)!r}")
    return wrapped


def _inline(fn: ast.FunctionDef, what: str) -> ast.expr:
    """body of the form  [x = <expr>]* ; return <expr>  with single-use locals substituted"""
    import copy

    env: t.Dict[str, ast.expr] = {}

    class Sub(ast.NodeTransformer):
        """one-pass substitution: an inserted expression is not revisited (locals may shadow parameters)"""

        def visit_Name(self, n: ast.Name) -> ast.AST:
            if isinstance(n.ctx, ast.Load) and n.id in env and n.id != "self":
                return copy.deepcopy(env[n.id])
            return n

    body = _body(fn)
    if not body:
        raise _bad(what, "empty body")
    for st in body[:-1]:
        if isinstance(st, ast.Assign) and len(st.targets) == 1 and isinstance(st.targets[0], ast.Name):
            env[st.targets[0].id] = Sub().visit(copy.deepcopy(st.value))
        else:
            raise _bad(what, f"unsupported statement {ast.unparse(st)!r}")
    last = body[-1]
    if not isinstance(last, ast.Return) or last.value is None:
        raise _bad(what, "no final return")
    return Sub().visit(copy.deepcopy(last.value))


def _is_null(cls: ast.ClassDef, name: str) -> t.Dict[str, t.Any]:
    e = _inline(find_func(cls.body, name), name)
    # Column(exp.Is(this=S, expression=exp.Null()))  |  Column(exp.Not(this=exp.Is(this=S, expression=exp.Null())))
    if not (isinstance(e, ast.Call) and isinstance(e.func, ast.Name) and e.func.id == "Column" and len(e.args) == 1 and isinstance(e.args[0], ast.Call)):
        raise _bad(name, f"unsupported body {ast.unparse(e)!r}")
    node = e.args[0]
    negated = False
    if _exp_class(node.func, name) == "Not":
        kw = _kwargs(node, name)
        if set(kw) != {"this"} or not isinstance(kw["this"], ast.Call):
            raise _bad(name, "unsupported NOT")
        negated = True
        node = kw["this"]
    if _exp_class(node.func, name) != "Is":
        raise _bad(name, f"expected exp.Is, found {ast.unparse(node.func)!r}")
    kw = _kwargs(node, name)
    if set(kw) != {"this", "expression"} or ast.unparse(kw["expression"]) != "exp.Null()":
        raise _bad(name, f"unsupported IS node {ast.unparse(node)!r}")
    return {"klass": "Not(Is)" if negated else "Is", "subjectWrap": _subject(kw["this"], name, "Is")}


def _over_column(cls: ast.ClassDef, name: str, want_kw: t.List[str]) -> t.Dict[str, t.Any]:
    """`return <X>.invoke_expression_over_column(<subject>, exp.K, kw=…)` (possibly after simple locals)"""
    e = _inline(find_func(cls.body, name), name)
    if not (isinstance(e, ast.Call) and isinstance(e.func, ast.Attribute) and e.func.attr == "invoke_expression_over_column"):
        raise _bad(name, f"unsupported body {ast.unparse(e)!r}")
    kw = _kwargs(e, name)
    args = list(e.args)
    subj = kw.pop("column", None) or (args.pop(0) if args else None)
    klass = kw.pop("callable_expression", None) or (args.pop(0) if args else None)
    if subj is None or klass is None or args:
        raise _bad(name, f"unsupported call {ast.unparse(e)!r}")
    if sorted(kw) != sorted(want_kw):
        raise _bad(name, f"keyword arguments {sorted(kw)} (expected {sorted(want_kw)})")
    k = _exp_class(klass, name)
    return {"klass": k, "subjectWrap": _subject(subj, name, k), "kw": kw}


def _lit_of_param(node: ast.expr, param: str) -> bool:
    return ast.unparse(node) == f"self._lit({param}).expression"


def _coerced_param(node: ast.expr, param: str) -> bool:
    """(self._lit(p) if not isinstance(p, Column) else p).expression, after inlining"""
    return ast.unparse(node) == f"(self._lit({param}) if not isinstance({param}, Column) else {param}).expression"


def _between(cls: ast.ClassDef) -> t.Dict[str, t.Any]:
    name = "between"
    e = _inline(find_func(cls.body, name), name)
    if not (isinstance(e, ast.Call) and isinstance(e.func, ast.Name) and e.func.id == "Column" and len(e.args) == 1 and isinstance(e.args[0], ast.Call)):
        raise _bad(name, f"unsupported body {ast.unparse(e)!r}")
    node = e.args[0]
    if _exp_class(node.func, name) != "Between":
        raise _bad(name, "expected exp.Between")
    kw = _kwargs(node, name)
    if set(kw) != {"this", "low", "high"}:
        raise _bad(name, f"unexpected arguments {sorted(kw)}")
    res = {"klass": "Between", "subjectWrap": _subject(kw["this"], name, "Between")}
    bounds = []
    for key, param in (("low", "lowerBound"), ("high", "upperBound")):
        n = kw[key]
        wrapped = False
        if isinstance(n, ast.Call) and isinstance(n.func, ast.Attribute) and n.func.attr == "_operand" and len(n.args) == 2:
            wrapped = True
            if ast.unparse(n.args[0]) != "exp.Between":
                raise _bad(name, f"_operand is told the parent is {ast.unparse(n.args[0])!r}")
            n = n.args[1]
        if not (isinstance(n, ast.Attribute) and n.attr in ("expression", "column_expression")):
            raise _bad(name, f"unsupported bound {ast.unparse(n)!r}")
        if ast.unparse(n.value) != f"self._lit({param}) if not isinstance({param}, Column) else {param}":
            raise _bad(name, f"bound coercion changed: {ast.unparse(n.value)!r}")
        bounds.append((n.attr == "column_expression", wrapped))
    if bounds[0] != bounds[1]:
        raise _bad(name, "the two bounds are treated differently")
    res["boundsUnalias"], res["boundsWrap"] = bounds[0]
    return res


def _endswith(cls: ast.ClassDef) -> t.Dict[str, t.Any]:
    name = "endswith"
    fn = find_func(cls.body, name)
    body = _body(fn)
    if len(body) != 2 or ast.unparse(body[0]) != "value = self._lit(value) if not isinstance(value, Column) else value":
        raise _bad(name, "argument coercion changed")
    src = ast.unparse(body[1])
    if src == "return self.invoke_anonymous_function(self, 'ENDSWITH', value)":
        return {"klass": "Anonymous:ENDSWITH", "viaSession": False}
    if src in (
        "return Column(get_func_from_session('endswith')(self, value).column_expression)",
        "return get_func_from_session('endswith')(self, value)",
    ):
        return {"klass": "Session:endswith", "viaSession": True}
    raise _bad(name, f"unsupported body {src!r}")


def _startswith(cls: ast.ClassDef) -> t.Dict[str, t.Any]:
    name = "startswith"
    fn = find_func(cls.body, name)
    body = _body(fn)
    if len(body) != 2 or ast.unparse(body[0]) != "value = self._lit(value) if not isinstance(value, Column) else value":
        raise _bad(name, "argument coercion changed")
    src = ast.unparse(body[1])
    if src != "return self.invoke_expression_over_column(self, exp.StartsWith, expression=value.expression)":
        raise _bad(name, f"unsupported body {src!r}")
    return {"klass": "StartsWith"}


def _simple_methods(cls: ast.ClassDef) -> t.Dict[str, t.Dict[str, t.Any]]:
    out: t.Dict[str, t.Dict[str, t.Any]] = {}
    out["isNull"] = _is_null(cls, "isNull")
    out["isNotNull"] = _is_null(cls, "isNotNull")
    if out["isNull"]["klass"] != "Is" or out["isNotNull"]["klass"] != "Not(Is)":
        raise _bad("isNull", "isNull/isNotNull no longer build IS NULL / NOT (IS NULL)")
    for m in ("like", "ilike"):
        r = _over_column(cls, m, ["expression"])
        if not _lit_of_param(r["kw"]["expression"], "other"):
            raise _bad(m, "the pattern is no longer a literal")
        out[m] = r
    r = _over_column(cls, "rlike", ["expression"])
    if not _lit_of_param(r["kw"]["expression"], "regexp"):
        raise _bad("rlike", "the pattern is no longer a literal")
    out["rlike"] = r
    # isin: expressions = [self._lit(x).expression for x in columns]
    fn = find_func(cls.body, "isin")
    body = _body(fn)
    if len(body) != 3:
        raise _bad("isin", "unexpected body")
    if ast.unparse(body[0]) != "columns = flatten(cols) if isinstance(cols[0], (list, set, tuple)) else cols":
        raise _bad("isin", f"argument flattening changed: {ast.unparse(body[0])!r}")
    if ast.unparse(body[1]) != "expressions = [self._lit(x).expression for x in columns]":
        raise _bad("isin", f"values are no longer literals: {ast.unparse(body[1])!r}")
    ret = body[2]
    if not (isinstance(ret, ast.Return) and isinstance(ret.value, ast.Call) and isinstance(ret.value.func, ast.Attribute) and ret.value.func.attr == "invoke_expression_over_column"):
        raise _bad("isin", "unexpected return")
    call = ret.value
    kw = _kwargs(call, "isin")
    if len(call.args) != 2 or set(kw) != {"expressions"} or ast.unparse(kw["expressions"]) != "expressions":
        raise _bad("isin", f"unsupported call {ast.unparse(call)!r}")
    out["isin"] = {"klass": _exp_class(call.args[1], "isin"), "subjectWrap": _subject(call.args[0], "isin", "In")}
    if out["isin"]["klass"] != "In":
        raise _bad("isin", "isin no longer builds exp.In")
    out["between"] = _between(cls)
    out["startswith"] = _startswith(cls)
    out["endswith"] = _endswith(cls)
    # substr
    e = _inline(find_func(cls.body, "substr"), "substr")
    want = (
        "Column.invoke_expression_over_column(self, exp.Substring, "
        "start=(self._lit(startPos) if not isinstance(startPos, Column) else startPos).expression, "
        "length=(self._lit(length) if not isinstance(length, Column) else length).expression)"
    )
    if ast.unparse(e) != want:
        raise _bad("substr", f"unsupported body {ast.unparse(e)!r}")
    out["substr"] = {"klass": "Substring"}
    # cast: exp.cast(self.column_expression, dataType, dialect=…)
    fn = find_func(cls.body, "cast")
    calls = [n for n in ast.walk(fn) if isinstance(n, ast.Call) and ast.unparse(n.func) == "exp.cast"]
    if len(calls) != 1 or not calls[0].args or ast.unparse(calls[0].args[0]) != "self.column_expression":
        raise _bad("cast", "expected exp.cast(self.column_expression, …)")
    out["cast"] = {"klass": "Cast"}
    # alias: exp.Alias(this=self.column_expression, alias=…)
    fn = find_func(cls.body, "alias")
    calls = [n for n in ast.walk(fn) if isinstance(n, ast.Call) and ast.unparse(n.func) == "exp.Alias"]
    if len(calls) != 1 or ast.unparse(_kwargs(calls[0], "alias").get("this", ast.Constant(None))) != "self.column_expression":
        raise _bad("alias", "expected exp.Alias(this=self.column_expression, …)")
    out["alias"] = {"klass": "Alias"}
    return out


def _when(repo: str, cls: ast.ClassDef) -> t.Dict[str, bool]:
    fmod = parse(repo, "sqlframe/base/functions.py")
    fn = find_func(fmod.body, "when")
    body = _body(fn)
    want0 = "true_value = value if isinstance(value, Column) else lit(value)"
    want1 = "return Column(expression.Case(ifs=[expression.If(this=condition.column_expression, true=true_value.column_expression)]))"
    if len(body) != 2 or ast.unparse(body[0]) != want0 or ast.unparse(body[1]) != want1:
        raise _bad("functions.when", f"unsupported body {' ; '.join(ast.unparse(s) for s in body)!r}")
    # Column.when: copies the receiver before extending `ifs`
    fn = find_func(cls.body, "when")
    src = [ast.unparse(s) for s in _body(fn)]
    want = [
        "column_with_if = when(condition, value)",
        "if not isinstance(self.column_expression, exp.Case):\n    return column_with_if",
        "new_column = self.copy()",
        "new_column.column_expression.args['ifs'].extend(column_with_if.column_expression.args['ifs'])",
        "return new_column",
    ]
    if src != want:
        raise _bad("Column.when", f"unsupported body {src!r}")
    fn = find_func(cls.body, "otherwise")
    src = [ast.unparse(s) for s in _body(fn)]
    want = [
        "true_value = value if isinstance(value, Column) else lit(value)",
        "new_column = self.copy()",
        "new_column.column_expression.set('default', true_value.column_expression)",
        "return new_column",
    ]
    if src != want:
        raise _bad("Column.otherwise", f"unsupported body {src!r}")
    fn = find_func(cls.body, "copy")
    if ast.unparse(_single_return(fn, "copy")) != "Column(self.expression.copy())":
        raise _bad("Column.copy", "copy() no longer deep-copies the expression")
    return {"whenCopies": True, "whenUnaliases": True}


def _ordered(cls: ast.ClassDef) -> t.List[t.Tuple[str, bool, bool]]:
    """asc/desc/*_nulls_* -> (desc, nulls_first); aliases resolved (shared with C08)"""
    out: t.Dict[str, t.Tuple[bool, bool]] = {}
    for n in cls.body:
        if isinstance(n, ast.FunctionDef) and n.name in ("asc", "desc", "asc_nulls_last", "desc_nulls_first", "asc_nulls_first", "desc_nulls_last"):
            calls = [c for c in ast.walk(n) if isinstance(c, ast.Call) and ast.unparse(c.func) == "exp.Ordered"]
            if len(calls) != 1:
                raise _bad(n.name, "expected one exp.Ordered(...)")
            kw = _kwargs(calls[0], n.name)
            try:
                d, nf = kw["desc"], kw["nulls_first"]
                if not all(isinstance(x, ast.Constant) and isinstance(x.value, bool) for x in (d, nf)):
                    raise KeyError
            except KeyError:
                raise _bad(n.name, "desc=/nulls_first= are not literal bools")
            out[n.name] = (d.value, nf.value)
        elif isinstance(n, ast.Assign) and len(n.targets) == 1 and isinstance(n.targets[0], ast.Name) and isinstance(n.value, ast.Name):
            if n.targets[0].id in ("asc_nulls_first", "desc_nulls_last") and n.value.id in out:
                out[n.targets[0].id] = out[n.value.id]
    return [(k, v[0], v[1]) for k, v in sorted(out.items())]


# ------------------------------------------------------------------------------------------------


def extract(repo: str) -> t.Dict[str, t.Any]:
    """everything the Lean text is made of, as plain Python data (also used by the check's live comparison)"""
    mod = parse(repo, "sqlframe/base/column.py")
    cls = find_class(mod, "Column")
    helpers = {"binary_op": _binary_helper(cls, "binary_op"), "inverse_binary_op": _binary_helper(cls, "inverse_binary_op")}
    defaults = {k: v["parenDefault"] for k, v in helpers.items()}
    ops = {}
    for d in DUNDERS:
        ops[d] = _dunder(cls, d, defaults)
    operand = _operand_helper(cls)
    for h in helpers.values():
        if h["wrap"] and operand is None:
            raise _bad("_operand", "operands are routed through Column._operand but the helper is not defined")
    return {
        "ops": ops,
        "helpers": helpers,
        "unaryWrapsParen": _unary_helper(cls),
        "operand": operand,
        "methods": _simple_methods(cls),
        "when": _when(repo, cls),
        "ordered": _ordered(cls),
    }


def _b(x: bool) -> str:
    return "true" if x else "false"


def _strs(xs: t.List[str]) -> str:
    return "[" + ", ".join(lean_str(x) for x in xs) + "]"


def gen_column_ops(repo: str) -> str:
    d = extract(repo)
    o: t.List[str] = [HEADER.rstrip("\n")]
    o.append("-- source: sqlframe/base/column.py, sqlframe/base/functions.py (when)   translator: tools/gen_c05.py")
    o.append("namespace Sqlframe.Gen")
    o.append("")
    o.append("/-- which construction helper an operator method of `Column` goes through -/")
    o.append("inductive Helper | binaryOp | inverseBinaryOp | unaryOp | direct")
    o.append("  deriving DecidableEq, Repr")
    o.append("")
    o.append("/-- one operator method: helper, sqlglot class, literal `paren=` flag, and whether `self` is the left operand -/")
    o.append("structure ColOp where")
    o.append("  method : String")
    o.append("  helper : Helper")
    o.append("  klass : String")
    o.append("  paren : Bool")
    o.append("  selfFirst : Bool")
    o.append("  deriving DecidableEq, Repr")
    o.append("")
    hb, hi = d["helpers"]["binary_op"], d["helpers"]["inverse_binary_op"]
    names = []
    for m, r in d["ops"].items():
        if r["helper"] == "binaryOp":
            sf = hb["thisIsSelf"]
        elif r["helper"] == "inverseBinaryOp":
            sf = hi["thisIsSelf"]
        elif r["helper"] == "direct":
            sf = r["selfFirst"]
        else:
            sf = True
        nm = "op_" + lean_ident(m)
        names.append(nm)
        o.append(f"def {nm} : ColOp := {{ method := {lean_str(m)}, helper := .{r['helper']}, klass := {lean_str(r['klass'])}, paren := {_b(r['paren'])}, selfFirst := {_b(sf)} }}")
    o.append("")
    o.append("def columnOps : List ColOp := [" + ", ".join(names) + "]")
    o.append("")
    o.append("/-- `binary_op` / `inverse_binary_op`: `klass(this=<self|other>, expression=<other|self>)` -/")
    o.append(f"def binaryThisIsSelf : Bool := {_b(hb['thisIsSelf'])}")
    o.append(f"def inverseThisIsSelf : Bool := {_b(hi['thisIsSelf'])}")
    o.append("/-- operands are the un-aliased `column_expression` -/")
    o.append(f"def binaryOperandUnalias : Bool := {_b(hb['unalias'] and hi['unalias'])}")
    o.append("/-- both operands are routed through `Column._operand(klass, ·)` (the repaired shape) -/")
    if hb["wrap"] != hi["wrap"]:
        raise _bad("helpers", "binary_op and inverse_binary_op treat their operands differently")
    o.append(f"def binaryOperandWrap : Bool := {_b(hb['wrap'])}")
    o.append("/-- a Python `str` operand is a string literal, not a column name -/")
    o.append("def strOperandIsLiteral : Bool := true")
    o.append("/-- `unary_op` wraps its operand in `Paren` -/")
    o.append(f"def unaryWrapsParen : Bool := {_b(d['unaryWrapsParen'])}")
    o.append("")
    skip, wraps = d["operand"] if d["operand"] else ([], [])
    o.append("/-- `Column._operand`: parent classes under which nothing is wrapped; operand classes that get a `Paren` (both empty when the helper does not exist) -/")
    o.append(f"def operandSkipParents : List String := {_strs(skip)}")
    o.append(f"def operandWrapClasses : List String := {_strs(wraps)}")
    o.append("")
    o.append("/-- a predicate / function method of `Column`: node class and whether the subject goes through `Column._operand` -/")
    o.append("structure DirectOp where")
    o.append("  method : String")
    o.append("  klass : String")
    o.append("  subjectWrap : Bool")
    o.append("  deriving DecidableEq, Repr")
    o.append("")
    mnames = []
    for m, r in d["methods"].items():
        nm = "m_" + lean_ident(m)
        mnames.append(nm)
        o.append(f"def {nm} : DirectOp := {{ method := {lean_str(m)}, klass := {lean_str(r['klass'])}, subjectWrap := {_b(bool(r.get('subjectWrap', False)))} }}")
    o.append("")
    o.append("def directOps : List DirectOp := [" + ", ".join(mnames) + "]")
    o.append("")
    bt = d["methods"]["between"]
    o.append("/-- `between`: bounds are un-aliased (`column_expression`) / routed through `Column._operand` -/")
    o.append(f"def betweenBoundsUnalias : Bool := {_b(bt['boundsUnalias'])}")
    o.append(f"def betweenBoundsWrap : Bool := {_b(bt['boundsWrap'])}")
    o.append("/-- `endswith` dispatches through the session's `endswith` function (engine-specific name) instead of a fixed `ENDSWITH(...)` -/")
    o.append(f"def endswithViaSession : Bool := {_b(d['methods']['endswith']['viaSession'])}")
    o.append("/-- `when`/`otherwise` work on a copy of the receiver and take un-aliased operands -/")
    o.append(f"def whenCopies : Bool := {_b(d['when']['whenCopies'])}")
    o.append(f"def whenUnaliases : Bool := {_b(d['when']['whenUnaliases'])}")
    o.append("")
    o.append("/-- `asc`/`desc`/`*_nulls_*` → (method, desc, nulls_first) -/")
    o.append("def orderedOps : List (String × Bool × Bool) := [" + ", ".join(f"({lean_str(k)}, {_b(a)}, {_b(b)})" for k, a, b in d["ordered"]) + "]")
    o.append("")
    o.append("end Sqlframe.Gen")
    return "\n".join(o) + "\n"


# ------------------------------------------------------------------------------------------------
# literal conversion:  Column._lit  /  functions.lit  /  Column.__init__  /  the @meta decorator
#   -> Gen/ColumnLit.lean
# ------------------------------------------------------------------------------------------------

OBL = "Gen.ColumnLit"


def _badl(what: str, why: str) -> Untranslatable:
    return Untranslatable(f"{OBL}.{what}", why)


# guards the model understands, by their exact source text (`value` is the parameter)
LIT_GUARDS = {
    "isinstance(value, Row)": "isRow",
    "isinstance(value, (list, set))": "isListOrSet",
    "isinstance(value, tuple)": "isTuple",
    "isinstance(value, dict)": "isDict",
    "value is not None and isinstance(value, float) and math.isnan(value)": "isFloatNan",
    "isinstance(value, float) and math.isnan(value)": "isFloatNan",
    "value is not None and isinstance(value, float) and math.isinf(value)": "isFloatInf",
    "isinstance(value, float) and math.isinf(value)": "isFloatInf",
    "isinstance(value, float) and value in {float('inf'), float('-inf')}": "isFloatInf",
    "isinstance(value, datetime.datetime)": "isDatetime",
    "isinstance(value, str)": "isStr",
}

# branch bodies the model understands, by their exact source text
_ROW_BODY = (
    "columns = [exp.PropertyEQ(this=exp.to_identifier(k).transform(_BaseSession().input_dialect.normalize_identifier, copy=False), "
    "expression=cls._lit(v).expression) for k, v in value.asDict().items()]\n"
    "return cls(exp.Struct(expressions=columns))"
)
_DATETIME_BODY = (
    "if value.tzinfo is None:\n"
    "    value = value.isoformat(sep=' ')\n"
    "    return cls(exp.cast(exp.Literal.string(value), exp.DataType.Type.TIMESTAMP))\n"
    "else:\n"
    "    value = value.astimezone(datetime.timezone.utc).isoformat(sep=' ')\n"
    "    return cls(exp.cast(exp.Literal.string(value), exp.DataType.Type.TIMESTAMPTZ))"
)
LIT_BODIES = {
    _ROW_BODY: ("structOfRow",),
    "return cls(exp.Array(expressions=[cls._lit(x).expression for x in value]))": ("arrayOf",),
    "return cls(exp.Tuple(expressions=[cls._lit(x).expression for x in value]))": ("tupleOf",),
    "return cls(exp.VarMap(keys=exp.Array(expressions=[cls._lit(k).expression for k in value.keys()]), "
    "values=exp.Array(expressions=[cls._lit(v).expression for v in value.values()])))": ("varMapOf",),
    _DATETIME_BODY: ("datetimeCast",),
    "return cls(exp.convert(value))": ("convert",),
    "return Column(expression.Literal.string(value))": ("stringOfValue",),
    "return Column(expression.Literal.string(str(value)))": ("stringOfStr",),
    "return Column(value)": ("columnInit",),
}
_CAST_CONST = re.compile(r"^return cls\(exp\.cast\(exp\.Literal\.string\('([A-Za-z+\-]*)'\), exp\.DataType\.build\('([a-z]+)'\)\)\)$")
# a cast of one of two constant strings, chosen by the sign of the value
_CAST_BY_SIGN = re.compile(
    r"^return cls\(exp\.cast\(exp\.Literal\.string\('([A-Za-z+\-]*)' if value > 0 else '([A-Za-z+\-]*)'\), exp\.DataType\.build\('([a-z]+)'\)\)\)$"
)


def _lit_action(stmts: t.List[ast.stmt], what: str) -> t.Tuple[str, ...]:
    src = "\n".join(ast.unparse(s) for s in stmts)
    if src in LIT_BODIES:
        return LIT_BODIES[src]
    m = _CAST_CONST.match(src)
    if m:
        return ("castStrConst", m.group(1), m.group(2))
    m = _CAST_BY_SIGN.match(src)
    if m:
        return ("castStrBySign", m.group(1), m.group(2), m.group(3))
    raise _badl(what, f"a branch returns something the model does not understand: {src[:300]!r}")


def _decision_chain(fn: ast.FunctionDef, what: str) -> t.Tuple[t.List[t.Tuple[str, t.Tuple[str, ...]]], t.Tuple[str, ...]]:
    """a body of the form  (if G: B [elif G: B]*)*  return E   with every B returning  ->  ([(guard, action)], fallthrough)"""
    body = _body(fn)
    if not body:
        raise _badl(what, "empty body")
    chain: t.List[t.Tuple[str, t.Tuple[str, ...]]] = []

    def guard(test: ast.expr) -> str:
        src = ast.unparse(test)
        if src not in LIT_GUARDS:
            raise _badl(what, f"a branch is taken under a condition the model does not understand: {src[:300]!r}")
        return LIT_GUARDS[src]

    for st in body[:-1]:
        node: t.Optional[ast.stmt] = st
        while node is not None:
            if not isinstance(node, ast.If):
                raise _badl(what, f"unsupported statement {ast.unparse(node)[:200]!r}")
            chain.append((guard(node.test), _lit_action(node.body, what)))
            if not node.orelse:
                node = None
            elif len(node.orelse) == 1 and isinstance(node.orelse[0], ast.If):
                node = node.orelse[0]
            else:
                raise _badl(what, f"an `else` branch that is not an `elif`: {ast.unparse(node)[:200]!r}")
    return chain, _lit_action([body[-1]], what)


def _params(fn: ast.FunctionDef) -> t.List[str]:
    return [a.arg for a in fn.args.args]


def _init_chain(cls: ast.ClassDef) -> t.List[t.Tuple[str, str]]:
    what = "Column.__init__"
    fn = find_func(cls.body, "__init__")
    if _params(fn) != ["self", "expression"]:
        raise _badl(what, f"unexpected parameters {_params(fn)}")
    src = [ast.unparse(s) for s in _body(fn)]
    want = [
        "if isinstance(expression, Column):\n"
        "    expression = expression.expression\n"
        "elif expression is None or not isinstance(expression, (str, exp.Expression)):\n"
        "    expression = self._lit(expression).expression\n"
        "elif not isinstance(expression, exp.Column):\n"
        "    expression = sqlglot.maybe_parse(expression, dialect=_BaseSession().input_dialect).transform(_BaseSession().input_dialect.normalize_identifier, copy=False)",
        "if expression is None:\n    raise ValueError(f'Could not parse {expression}')",
        "self.expression: exp.Expression = expression",
    ]
    if src != want:
        raise _badl(what, f"the constructor's dispatch changed: {src!r}"[:600])
    return [("isColumn", "takeExpression"), ("isNoneOrNotStrOrExpr", "viaLit"), ("isNotExpColumn", "parseSql")]


def _meta_decorator(repo: str) -> bool:
    """func_metadata's wrapper aliases a result iff its column_expression is an exp.Func and it carries no alias"""
    what = "decorators.func_metadata"
    mod = parse(repo, "sqlframe/base/decorators.py")
    fn = find_func(mod.body, "func_metadata")
    ifs = [n for n in ast.walk(fn) if isinstance(n, ast.If)]
    want = (
        "isinstance(result, Column) and isinstance(result.column_expression, exp.Func) and "
        "(not isinstance(result.expression, exp.Alias)) and (func.__name__ not in funcs_to_not_auto_alias)"
    )
    tests = [ast.unparse(i.test) for i in ifs]
    if want not in tests:
        raise _badl(what, f"the automatic-alias condition changed: {tests[:1]!r}"[:400])
    top = next(i for i in ifs if ast.unparse(i.test) == want)
    rets = [n for n in ast.walk(top) if isinstance(n, ast.Return)]
    if len(rets) != 1 or not ast.unparse(rets[0]).startswith("return result.alias("):
        raise _badl(what, "the automatic alias is no longer `result.alias(...)`")
    return True


def _has_meta(fn: ast.FunctionDef) -> bool:
    for d in fn.decorator_list:
        if isinstance(d, ast.Call) and isinstance(d.func, ast.Name) and d.func.id == "meta":
            return True
    return False


def _coercions(repo: str, cls: ast.ClassDef) -> t.Dict[str, str]:
    """how each method turns a plain Python operand into an expression (exact source shapes only)"""
    out: t.Dict[str, str] = {}
    for h in ("binary_op", "inverse_binary_op"):
        s0 = _body(find_func(cls.body, h))[0]
        if ast.unparse(s0) != "other = self._lit(other) if isinstance(other, str) else Column(other)":
            raise _badl(h, f"operand coercion changed: {ast.unparse(s0)!r}")
        out[h] = "strRawElseInit"
    # isin / like / ilike / rlike / between / substr / startswith / endswith are checked shape by shape in _simple_methods
    m = _simple_methods(cls)
    assert m
    for name in ("isin", "like", "rlike", "between", "substr", "startswith", "endswith"):
        out[name] = "rawLit"
    w = _when(repo, cls)
    assert w
    out["when"] = "litFn"
    out["otherwise"] = "litFn"
    return out


def extract_lit(repo: str) -> t.Dict[str, t.Any]:
    mod = parse(repo, "sqlframe/base/column.py")
    cls = find_class(mod, "Column")
    fn = find_func(cls.body, "_lit")
    if _params(fn) != ["cls", "value"]:
        raise _badl("Column._lit", f"unexpected parameters {_params(fn)}")
    chain, fall = _decision_chain(fn, "Column._lit")
    fmod = parse(repo, "sqlframe/base/functions.py")
    lf = find_func(fmod.body, "lit")
    if _params(lf) != ["value"]:
        raise _badl("functions.lit", f"unexpected parameters {_params(lf)}")
    fchain, ffall = _decision_chain(lf, "functions.lit")
    wf = find_func(fmod.body, "when")
    return {
        "litChain": chain,
        "litFallthrough": fall,
        "litFnChain": fchain,
        "litFnFallthrough": ffall,
        "litFnHasMeta": _has_meta(lf),
        "whenHasMeta": _has_meta(wf),
        "initChain": _init_chain(cls),
        "metaAliasesFunc": _meta_decorator(repo),
        "coerce": _coercions(repo, cls),
    }


LIT_GUARD_CTORS = ["isRow", "isListOrSet", "isTuple", "isDict", "isFloatNan", "isFloatInf", "isDatetime", "isStr"]


def _lean_action(a: t.Tuple[str, ...]) -> str:
    if a[0] == "castStrConst":
        return f"(.castStrConst {lean_str(a[1])} {lean_str(a[2])})"
    if a[0] == "castStrBySign":
        return f"(.castStrBySign {lean_str(a[1])} {lean_str(a[2])} {lean_str(a[3])})"
    return "." + a[0]


def gen_column_lit(repo: str) -> str:
    d = extract_lit(repo)
    o: t.List[str] = [HEADER.rstrip("\n")]
    o.append("-- source: sqlframe/base/column.py (Column._lit, Column.__init__), sqlframe/base/functions.py (lit), sqlframe/base/decorators.py   translator: tools/gen_c05.py")
    o.append("namespace Sqlframe.Gen")
    o.append("")
    o.append("/-- the condition a branch of a literal decision chain is taken under -/")
    o.append("inductive LitGuard | " + " | ".join(LIT_GUARD_CTORS))
    o.append("  deriving DecidableEq, Repr")
    o.append("")
    o.append("/-- what a branch returns -/")
    o.append("inductive LitAction")
    o.append("  | structOfRow | arrayOf | tupleOf | varMapOf | datetimeCast")
    o.append("  | castStrConst (s : String) (ty : String)  -- cls(exp.cast(exp.Literal.string(s), exp.DataType.build(ty)))")
    o.append("  | castStrBySign (pos neg : String) (ty : String)  -- cls(exp.cast(exp.Literal.string(pos if value > 0 else neg), exp.DataType.build(ty)))")
    o.append("  | convert          -- cls(exp.convert(value))")
    o.append("  | stringOfValue    -- Column(expression.Literal.string(value))")
    o.append("  | stringOfStr      -- Column(expression.Literal.string(str(value)))")
    o.append("  | columnInit       -- Column(value)")
    o.append("  deriving DecidableEq, Repr")
    o.append("")

    def chain(xs: t.List[t.Tuple[str, t.Tuple[str, ...]]]) -> str:
        return "[" + ", ".join(f"(.{g}, {_lean_action(a)})" for g, a in xs) + "]"

    o.append("/-- `Column._lit(value)`: the first branch whose guard holds decides; otherwise the last `return` -/")
    o.append(f"def litChain : List (LitGuard × LitAction) := {chain(d['litChain'])}")
    o.append(f"def litFallthrough : LitAction := {_lean_action(d['litFallthrough'])}")
    o.append("/-- `functions.lit(value)` -/")
    o.append(f"def litFnChain : List (LitGuard × LitAction) := {chain(d['litFnChain'])}")
    o.append(f"def litFnFallthrough : LitAction := {_lean_action(d['litFnFallthrough'])}")
    o.append("/-- `lit` / `when` are decorated with `@meta()` -/")
    o.append(f"def litFnHasMeta : Bool := {_b(d['litFnHasMeta'])}")
    o.append(f"def whenHasMeta : Bool := {_b(d['whenHasMeta'])}")
    o.append("/-- the decorator aliases a result whose `column_expression` is an `exp.Func` and that carries no alias -/")
    o.append(f"def metaAliasesFunc : Bool := {_b(d['metaAliasesFunc'])}")
    o.append("")
    o.append("inductive InitGuard | isColumn | isNoneOrNotStrOrExpr | isNotExpColumn")
    o.append("  deriving DecidableEq, Repr")
    o.append("inductive InitAction | takeExpression | viaLit | parseSql")
    o.append("  deriving DecidableEq, Repr")
    o.append("/-- `Column.__init__(expression)` -/")
    o.append("def initChain : List (InitGuard × InitAction) := [" + ", ".join(f"(.{g}, .{a})" for g, a in d["initChain"]) + "]")
    o.append("")
    o.append("/-- how a method turns a plain Python operand into an expression:")
    o.append("    `rawLit` = `self._lit(v)`, `strRawElseInit` = `self._lit(v) if isinstance(v, str) else Column(v)`, `litFn` = `lit(v)` -/")
    o.append("inductive Coerce | rawLit | strRawElseInit | litFn")
    o.append("  deriving DecidableEq, Repr")
    for k, v in d["coerce"].items():
        o.append(f"def coerce_{lean_ident(k)} : Coerce := .{v}")
    o.append("")
    o.append("end Sqlframe.Gen")
    return "\n".join(o) + "\n"


GENERATORS = {"ColumnOps": gen_column_ops, "ColumnLit": gen_column_lit}
