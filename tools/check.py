#!/venv/bin/python
"""
check.py — entry point:  ./check <Cxx> [--tier quick|thorough] [--replay file]

exit 0: property held on everything explored (KNOWN-FINDING lines allowed)
exit 1: a `VIOLATION property=<id> replay=<path>` line was printed
exit 2: infrastructure error / timeout
"""
from __future__ import annotations

import argparse
import importlib
import json
import os
import subprocess
import sys
import traceback

HERE = os.path.dirname(os.path.abspath(__file__))
sys.path.insert(0, HERE)
sys.path.insert(0, os.path.join(HERE, "props"))

import vlib  # noqa: E402


def _descendants(pid: int) -> list:
    kids = {}
    for d in os.listdir("/proc"):
        if d.isdigit():
            try:
                with open(f"/proc/{d}/stat") as f:
                    parts = f.read().rsplit(")", 1)[1].split()
                kids.setdefault(int(parts[1]), []).append(int(d))
            except Exception:
                pass
    out, todo = [], [pid]
    while todo:
        for k in kids.get(todo.pop(), []):
            out.append(k)
            todo.append(k)
    return out


def _arm_watchdog(seconds: int) -> None:
    """a check that hangs (a deadlocked worker pool, an engine that never answers) ends with exit 2 instead of running for ever"""
    import signal

    def on_alarm(signum, frame):  # noqa
        print(f"check: no result after {seconds}s; giving up (exit 2)", file=sys.stderr, flush=True)
        for k in _descendants(os.getpid()):
            try:
                os.kill(k, signal.SIGKILL)
            except Exception:
                pass
        os._exit(2)

    signal.signal(signal.SIGALRM, on_alarm)
    signal.alarm(seconds)


def main() -> int:
    ap = argparse.ArgumentParser()
    ap.add_argument("prop")
    ap.add_argument("--tier", default=os.environ.get("VERIF_TIER", "quick"), choices=["quick", "thorough"])
    ap.add_argument("--replay", default=None)
    a = ap.parse_args()
    prop = a.prop.upper()
    try:
        seed = int(os.environ.get("VERIF_SEED", "0"))
    except ValueError:
        seed = 0
    os.chdir(vlib.VERIF)
    try:
        mod = importlib.import_module(prop.lower())
    except ModuleNotFoundError:
        print(f"no check for {prop}", file=sys.stderr)
        return 2
    ctx = vlib.Ctx(prop, a.tier, seed)
    if not a.replay:
        import glob

        for old in glob.glob(os.path.join(vlib.OUT_DIR, "replays", prop, "*.json")):
            os.remove(old)
    _arm_watchdog(int(os.environ.get("VERIF_TIMEOUT", "2400" if a.tier == "quick" else "7200")))
    try:
        if a.replay:
            replay = json.load(open(a.replay))
            mod.replay(ctx, replay)
        else:
            mod.run(ctx)
    except (subprocess.TimeoutExpired, TimeoutError, MemoryError, KeyboardInterrupt) as e:
        traceback.print_exc()
        ctx.cov.setdefault("explanation", f"infrastructure error: {type(e).__name__}")
        try:
            vlib.write_evidence(ctx, getattr(mod, "LEVEL", "proof"))
        except Exception:
            pass
        return 2
    except Exception as e:
        # the harness met something it cannot evaluate (an implementation result of an unexpected shape, a model that
        # no longer builds, a driver that rejects its input): the correspondence no longer checks.  That is not an
        # infrastructure error: the property is no longer shown to hold, and no failing input was found.
        tb = traceback.format_exc()
        print(tb, file=sys.stderr, flush=True)
        if a.replay:
            return 2
        ctx.broken.append(f"the check could not be completed: {type(e).__name__}: {str(e)[:300]}")
        if not ctx.violations:
            vlib.report_violation(ctx, {"kind": "the correspondence check raised an exception before it could decide; no failing input found",
                                        "broken": ctx.broken, "traceback": tb[-4000:]}, no_input=True)
        ctx.cov.setdefault("explanation", "the check raised an exception (reported as a broken correspondence)")
        try:
            vlib.write_evidence(ctx, getattr(mod, "LEVEL", "proof"))
        except Exception:
            pass
        n = len(ctx.violations)
        print(f"{prop} tier={a.tier} seed={seed}: VIOLATIONS={n}; check raised {type(e).__name__}; {ctx.elapsed():.1f}s", flush=True)
        return 1
    if not a.replay:
        vlib.write_evidence(ctx, getattr(mod, "LEVEL", "proof"))
    n = len(ctx.violations)
    print(
        f"{prop} tier={a.tier} seed={seed}: {'VIOLATIONS=' + str(n) if n else 'ok'}; "
        f"known-findings={len(ctx.known_hits)}; obligations {ctx.cov.get('discharged', 0)}/{ctx.cov.get('obligations', 0)}; "
        f"cases={ctx.cov.get('evaluations', 0)}; {ctx.elapsed():.1f}s",
        flush=True,
    )
    return 1 if n else 0


if __name__ == "__main__":
    sys.exit(main())
