#!/venv/bin/python
"""
check.py — entry point:  ./check <Cxx> [--tier quick|thorough] [--replay file]

exit 0: property held on everything explored (KNOWN-FINDING lines allowed)
exit 1: a `VIOLATION property=<id> replay=<path>` line was printed
exit 2: infrastructure error / timeout
"""
from __future__ import annotations

import argparse
import importlib
import json
import os
import sys
import traceback

HERE = os.path.dirname(os.path.abspath(__file__))
sys.path.insert(0, HERE)
sys.path.insert(0, os.path.join(HERE, "props"))

import vlib  # noqa: E402


def main() -> int:
    ap = argparse.ArgumentParser()
    ap.add_argument("prop")
    ap.add_argument("--tier", default=os.environ.get("VERIF_TIER", "quick"), choices=["quick", "thorough"])
    ap.add_argument("--replay", default=None)
    a = ap.parse_args()
    prop = a.prop.upper()
    try:
        seed = int(os.environ.get("VERIF_SEED", "0"))
    except ValueError:
        seed = 0
    os.chdir(vlib.VERIF)
    try:
        mod = importlib.import_module(prop.lower())
    except ModuleNotFoundError:
        print(f"no check for {prop}", file=sys.stderr)
        return 2
    ctx = vlib.Ctx(prop, a.tier, seed)
    if not a.replay:
        import glob

        for old in glob.glob(os.path.join(vlib.OUT_DIR, "replays", prop, "*.json")):
            os.remove(old)
    try:
        if a.replay:
            replay = json.load(open(a.replay))
            mod.replay(ctx, replay)
        else:
            mod.run(ctx)
    except Exception:
        traceback.print_exc()
        ctx.cov.setdefault("explanation", "infrastructure error")
        try:
            vlib.write_evidence(ctx, getattr(mod, "LEVEL", "proof"))
        except Exception:
            pass
        return 2
    if not a.replay:
        vlib.write_evidence(ctx, getattr(mod, "LEVEL", "proof"))
    n = len(ctx.violations)
    print(
        f"{prop} tier={a.tier} seed={seed}: {'VIOLATIONS=' + str(n) if n else 'ok'}; "
        f"known-findings={len(ctx.known_hits)}; obligations {ctx.cov.get('discharged', 0)}/{ctx.cov.get('obligations', 0)}; "
        f"cases={ctx.cov.get('evaluations', 0)}; {ctx.elapsed():.1f}s",
        flush=True,
    )
    return 1 if n else 0


if __name__ == "__main__":
    sys.exit(main())
