"""
c20_spec.py — Python port of the SPECIFICATION side of C20 (lean/SqlframeModel/Impl/C20Spec.lean: documented import
paths, the object each must yield per engine, the abstract state machine, the hypotheses that are decidable on the
event list alone).  It is used

  * on every run, to cross-check the Lean specification trace (a disagreement is reported as a broken obligation), and
  * as the oracle when the Lean model cannot be run (the translator no longer understands sqlframe/__init__.py): the
    real implementation is then still judged against the documented behaviour and a concrete failing input is reported.

JSON shapes are exactly those of the Lean driver (Codec/C20.lean).
"""
from __future__ import annotations

import typing as t

SHARED = ["Column", "Row", "Window", "WindowSpec"]
DOC_MODULE_NAMES: t.List[t.Tuple[str, t.List[str]]] = [
    ("session", ["SparkSession"]),
    ("catalog", ["Catalog"]),
    ("column", ["Column"]),
    ("dataframe", ["DataFrame", "DataFrameNaFunctions", "DataFrameStatFunctions"]),
    ("group", ["GroupedData"]),
    ("window", ["Window", "WindowSpec"]),
    ("readwriter", ["DataFrameReader", "DataFrameWriter"]),
    ("udf", ["UDFRegistration"]),
    ("types", ["Row"]),
    ("functions", []),
]
DOC_PACKAGE_NAMES = ["SparkSession", "Catalog", "Column", "DataFrame", "DataFrameNaFunctions", "DataFrameReader", "DataFrameStatFunctions", "DataFrameWriter", "GroupedData", "Row", "UDFRegistration", "Window", "WindowSpec"]
TESTING_NAMES = ["assertDataFrameEqual", "assertSchemaEqual"]
VALID_DIALECTS = ["spark", "duckdb", "bigquery", "postgres", "snowflake", "redshift", "databricks", "mysql", "tsql"]
DOC_MODS = [m for m, _ in DOC_MODULE_NAMES]


def FI(path: t.List[str], name: str) -> dict:
    return {"fromImport": {"name": name, "path": path}}


def IA(path: t.List[str]) -> dict:
    return {"importAs": {"path": path}}


def IM(path: t.List[str]) -> dict:
    return {"importModule": {"path": path}}


def documented_imports() -> t.List[dict]:
    out = [FI(["pyspark", "sql"], n) for n in DOC_PACKAGE_NAMES]
    out += [FI(["pyspark", "sql"], m) for m in DOC_MODS]
    out += [FI(["pyspark", "sql", m], n) for m, ns in DOC_MODULE_NAMES for n in ns]
    out += [IA(["pyspark", "sql", m]) for m in DOC_MODS]
    out += [IM(["pyspark", "sql", m]) for m in DOC_MODS]
    out += [
        IA(["pyspark", "sql"]),
        IM(["pyspark", "sql"]),
        FI(["pyspark"], "sql"),
        FI(["pyspark"], "testing"),
        IA(["pyspark", "testing"]),
        IM(["pyspark", "testing"]),
        FI(["pyspark", "testing"], "assertDataFrameEqual"),
        FI(["pyspark", "testing"], "assertSchemaEqual"),
    ]
    return out


def doc_keys() -> t.List[str]:
    return ["pyspark", "pyspark.testing", "pyspark.sql"] + ["pyspark.sql." + m for m in DOC_MODS]


def form_key(f: dict) -> t.Tuple:
    k, a = next(iter(f.items()))
    return (k, tuple(a["path"]), a.get("name"))


class Tables:
    """what the specification needs from the source tree: ENGINE_TO_PREFIX and the engines' export tables (both are
    read with the translator's table extractors, which do not depend on the shape of activate())"""

    def __init__(self, repo: str):
        import gen_c20
        from translate import parse

        mod = parse(repo, "sqlframe/__init__.py")
        self.prefixes = dict(gen_c20._dict_literal(mod, "ENGINE_TO_PREFIX"))
        self.exports: t.Dict[str, t.List[t.Tuple[str, str, bool]]] = {}
        for e in self.prefixes:
            try:
                self.exports[e] = gen_c20._engine_exports(repo, e)[0]
            except Exception:
                self.exports[e] = []
        self.documented = documented_imports()
        self._doc = {form_key(f) for f in self.documented}

    def engines(self) -> t.List[str]:
        return list(self.prefixes)

    def expected_name(self, e: str, n: str) -> t.Optional[t.Any]:
        pre = self.prefixes.get(e)
        if pre is None:
            return None
        target = pre + "Session" if n == "SparkSession" else n if n in SHARED else pre + n
        for name, _f, own in self.exports.get(e, []):
            if name == target:
                return {"cls": {"e": e, "n": name}} if own else {"shared": {"n": name}}
        return None

    def expected_import(self, e: str, f: dict) -> t.Optional[t.Any]:
        kind, path, name = form_key(f)
        file = lambda m: {"file": {"e": e, "f": m}}  # noqa
        if kind == "fromImport":
            if path == ("pyspark", "sql"):
                if name in DOC_MODS:
                    return file(name)
                return self.expected_name(e, name) if name in DOC_PACKAGE_NAMES else None
            if len(path) == 3 and path[:2] == ("pyspark", "sql"):
                return self.expected_name(e, name) if name in dict(DOC_MODULE_NAMES).get(path[2], []) else None
            if path == ("pyspark",) and name == "sql":
                return {"pkg": {"e": e}}
            if path == ("pyspark",) and name == "testing":
                return "testing"
            if path == ("pyspark", "testing"):
                return {"testingAttr": {"n": name}} if name in TESTING_NAMES else None
            return None
        if len(path) == 3 and path[:2] == ("pyspark", "sql"):
            return file(path[2]) if path[2] in DOC_MODS else None
        if path == ("pyspark", "sql"):
            return {"pkg": {"e": e}}
        if path == ("pyspark", "testing"):
            return "testing"
        return None

    def is_documented(self, f: dict) -> bool:
        return form_key(f) in self._doc


def _aset(cfg: t.List[t.List[t.Any]], k: str, v: t.Any) -> t.List[t.List[t.Any]]:
    out = [list(x) for x in cfg]
    for x in out:
        if x[0] == k:
            x[1] = v
            return out
    return out + [[k, v]]


def _aget(cfg: t.List[t.List[t.Any]], k: str) -> t.Any:
    for a, b in cfg:
        if a == k:
            return b
    return None


def _env_find(env: dict, key: str) -> t.Optional[dict]:
    for r in env["real"]:
        if r["name"] == key:
            return r
    return None


def _inactive_want(env: dict, f: dict) -> t.Any:
    kind, path, name = form_key(f)
    r = _env_find(env, ".".join(path))
    if r is None or r["raises"] is not None:
        return "raises"
    if kind == "fromImport":
        r2 = _env_find(env, ".".join(path + (name,)))
        if r2 is not None and r2["raises"] is not None:
            return "raises"
    return "real"


def spec_dialect(cfg: t.List[t.List[t.Any]]) -> str:
    d = _aget(cfg, "sqlframe.input.dialect")
    return d["str"]["s"] if isinstance(d, dict) and "str" in d else "spark"


def spec_conn(cfg: t.List[t.List[t.Any]]) -> t.Any:
    cn = _aget(cfg, "sqlframe.conn")
    return {"given": {"n": cn["conn"]["n"]}} if isinstance(cn, dict) and "conn" in cn else "default"


def conn_is_bad(env: dict, c: t.Any) -> bool:
    return isinstance(c, dict) and "given" in c and c["given"]["n"] in env.get("badConns", [])


def session_want(env: dict, active: t.Optional[str], mocked: bool, cfg: t.List[t.List[t.Any]]) -> t.Any:
    """sessionWant of Impl/C20Spec.lean"""
    if active is not None:
        if active in ("duckdb", "standalone"):
            d = spec_dialect(cfg)
            if d not in VALID_DIALECTS:
                return "raises"
            if active == "standalone":
                return {"session": {"conn": "none", "dialect": d, "engine": active}}
            if conn_is_bad(env, spec_conn(cfg)):
                return "raises"
            return {"session": {"conn": spec_conn(cfg), "dialect": d, "engine": active}}
        return "any"
    if mocked:
        return "any"
    r = _env_find(env, "pyspark.sql")
    return "raises" if r is None or r["raises"] is not None else "real"


def attempt_of(env: dict, active: t.Optional[str], cfg: t.List[t.List[t.Any]]) -> t.Optional[t.Tuple[str, bool]]:
    if active in ("duckdb", "standalone") and spec_dialect(cfg) in VALID_DIALECTS:
        return (active, not (active == "duckdb" and conn_is_bad(env, spec_conn(cfg))))
    return None


def cfg_keys(cfg: t.List[t.List[t.Any]]) -> t.List[str]:
    return [k for k, _ in cfg if k in ("sqlframe.conn", "sqlframe.input.dialect")]


def spec_trace(tb: Tables, env: dict, events: t.List[t.Any]) -> t.List[dict]:
    """specTrace of Impl/C20Spec.lean"""
    active: t.Optional[str] = None
    mocked = False
    cfg: t.List[t.List[t.Any]] = []
    stack: t.List[t.Tuple[t.Optional[str], bool, t.List[t.List[t.Any]]]] = []
    out = []

    def activate(a: dict) -> t.Tuple[str, t.Optional[str], bool, t.List[t.List[t.Any]]]:
        c = cfg
        if a["conn"] is not None:
            c = _aset(c, "sqlframe.conn", {"conn": {"n": a["conn"]}})
        if a["dialect"] is not None:
            c = _aset(c, "sqlframe.input.dialect", {"str": {"s": a["dialect"]}})
        if a["eng"] is None:
            return "noRaise", active, True, c
        e = a["eng"].lower()
        if e not in tb.prefixes or e in env["brokenPkgs"]:
            return "raises", active, True, c
        return "noRaise", e, True, c

    for ev in events:
        want: t.Any = "any"
        if ev == "deactivate":
            active, mocked, cfg, want = None, False, [], "noRaise"
        elif ev == "sessionCreate":
            want = session_want(env, active, mocked, cfg)
        elif "activate" in ev:
            want, active, mocked, cfg = activate(ev["activate"])
        elif "ctxEnter" in ev:
            saved = (active, mocked, cfg)
            w, a2, m2, c2 = activate(ev["ctxEnter"])
            if w == "raises":
                want = "raises"
            else:
                stack.insert(0, saved)
                want, active, mocked, cfg = w, a2, m2, c2
        elif "ctxExit" in ev:
            if stack:
                active, mocked, cfg = stack.pop(0)
                want = "noRaise" if ev["ctxExit"]["k"] == "normal" else "raises"
            else:
                want = "noRaise"
        elif "userImport" in ev:
            f = ev["userImport"]["f"]
            if active is not None:
                x = tb.expected_import(active, f)
                want = {"obj": {"o": x}} if x is not None else "any"
            elif mocked:
                kind, path, name = form_key(f)
                if (kind == "fromImport" and path == ("pyspark",) and name == "testing") or (kind != "fromImport" and path == ("pyspark", "testing")):
                    want = {"obj": {"o": "testing"}}
                elif kind == "fromImport" and path == ("pyspark", "testing"):
                    want = {"obj": {"o": {"testingAttr": {"n": name}}}} if name in TESTING_NAMES else "any"
                elif kind == "importAs" and path == ("pyspark",):
                    want = {"obj": {"o": "mock"}}
            elif tb.is_documented(f):
                want = _inactive_want(env, f)
        out.append({"want": want, "active": active, "mocked": mocked, "config": [list(x) for x in cfg]})
    return out


def violated(tb: Tables, env: dict, events: t.List[t.Any]) -> t.List[str]:
    """the scope hypotheses that can be decided without the generated tables of activate / deactivate /
    activate_context (those — H_ctxFinally, H_functionsRebound, H_realImportsOk — are repaired in the source tree;
    when the model is unavailable they are taken to hold, i.e. nothing is excused by them)"""
    out = []
    tr = spec_trace(tb, env, events)
    before = [{"active": None, "mocked": False}] + tr[:-1]
    depth = 0
    nested = False
    bare = False
    for ev, st in zip(events, before):
        if isinstance(ev, dict) and "ctxEnter" in ev:
            if st["active"] is not None or st["mocked"] or depth > 0:
                nested = True
        if isinstance(ev, dict) and ("ctxEnter" in ev or "activate" in ev):
            a = ev.get("ctxEnter") or ev.get("activate")
            if a["eng"] is None and st["active"] is not None:
                bare = True
    # depth is tracked by the specification's stack: recompute
    stack = 0
    for ev, st_after in zip(events, tr):
        if isinstance(ev, dict) and "ctxEnter" in ev:
            if stack > 0:
                nested = True
            a = ev["ctxEnter"]
            ok = a["eng"] is None or (a["eng"].lower() in tb.prefixes and a["eng"].lower() not in env["brokenPkgs"])
            if ok:
                stack += 1
        elif isinstance(ev, dict) and "ctxExit" in ev and stack > 0:
            stack -= 1
    if nested:
        out.append("H_ctxNotNested")
    # sessions: the state BEFORE each getOrCreate()
    full_before = [{"active": None, "mocked": False, "config": []}] + tr[:-1]
    attempts: t.List[t.Tuple[str, bool]] = []
    told: t.List[t.Tuple[str, t.List[str]]] = []
    single_ok = True
    builder_ok = True
    for ev, st in zip(events, full_before):
        if ev != "sessionCreate":
            continue
        at = attempt_of(env, st["active"], st["config"])
        if at is not None:
            if not all(e == at[0] and not ok for e, ok in attempts):
                single_ok = False
            attempts.insert(0, at)
        if st["active"] is not None:
            ks = cfg_keys(st["config"])
            if not all(e != st["active"] or all(k in ks for k in pk) for e, pk in told):
                builder_ok = False
            told.insert(0, (st["active"], ks))
    if not single_ok:
        out.append("H_sessionSingleton")
    if not builder_ok:
        out.append("H_builderFresh")
    for ev in events:
        if isinstance(ev, dict) and ("ctxEnter" in ev or "activate" in ev):
            a = ev.get("ctxEnter") or ev.get("activate")
            if a["eng"] is not None and a["eng"].lower() not in tb.prefixes:
                if "H_knownEngine" not in out:
                    out.append("H_knownEngine")
    if bare:
        out.append("H_noBareReactivation")
    return out
