"""
c14_opts.py — C14's option stream: one `df.write.<fmt>(path, **options)` followed by one
`session.read[.option(…)…].<fmt>(path, …)` / `.load(path, format=…, …)`.

Per case four things are observed on the real code:
  * the option list of the COPY … TO statement it issues            (vs Impl/C14Options.lean `writerRendered`)
  * the file it writes                                              (vs the file DuckDB writes when given the model's / the
                                                                     specification's option list: engine semantics by execution;
                                                                     plus direct facts: header line present or not, gzip or not)
  * the option list of the read_<fmt>(…) call of the statement that produces the rows   (vs `readerRendered`)
  * the table the read returns                                      (vs DuckDB reading with the model's / specification's list;
                                                                     plus, for a matching read, the frame itself: the round trip)
The specification (Lean `specWriterOpts` / `specReaderOpts`): exactly the options the caller set reach the engine,
falsy values included, an option of the call overrides a stored one; string values as SQL strings.
"""
from __future__ import annotations

import gzip
import os
import random
import re
import shutil
import tempfile
import typing as t

import exprs as X
import c14_pool
from vlib import bag, lval, plain

TYPES = {"x": "int", "y": "int", "s": "str", "u": "str", "b": "bool", "d": "double", "dt": "date"}
DDL_TY = {"int": "bigint", "str": "string", "bool": "boolean", "double": "double", "date": "date"}
SQL_TY = {"int": "BIGINT", "str": "VARCHAR", "bool": "BOOLEAN", "double": "DOUBLE", "date": "DATE"}
# doubles are binary fractions with a short decimal form: written and parsed exactly by every format, compared exactly
POOLS = {"bool": [None, True, False, True], "double": [None, 0.0, 1.5, -0.25, 2.0], "date": [None, "2024-01-31", "1999-12-01", "2024-02-29"]}
FORMATS = ["csv", "json", "parquet"]


def pyval(ty: str, v: t.Any) -> t.Any:
    """a case's (JSON) value as the Python value handed to createDataFrame"""
    if v is not None and ty == "date":
        import datetime

        return datetime.date.fromisoformat(v)
    return v


def plain2(v: t.Any) -> t.Any:
    import datetime

    import decimal

    if isinstance(v, float):
        return {"f": repr(v)}
    if isinstance(v, decimal.Decimal):
        return {"dec": str(v)}
    if isinstance(v, datetime.date):
        return {"d": v.isoformat()}
    return plain(v)


def sql_literal(ty: str, v: t.Any) -> str:
    if v is None:
        return f"CAST(NULL AS {SQL_TY[ty]})"
    if ty == "str":
        return "CAST('" + str(v).replace("'", "''") + "' AS VARCHAR)"
    if ty == "bool":
        return "TRUE" if v else "FALSE"
    if ty == "date":
        return f"CAST('{v}' AS DATE)"
    # from a string: a CAST of a numeric literal is simplified away by session.sql (1.5 would reach DuckDB as a DECIMAL)
    return f"CAST('{v!r}' AS {SQL_TY[ty]})"


def make_df(session: t.Any, cols: t.List[str], rows: t.List[t.List[t.Any]], natural: bool = False) -> t.Any:
    """bigint / string frames come from createDataFrame (as in the other streams).  Frames with boolean / double / date
    columns come from createDataFrame too when `natural`, otherwise from session.sql over typed VALUES, so that the
    engine's column types are exactly the declared ones:
    createDataFrame emits bare literals (1.5 is a DECIMAL(2,1) to DuckDB whatever the schema says, and a later
    .cast('double') is dropped because the declared type already is double) - that is C09's subject, not this one's"""
    if all(TYPES[c] in ("int", "str") for c in cols):
        return X.make_df(session, {c: TYPES[c] for c in cols}, rows)
    dummy = {"int": 0, "str": "", "bool": False, "double": 0.5, "date": "2000-01-01"}
    if natural:
        # the ordinary way, declared schema and all (what the file writer makes of a double column is H_fileWriterFloatType)
        from sqlframe.duckdb import functions as F

        ddl = ", ".join(f"{c} {DDL_TY[TYPES[c]]}" for c in cols)
        data = rows or [[dummy[TYPES[c]] for c in cols]]
        df = session.createDataFrame([tuple(pyval(TYPES[c], v) for c, v in zip(cols, r)) for r in data], schema=ddl)
        return df if rows else df.where(F.lit(1) == F.lit(0))
    src = rows or [[dummy[TYPES[c]] for c in cols]]
    vals = ", ".join("(" + ", ".join(sql_literal(TYPES[c], v) for c, v in zip(cols, r)) + ")" for r in src)
    names = ", ".join(cols)  # plain identifiers; session.sql reads Spark SQL, where "x" is a string
    return session.sql(f"SELECT {names} FROM (VALUES {vals}) AS t({names})" + ("" if rows else " WHERE 1 = 0"))


W_VOCAB: t.Dict[str, t.Dict[str, t.List[t.Any]]] = {
    "csv": {
        "header": [True, False, "true", "false", True, False],
        "compression": ["gzip"],
        "sep": ["|", ";"],
        "quoteAll": [True, False],
        "nullValue": ["NA"],
        "dateFormat": ["%Y"],
        "timestampFormat": ["x"],
        "escapeQuotes": [False],
    },
    "json": {"compression": ["gzip"], "ignoreNullFields": [True, False], "dateFormat": ["%Y"], "lineSep": ["x"]},
    "parquet": {"compression": ["gzip", "snappy", "zstd", "uncompressed"], "partitionBy": ["x"]},
}
R_VOCAB: t.Dict[str, t.Dict[str, t.List[t.Any]]] = {
    "csv": {"header": [True, False, "true", "false"], "inferSchema": [True, False], "sep": ["|"], "nullValue": ["NA"], "multiLine": [False], "enforceSchema": [False]},
    "json": {"multiLine": [True, False], "dateFormat": ["%Y"], "primitivesAsString": [False], "dropFieldIfAllNull": [False]},
    "parquet": {"binary_as_string": [True, False], "union_by_name": [True, False]},
}
RSTATE_VOCAB: t.Dict[str, t.Dict[str, t.List[t.Any]]] = {
    "csv": {"header": [True, False, "true", "false"], "compression": ["gzip"], "ignore_errors": [True, False], "inferSchema": [True, False]},
    "json": {"compression": ["gzip"], "ignore_errors": [True, False]},
    "parquet": {"binary_as_string": [True, False], "union_by_name": [False]},
}


# ------------------------------------------------------------------------------------------------
# encoders
# ------------------------------------------------------------------------------------------------


def optval(v: t.Any) -> t.Any:
    if v is None:
        return "none"
    if isinstance(v, bool):
        return {"bool": {"b": v}}
    if isinstance(v, int):
        return {"int": {"i": v}}
    return {"str": {"s": str(v)}}


def opts_lean(kv: t.List[t.Any]) -> t.List[t.Any]:
    return [[k, optval(v)] for k, v in kv]


def ddl_of(cols: t.List[str]) -> str:
    return ", ".join(f"{c} {DDL_TY[TYPES[c]]}" for c in cols)


def columns_text(cols: t.List[str]) -> str:
    """what DuckDB `load` puts into `columns` for the DDL string `ddl_of(cols)`"""
    return "{" + ", ".join(f"'{c}': '{DDL_TY[TYPES[c]]}'" for c in cols) + "}"


def case_to_lean(i: int, c: dict) -> dict:
    rcalls = []
    for rc in c.get("rcalls", []):
        if rc[0] == "option":
            rcalls.append({"option": {"k": rc[1], "v": optval(rc[2])}})
        else:
            rcalls.append({"options": {"kv": opts_lean(rc[1])}})
    return {
        "case": i,
        "opt": {
            "fmt": c["fmt"],
            "wnamed": opts_lean(c["wopts"]),
            "rcalls": rcalls,
            "rnamed": opts_lean(c.get("ropts", [])),
            "via": "method" if c.get("via", "method") == "method" else "load",
            "schema": columns_text(c["f"]["cols"]) if c.get("schema") else None,
        },
    }


def show_kw(kv: t.List[t.Any]) -> str:
    return "".join(f", {k}={v!r}" for k, v in kv)


def show_case(c: dict) -> str:
    f = c["f"]
    fr = f"{'createDataFrame' if f.get('natural') else 'df'}[{', '.join(k + ':' + TYPES[k] for k in f['cols'])}]{f['rows']}"
    s = f"[{c['fmt']}] "
    if c.get("pre"):
        s += "<another frame>.write.<fmt>(p); "
    s += f"{fr}.write.{c['fmt']}(p{', mode=' + repr('overwrite') if c.get('pre') else ''}{show_kw(c['wopts'])})"
    if c.get("read", True):
        if c.get("prior"):
            s += "; session.read" + "".join(f".option({k!r}, {v!r})" for k, v in c["prior"]) + "  # another reader, dropped"
        r = "session.read"
        for rc in c.get("rcalls", []):
            r += f".option({rc[1]!r}, {rc[2]!r})" if rc[0] == "option" else f".options({', '.join(f'{k}={v!r}' for k, v in rc[1])})"
        sch = f", schema={ddl_of(f['cols'])!r}" if c.get("schema") else ""
        via = c.get("via", "method")
        if via == "method":
            r += f".{c['fmt']}(p{sch if c['fmt'] != 'parquet' else ''}{show_kw(c.get('ropts', []))})"
        elif via == "load":
            r += f".load(p, format={c['fmt']!r}{sch}{show_kw(c.get('ropts', []))})"
        else:
            r += f".format({c['fmt']!r}).load(p{sch}{show_kw(c.get('ropts', []))})"
        s += "; " + r + ".collect()"
    return s


# ------------------------------------------------------------------------------------------------
# what the specification says about one case, directly (no engine involved)
# ------------------------------------------------------------------------------------------------


def as_bool(v: t.Any) -> t.Optional[bool]:
    if isinstance(v, bool):
        return v
    if isinstance(v, str) and v.lower() in ("true", "false"):
        return v.lower() == "true"
    return None


def effective_read(c: dict) -> t.Dict[str, t.Any]:
    """key -> value reaching the engine per the specification: the call's, else the last stored one"""
    d: t.Dict[str, t.Any] = {}
    for rc in c.get("rcalls", []):
        if rc[0] == "option":
            d[rc[1]] = rc[2]
        else:
            for k, v in rc[1]:
                d[k] = v
    for k, v in c.get("ropts", []):
        if v is not None:
            d[k] = v
    return {k: v for k, v in d.items() if v is not None}


def pinned(f: dict) -> bool:
    return bool(f["rows"]) and all(any(r[j] is not None and r[j] != "" for r in f["rows"]) for j in range(len(f["cols"])))


def expects_frame(c: dict) -> bool:
    """is the read the *matching* read of the write, so that the property demands the frame back?"""
    if not c.get("read", True):
        return False
    fmt, f = c["fmt"], c["f"]
    w = {k: v for k, v in c["wopts"] if v is not None}
    r = effective_read(c)
    r.pop("inferSchema", None)
    if set(w) - {"header", "compression"} or set(r) - {"header", "compression"}:
        return False
    if fmt == "parquet":
        return not r and set(w) <= {"compression"}
    wcomp, rcomp = w.get("compression"), r.get("compression")
    if (wcomp or None) != (rcomp or None):
        return False
    if fmt == "json":
        if "header" in w or "header" in r or not f["rows"]:
            return False
        return bool(c.get("schema")) or pinned(f)
    wh, rh = as_bool(w.get("header")), as_bool(r.get("header"))
    if wh is None or rh is None or wh != rh:
        return False
    if not wh:
        # no header line and no rows is an empty file: what read_csv makes of it (nothing at all when gzip'ed) is DuckDB's
        return bool(c.get("schema")) and bool(f["rows"])
    return bool(c.get("schema")) or pinned(f)


# ------------------------------------------------------------------------------------------------
# statements: parsing what the implementation issued, rendering what the model / specification say
# ------------------------------------------------------------------------------------------------


def parse_copy_options(sql: str, eq: str, join: str) -> t.Optional[t.List[t.List[str]]]:
    m = re.search(r"\) TO '[^']*' \((.*)\)\s*$", sql, re.S)
    if not m:
        return None
    out = []
    for item in m.group(1).split(join):
        k, _, v = item.partition(eq)
        out.append([k, v])
    return out


def _split_top(s: str, sep: str = ", ") -> t.List[str]:
    out, depth, q, cur, i = [], 0, None, "", 0
    while i < len(s):
        ch = s[i]
        if q:
            cur += ch
            if ch == q:
                q = None
        elif ch in "'\"":
            q = ch
            cur += ch
        elif ch in "([{":
            depth += 1
            cur += ch
        elif ch in ")]}":
            depth -= 1
            cur += ch
        elif depth == 0 and s.startswith(sep, i):
            out.append(cur)
            cur = ""
            i += len(sep)
            continue
        else:
            cur += ch
        i += 1
    if cur:
        out.append(cur)
    return out


def parse_read_options(sql: str, fmt: str) -> t.Optional[t.List[t.List[str]]]:
    """the named arguments of READ_<FMT>([...], …) in a statement sqlglot has generated"""
    i = sql.upper().find(f"READ_{fmt.upper()}(")
    if i < 0:
        return None
    j = i + len(f"READ_{fmt.upper()}(")
    depth, q, k = 1, None, j
    while k < len(sql) and depth:
        ch = sql[k]
        if q:
            if ch == q:
                q = None
        elif ch in "'\"":
            q = ch
        elif ch in "([{":
            depth += 1
        elif ch in ")]}":
            depth -= 1
        k += 1
    args = _split_top(sql[j : k - 1])
    out = []
    for a in args[1:]:
        key, _, v = a.partition(" = ")
        out.append([key.strip().strip('"'), v.strip()])
    return out


def canon_value(v: str, generated: bool) -> t.List[str]:
    """a common form for an option value as the model renders it (python text) and as sqlglot re-generates it"""
    v = v.strip()
    if v.lower() in ("true", "false"):
        return ["bool", v.lower()]
    if re.fullmatch(r"-?\d+", v):
        return ["num", v]
    if len(v) >= 2 and v[0] == "'" and v[-1] == "'":
        return ["str", v[1:-1]]
    # a bare word: sqlglot's identifier normalisation lower-cases it
    if generated and len(v) >= 2 and v[0] == '"' and v[-1] == '"':
        return ["word", v[1:-1].lower()]
    if re.fullmatch(r"[A-Za-z_][A-Za-z0-9_]*", v):
        return ["word", v.lower()]
    if v.startswith("{"):
        return ["struct", re.sub(r"\s+", "", v)]
    return ["raw", v]


def sql_value(k: str, v: t.Any) -> str:
    """the specification's value as DuckDB SQL"""
    if k == "columns":
        return str(v)
    if isinstance(v, bool):
        return "true" if v else "false"
    if isinstance(v, int):
        return str(v)
    return "'" + str(v).replace("'", "''") + "'"


# ------------------------------------------------------------------------------------------------
# files
# ------------------------------------------------------------------------------------------------


def file_canon(ref: t.Any, path: str, fmt: str) -> t.Optional[dict]:
    if not os.path.exists(path):
        return None
    raw = open(path, "rb").read()
    if fmt == "parquet":
        rows = ref.execute(f"SELECT * FROM read_parquet('{path}')").fetchall()
        desc = ref.execute(f"DESCRIBE SELECT * FROM read_parquet('{path}')").fetchall()
        codecs = sorted({r[0] for r in ref.execute(f"SELECT DISTINCT compression FROM parquet_metadata('{path}')").fetchall()})
        return {"cols": [[d[0], duck_ty(d[1])] for d in desc], "rows": bag([[plain2(v) for v in r] for r in rows]), "codec": codecs}
    gz = raw[:2] == b"\x1f\x8b"
    if gz:
        try:
            raw = gzip.decompress(raw)
        except Exception:  # noqa
            return {"gzip": True, "undecodable": True}
    text = raw.decode("utf-8", "replace")
    lines = text.split("\n")
    if lines and lines[-1] == "":
        lines = lines[:-1]
    return {"gzip": gz, "n": len(lines), "first": lines[0] if lines else None, "lines": sorted(lines)}


def loose_file_canon(ref: t.Any, path: str, fmt: str, cols: t.List[str]) -> t.Any:
    """the file's content with the *type* of double columns forgotten (DECIMAL(2,1) 1.50 and DOUBLE 1.5 are the same)"""
    import json as _json

    fc = file_canon(ref, path, fmt)
    if fc is None or fc.get("undecodable"):
        return fc
    dbl = [j for j, k in enumerate(cols) if TYPES[k] == "double"]
    if fmt == "parquet":
        rows = ref.execute(f"SELECT * FROM read_parquet('{path}')").fetchall()
        return {"cols": [[n, "double" if ty.startswith("decimal") else ty] for n, ty in fc["cols"]], "codec": fc["codec"],
                "rows": bag([[plain2(float(v)) if (j in dbl and v is not None) else plain2(v) for j, v in enumerate(r)] for r in rows])}
    out = []
    for ln in fc["lines"]:
        try:
            if fmt == "json":
                d = _json.loads(ln)
                out.append(_json.dumps({k: (float(v) if (k in cols and TYPES[k] == "double" and v is not None) else v) for k, v in d.items()}, sort_keys=True))
            else:
                parts = ln.split(",")
                out.append(",".join(repr(float(x)) if (j in dbl and x not in ("",) and len(parts) == len(cols) and parts != cols) else x for j, x in enumerate(parts)))
        except Exception:  # noqa
            out.append(ln)
    return {"gzip": fc["gzip"], "n": fc["n"], "lines": sorted(out)}


def loose_table(tb: t.Any) -> t.Any:
    if not isinstance(tb, dict):
        return tb
    return {"cols": tb["cols"], "tys": ["double" if str(x).startswith("decimal") else x for x in tb["tys"]],
            "rows": [[({"f": repr(float(v["dec"]))} if isinstance(v, dict) and "dec" in v else v) for v in r] for r in tb["rows"]]}


FLOAT_TAG = "H_fileWriterFloatType"


def float_type_only(f: dict) -> bool:
    """can the file writer's optimised SELECT have lost the cast of a double column? (createDataFrame frames only)"""
    return bool(f.get("natural")) and any(TYPES[k] == "double" for k in f["cols"])


def files_equal(a: t.Optional[dict], b: t.Optional[dict], n_rows: int) -> bool:
    if a is None or b is None:
        return a is b
    a2, b2 = dict(a), dict(b)
    # the order of the data lines is not compared (bags); the first line only when it is a header line
    for d in (a2, b2):
        if "n" in d and d["n"] == n_rows:
            d.pop("first", None)
    return a2 == b2


def content_facts(c: dict, fc: t.Optional[dict]) -> t.Optional[str]:
    """what the caller's explicit options mean for the file, whatever the engine's defaults are"""
    if fc is None or c["fmt"] == "parquet" or fc.get("undecodable"):
        return None
    w = {k: v for k, v in c["wopts"] if v is not None}
    f = c["f"]
    if c["fmt"] == "csv" and "header" in w and as_bool(w["header"]) is not None:
        want = len(f["rows"]) + (1 if as_bool(w["header"]) else 0)
        if fc["n"] != want:
            return f"write.csv(header={w['header']!r}) of {len(f['rows'])} rows wrote {fc['n']} lines (first: {fc['first']!r})"
        if as_bool(w["header"]) and "sep" not in w and fc["first"] != ",".join(f["cols"]):
            return f"write.csv(header={w['header']!r}): first line is {fc['first']!r}, not the column names"
    if w.get("compression") == "gzip" and not fc["gzip"]:
        return "write(compression='gzip') wrote a file that is not gzip"
    if "compression" not in w and fc["gzip"]:
        return "a write without compression wrote a gzip file"
    return None


# ------------------------------------------------------------------------------------------------
# one case on the real code, with the reference runs
# ------------------------------------------------------------------------------------------------


def duck_ty(s: str) -> str:
    s = str(s).upper()
    if s in ("BIGINT", "INTEGER", "LONG", "INT"):
        return "int"
    if s in ("VARCHAR", "STRING", "TEXT"):
        return "str"
    if s in ("BOOLEAN", "BOOL"):
        return "bool"
    if s in ("DOUBLE", "FLOAT8"):
        return "double"
    return s.lower()


def canon_rows(fmt: str, rows: t.List[t.List[t.Any]]) -> t.List[str]:
    if fmt == "csv":
        rows = [[None if (v == {"s": ""} or v == "") else v for v in r] for r in rows]
    return bag(rows)


def table_canon(fmt: str, tb: t.Any) -> t.Any:
    if not isinstance(tb, dict):
        return tb
    return {"cols": tb["cols"], "tys": tb["tys"], "rows": canon_rows(fmt, tb["rows"])}


IDENT = re.compile(r"[A-Za-z_][A-Za-z0-9_]*$")


def _ref_read(ref: t.Any, fmt: str, path: str, opts: t.List[t.List[str]], cols: t.Optional[t.List[str]]) -> t.Any:
    """DuckDB reading `path` with the given option list, the way `load` asks: with a schema, the schema's columns
    cast; without one, once for the schema and again with that schema (for csv: named to the reader as `columns`)"""
    try:
        if cols:
            sel = ", ".join(f'TRY_CAST("{c}" AS {SQL_TY[TYPES[c]]}) AS "{c}"' for c in cols)
        else:
            first = ref.sql(f"SELECT * FROM read_{fmt}(['{path}']{''.join(f', {k} = {v}' for k, v in opts)})")
            sch = [(n, "VARCHAR" if str(ty).upper() == "JSON" else str(ty)) for n, ty in zip(first.columns, first.types)]
            sel = ", ".join(f'TRY_CAST("{n}" AS {ty}) AS "{n}"' for n, ty in sch)
            if fmt == "csv":
                opts = [kv for kv in opts if kv[0] != "columns"] + [["columns", "{" + ", ".join(f"'{n}': '{ty}'" for n, ty in sch) + "}"]]
        rel = ref.sql(f"SELECT {sel} FROM read_{fmt}(['{path}']{''.join(f', {k} = {v}' for k, v in opts)})")
        names = list(rel.columns)
        tys = [duck_ty(x) for x in rel.types]
        rows = rel.fetchall()
    except Exception as e:  # noqa
        return "failed"
    return {"cols": names, "tys": tys, "rows": [[plain2(v) for v in r] for r in rows]}


def run_one(item: t.Tuple[dict, dict]) -> dict:
    import duckdb

    c, o = item
    if "err" in o:
        raise RuntimeError(f"driver rejected a case: {o}")
    o = o["opt"]
    fmt, f = c["fmt"], c["f"]
    weq, req, join = o["write_eq"], o["read_eq"], o["join"]
    session = c14_pool.fresh_session()
    ref = duckdb.connect(":memory:")
    log_sql: t.List[str] = []
    orig = session._execute

    def spy(sql: str) -> None:
        log_sql.append(sql)
        orig(sql)

    session._execute = spy  # type: ignore
    d = tempfile.mkdtemp(prefix="verif_c14o_")
    steps: t.List[dict] = []
    try:
        ref.execute("CREATE TABLE src (" + ", ".join(f'"{k}" {SQL_TY[TYPES[k]]}' for k in f["cols"]) + ")")
        if f["rows"]:
            ref.executemany("INSERT INTO src VALUES (" + ", ".join("?" for _ in f["cols"]) + ")", [tuple(pyval(TYPES[k], v) for k, v in zip(f["cols"], r)) for r in f["rows"]])
        paths = {w: os.path.join(d, f"{w}.{fmt}") for w in ("impl", "model", "spec")}

        # ---- the write ------------------------------------------------------------------------
        res, err = "ok", None
        try:
            if c.get("pre"):
                old = {"int": 7, "str": "old", "bool": True, "double": 7.5, "date": "1970-01-01"}
                getattr(make_df(session, f["cols"], [[old[TYPES[k]] for k in f["cols"]]]).write, fmt)(paths["impl"])
            del log_sql[:]
            kw = dict(c["wopts"])
            if c.get("pre"):
                kw["mode"] = "overwrite"
            getattr(make_df(session, f["cols"], f["rows"], bool(f.get("natural"))).write, fmt)(paths["impl"], **kw)
        except Exception as e:  # noqa
            res, err = "failed", type(e).__name__
        copies = [q for q in log_sql if q.lstrip().upper().startswith("COPY")]
        impl_wopts = parse_copy_options(copies[-1], weq, join) if copies else None
        refs = {}
        # the model is about the options: its reference file is written from the SELECT the implementation itself sent
        # (self-contained: VALUES), the specification's from the frame as a typed table
        msel = re.match(r"\s*COPY \((.*)\) TO '", copies[-1], re.S) if copies else None
        sel_of = {"model": msel.group(1) if msel else "SELECT * FROM src", "spec": "SELECT * FROM src"}
        for who, opts in (("model", [[k, v] for k, v in o["w_model"]]), ("spec", [[k, sql_value(k, v)] for k, v in o["w_spec"]])):
            try:
                ref.execute(f"COPY ({sel_of[who]}) TO '{paths[who]}' ({', '.join(k + ' ' + v for k, v in opts)})")
                refs[who] = "ok"
            except Exception as e:  # noqa
                refs[who] = "failed"
                if os.path.exists(paths[who]):
                    os.remove(paths[who])
        if res != "ok" and not c.get("pre") and os.path.exists(paths["impl"]):
            os.remove(paths["impl"])  # what a failing COPY leaves behind on a new path is DuckDB's (see the path stream)
        fc = {w: file_canon(ref, paths[w], fmt) for w in paths}
        n = len(f["rows"])
        m_diff = None
        if impl_wopts is not None and impl_wopts != [[k, v] for k, v in o["w_model"]]:
            m_diff = f"COPY options {impl_wopts} (model {o['w_model']})"
        elif impl_wopts is None and res == "ok":
            m_diff = "the write succeeded without a COPY statement"
        elif res != refs["model"]:
            m_diff = f"write {res} ({err}); DuckDB given the model's options: {refs['model']}"
        elif res == "ok" and not files_equal(fc["impl"], fc["model"], n):
            m_diff = f"file differs from the one DuckDB writes for the model's options: {fc['impl']} vs {fc['model']}"
        s_diff = None
        if res != refs["spec"]:
            s_diff = f"write {res} ({err}); DuckDB given exactly the caller's options {o['w_spec']}: {refs['spec']}"
        elif res == "ok":
            s_diff = content_facts(c, fc["impl"])
            if s_diff is None and not files_equal(fc["impl"], fc["spec"], n):
                s_diff = f"file differs from the one DuckDB writes for exactly the caller's options {o['w_spec']}: {fc['impl']} vs {fc['spec']}"
        w_scope = list(o["w_scope"])
        if s_diff is not None and res == "ok" and refs["spec"] == "ok" and float_type_only(f) and "sep" not in dict(c["wopts"]) and content_facts(c, fc["impl"]) is None:
            if loose_file_canon(ref, paths["impl"], fmt, f["cols"]) == loose_file_canon(ref, paths["spec"], fmt, f["cols"]):
                w_scope.append(FLOAT_TAG)
                s_diff += "  [the only difference is the type of the double column(s): DECIMAL in the written file]"
        steps.append({"what": "write", "impl": res, "err": err, "impl_options": impl_wopts, "model_diff": m_diff, "spec_diff": s_diff, "scope": w_scope,
                      "impl_eq_model": m_diff is None, "impl_eq_spec": s_diff is None})

        # ---- the read -------------------------------------------------------------------------
        if c.get("read", True) and res == "ok" and refs["spec"] == "ok" and refs["model"] == "ok":
            if c.get("prior"):
                try:
                    r0 = session.read
                    for k, v in c["prior"]:
                        r0 = r0.option(k, v)
                except Exception:  # noqa
                    pass
            del log_sql[:]
            want_cols = f["cols"] if c.get("schema") else None
            rres: t.Any
            rerr = None
            try:
                rd = session.read
                for rc in c.get("rcalls", []):
                    rd = rd.option(rc[1], rc[2]) if rc[0] == "option" else rd.options(**dict(rc[1]))
                kw = dict(c.get("ropts", []))
                via = c.get("via", "method")
                ddl = ddl_of(f["cols"]) if c.get("schema") else None
                if via == "method":
                    if fmt == "parquet":
                        df = rd.parquet(paths["impl"], **kw)
                    else:
                        df = getattr(rd, fmt)(paths["impl"], schema=ddl, **kw)
                elif via == "load":
                    df = rd.load(paths["impl"], format=fmt, schema=ddl, **kw)
                else:
                    df = rd.format(fmt).load(paths["impl"], schema=ddl, **kw)
                rows = df.collect()
                fields = df.schema.fields
                rres = {"cols": [x.name for x in fields], "tys": [duck_ty(x.dataType.simpleString()) for x in fields], "rows": [[plain2(v) for v in r] for r in rows]}
            except Exception as e:  # noqa
                rres, rerr = "failed", type(e).__name__
            reads = [q for q in log_sql if f"READ_{fmt.upper()}(" in q.upper() and not q.lstrip().upper().startswith("CREATE")]
            impl_ropts = parse_read_options(reads[-1], fmt) if reads else None
            r_model = [[k, v] for k, v in o["r_model"]]
            inferred = bool(r_model) and r_model[-1] == ["columns", "<inferred>"]
            ref_model_opts = r_model[:-1] if inferred else r_model
            m_tab = _ref_read(ref, fmt, paths["model"], ref_model_opts, want_cols if fmt != "parquet" or via != "method" else None)
            s_tab = _ref_read(ref, fmt, paths["spec"], [[k, sql_value(k, v)] for k, v in o["r_spec"]], want_cols if fmt != "parquet" or via != "method" else None)
            m_diff = None
            if impl_ropts is not None:
                # DuckDB's named parameters are case-insensitive and sqlglot's normalisation lower-cases the keys
                got = [[k.lower(), canon_value(v, True)] for k, v in impl_ropts]
                want = [[k.lower(), canon_value(v, False)] for k, v in r_model]
                if inferred and got and got[-1][0] == "columns":
                    got, want = got[:-1], want[:-1]
                if got != want:
                    m_diff = f"read_{fmt} options {impl_ropts} (model {r_model})"
            if m_diff is None and table_canon(fmt, rres) != table_canon(fmt, m_tab):
                m_diff = f"read gives {rres} ({rerr}); DuckDB given the model's options {ref_model_opts}: {m_tab}"
            s_diff = None
            odd = [n for tb in (m_tab, s_tab) if isinstance(tb, dict) for n in tb["cols"] if n not in f["cols"] and not re.fullmatch(r"column\d+", n)]
            if odd:
                # a mismatched read of a header-less file took a data row for the header (DuckDB itself, given the model's
                # or the specification's options, names a column `5`, `true`, ``): such names are outside this property
                # (C10; sqlframe reads `5` / `true` in a select list as literals); nothing is compared
                m_diff = None
                steps.append({"what": "read", "impl": "skipped", "err": None, "impl_options": impl_ropts, "model_diff": None, "spec_diff": None, "scope": list(o["r_scope"]),
                              "impl_eq_model": True, "impl_eq_spec": True, "round_trip_demanded": False, "skipped": f"column names {odd[:3]}"})
            elif table_canon(fmt, rres) != table_canon(fmt, s_tab):
                s_diff = f"read gives {rres} ({rerr}); DuckDB given exactly the caller's options {o['r_spec']}: {s_tab}"
            want_tab: t.Any = None
            if expects_frame(c):
                want_tab = {"cols": f["cols"], "tys": [TYPES[k] for k in f["cols"]], "rows": [[plain2(pyval(TYPES[k], v)) for k, v in zip(f["cols"], r)] for r in f["rows"]]}
            if s_diff is None and not odd and want_tab is not None and table_canon(fmt, rres) != table_canon(fmt, want_tab):
                s_diff = f"the matching read does not give the frame back: {rres} ({rerr})"
            if not odd:
                r_scope = list(o["r_scope"])
                if s_diff is not None and float_type_only(f) and isinstance(rres, dict):
                    lc = lambda tb: table_canon(fmt, loose_table(tb))  # noqa
                    if lc(rres) == lc(s_tab) and (want_tab is None or lc(rres) == lc(want_tab)):
                        r_scope.append(FLOAT_TAG)
                        s_diff += "  [the only difference is the type of the double column(s): decimal read back from the written file]"
                steps.append({"what": "read", "impl": "ok" if isinstance(rres, dict) else "failed", "err": rerr, "impl_options": impl_ropts, "model_diff": m_diff, "spec_diff": s_diff,
                          "scope": r_scope, "impl_eq_model": m_diff is None, "impl_eq_spec": s_diff is None, "round_trip_demanded": expects_frame(c)})
    finally:
        shutil.rmtree(d, ignore_errors=True)
        try:
            ref.close()
        except Exception:  # noqa
            pass
    first_model = next((i for i, s in enumerate(steps) if s["model_diff"] is not None), None)
    first_spec = next((i for i, s in enumerate(steps) if s["spec_diff"] is not None), None)
    return {"case": c, "driver": o, "steps": steps, "first_model_diff": first_model, "first_spec_diff": first_spec}


def evaluate(cases: t.List[dict]) -> t.List[dict]:
    import vlib

    outs = vlib.run_driver("C14", [case_to_lean(i, c) for i, c in enumerate(cases)])
    return c14_pool.pmap(run_one, list(zip(cases, outs)))


# ------------------------------------------------------------------------------------------------
# generation
# ------------------------------------------------------------------------------------------------


def gen_value(rng: random.Random, ty: str, non_null: bool = False) -> t.Any:
    pool = {"int": X.INT_POOL, "str": X.STR_POOL, **POOLS}[ty]
    if non_null:
        pool = [v for v in pool if v is not None and v != ""]
    return rng.choice(pool)


def gen_frame(rng: random.Random, strings_only: bool = False, min_rows: int = 0) -> dict:
    """columns of bigint / string (the C09 generators' core) and, in half of the frames, boolean / double / date"""
    pool = ["s", "u"] if strings_only else (list(TYPES) if rng.random() < 0.5 else ["x", "y", "s", "u"])
    cols = rng.sample(pool, rng.randint(1, min(3, len(pool))))
    n = rng.choice([0, 1, 2, 3, 4, 4])
    rows: t.List[t.List[t.Any]] = []
    for _ in range(n):
        if rows and rng.random() < 0.25:
            rows.append(list(rng.choice(rows)))
        else:
            rows.append([gen_value(rng, TYPES[k]) for k in cols])
    while len(rows) < min_rows:
        rows.append([gen_value(rng, TYPES[k], non_null=True) for k in cols])
    f: t.Dict[str, t.Any] = {"cols": cols, "rows": rows}
    if any(TYPES[k] not in ("int", "str") for k in cols) and rng.random() < 0.4:
        f["natural"] = True  # built by createDataFrame with the declared schema
    return f


def pick(rng: random.Random, vocab: t.Dict[str, t.List[t.Any]], p: float, bias: t.Optional[t.Dict[str, float]] = None) -> t.List[t.Any]:
    out = []
    for k, vals in vocab.items():
        if rng.random() < (bias or {}).get(k, p):
            out.append([k, rng.choice(vals)])
    rng.shuffle(out)
    return out


def gen_random(rng: random.Random) -> dict:
    fmt = rng.choice(FORMATS)
    c: t.Dict[str, t.Any] = {"fmt": fmt, "f": gen_frame(rng, strings_only=rng.random() < 0.3, min_rows=rng.choice([0, 0, 2])), "pre": rng.random() < 0.2}
    c["wopts"] = pick(rng, W_VOCAB[fmt], 0.06, {"header": 0.7, "compression": 0.3})
    c["via"] = rng.choice(["method", "method", "load", "format_load"])
    c["schema"] = fmt != "parquet" and rng.random() < 0.6 if c["via"] == "method" else rng.random() < 0.5
    rstate = pick(rng, RSTATE_VOCAB[fmt], 0.08, {"header": 0.4, "compression": 0.15})
    w = dict(c["wopts"])
    if w.get("compression") == "gzip" and fmt != "parquet" and rng.random() < 0.8:
        rstate = [kv for kv in rstate if kv[0] != "compression"] + [["compression", "gzip"]]
    rcalls: t.List[t.Any] = []
    for k, v in rstate:
        if rng.random() < 0.7:
            rcalls.append(["option", k, v])
        else:
            rcalls.append(["options", [[k, v]]])
        if rng.random() < 0.15:  # the same key set again: the last one counts
            rcalls.append(["option", k, rng.choice(RSTATE_VOCAB[fmt][k])])
    c["rcalls"] = rcalls
    rv = R_VOCAB[fmt] if c["via"] == "method" else {**R_VOCAB[fmt], **{k: v for k, v in RSTATE_VOCAB[fmt].items() if k not in R_VOCAB[fmt]}}
    c["ropts"] = pick(rng, rv, 0.05, {"header": 0.55})
    # mostly make the read's header agree with the write's, so that the round trip is demanded
    if fmt == "csv" and "header" in w and rng.random() < 0.7:
        c["ropts"] = [kv for kv in c["ropts"] if kv[0] != "header"] + [["header", rng.choice([w["header"], as_bool(w["header"])])]]
    if rng.random() < 0.15:
        c["prior"] = pick(rng, RSTATE_VOCAB[fmt], 0.5)
    c["origin"] = "opts-random"
    return c


def targeted(rng: random.Random, thorough: bool, writer_params: t.Dict[str, t.List[str]], reader_params: t.Dict[str, t.List[str]]) -> t.List[dict]:
    cases: t.List[dict] = []
    # csv: every spelling of header x compression x target exists or not, read back by the matching call
    for hv in (True, False, "true", "false"):
        for comp in (None, "gzip"):
            for pre in (False, True):
                for rep in range(2 if thorough else 1):
                    strings = rng.random() < 0.5
                    f = gen_frame(rng, strings_only=strings, min_rows=2)
                    w = [["header", hv]] + ([["compression", comp]] if comp else [])
                    rng.shuffle(w)
                    via = rng.choice(["method", "load", "format_load"])
                    rcalls = [["option", "compression", comp]] if comp else []
                    rh = rng.choice([hv, as_bool(hv)])
                    schema = True if not as_bool(hv) else rng.random() < 0.6
                    c = {"fmt": "csv", "f": f, "pre": pre, "wopts": w, "via": via, "schema": schema, "rcalls": rcalls, "ropts": [["header", rh]], "origin": "opts-header-grid"}
                    cases.append(c)
    # who wins: the stored header is the wrong one, the call's is right; and a header given only through .option()
    for hv in (True, False):
        for via in ("method", "load", "format_load"):
            f = gen_frame(rng, strings_only=True, min_rows=2)
            wrong = rng.choice([not hv, "true" if not hv else "false"])
            cases.append({"fmt": "csv", "f": f, "pre": False, "wopts": [["header", hv]], "via": via, "schema": True,
                          "rcalls": [["option", "header", wrong]] if rng.random() < 0.5 else [["options", [["header", wrong]]]], "ropts": [["header", hv]], "origin": "opts-precedence"})
            cases.append({"fmt": "csv", "f": gen_frame(rng, strings_only=True, min_rows=2), "pre": False, "wopts": [["header", hv]], "via": via, "schema": True,
                          "rcalls": [["option", "header", wrong], ["option", "header", hv]], "ropts": [], "origin": "opts-state-only"})
            cases.append({"fmt": "csv", "f": gen_frame(rng, strings_only=True, min_rows=2), "pre": False, "wopts": [["header", hv]], "via": via, "schema": True,
                          "prior": [["header", wrong]], "rcalls": [], "ropts": [["header", hv]], "origin": "opts-other-reader"})
    # json / parquet: compression, read back
    for fmt, comps in (("json", [None, "gzip"]), ("parquet", [None, "gzip", "snappy", "zstd", "uncompressed"])):
        for comp in comps:
            for pre in (False, True):
                f = gen_frame(rng, min_rows=2)
                cases.append({"fmt": fmt, "f": f, "pre": pre, "wopts": [["compression", comp]] if comp else [], "via": rng.choice(["method", "load"]) if fmt == "json" else "method",
                              "schema": fmt == "json", "rcalls": [["option", "compression", comp]] if comp and fmt == "json" else [], "ropts": [], "origin": "opts-compression"})
    # every option parameter of every writer given a falsy value: it is a value, it must reach the engine
    falsy = [False, 0, ""]
    for fmt in FORMATS:
        for p in writer_params.get(fmt, []):
            for v in falsy if thorough else [rng.choice(falsy[:2]), ""][: 1 + (rng.random() < 0.3)]:
                cases.append({"fmt": fmt, "f": gen_frame(rng, min_rows=1), "pre": False, "wopts": [[p, v]], "read": False, "origin": "opts-falsy-writer"})
    # … and of the reader front ends
    for fmt in ("csv", "json"):
        ps = reader_params.get(fmt, [])
        for p in ps if thorough else rng.sample(ps, min(len(ps), 12)):
            v = rng.choice([False, 0])
            cases.append({"fmt": fmt, "f": gen_frame(rng, min_rows=2), "pre": False, "wopts": [["header", True]] if fmt == "csv" else [], "via": "method", "schema": rng.random() < 0.5,
                          "rcalls": [], "ropts": [[p, v]], "origin": "opts-falsy-reader"})
    return cases


# ------------------------------------------------------------------------------------------------
# shrinking
# ------------------------------------------------------------------------------------------------


def shrink_candidates(c: dict) -> t.List[dict]:
    out: t.List[dict] = []
    for key in ("wopts", "ropts", "rcalls"):
        lst = c.get(key) or []
        for i in range(len(lst)):
            out.append(dict(c, **{key: lst[:i] + lst[i + 1 :]}))
    if c.get("prior"):
        out.append({k: v for k, v in c.items() if k != "prior"})
    if c.get("pre"):
        out.append(dict(c, pre=False))
    if c.get("read", True):
        out.append(dict(c, read=False))
    if c.get("via") in ("load", "format_load"):
        out.append(dict(c, via="method", schema=c.get("schema") and c["fmt"] != "parquet"))
    rows = c["f"]["rows"]
    for j in range(len(rows)):
        out.append(dict(c, f=dict(c["f"], rows=rows[:j] + rows[j + 1 :])))
    cols = c["f"]["cols"]
    if len(cols) > 1:
        for j in range(len(cols)):
            out.append(dict(c, f={"cols": cols[:j] + cols[j + 1 :], "rows": [r[:j] + r[j + 1 :] for r in rows]}))
    return out
